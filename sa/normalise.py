"""Source normalisation applied to the parsed package before any rule runs.

Private helpers that did not exist on the pinned tree (`pinned_helpers.json`: every function name of the package at the
pinned commit plus the nine fix commits) are *inlined back* into their callers when that can be done exactly at the
syntax-tree level.  Purpose: a behaviour-preserving "extract method" / "introduce helper" refactoring must not change
any verdict, and a behaviour-changing edit hidden behind a new helper is analysed as if it had been written in place.
Helpers that existed on the pinned tree are never touched (the rules know them by role); helpers whose shape does not
allow exact inlining are left as calls (the CFG-based analyses inline them on their own, the syntactic rules treat them
as opaque callees).

Exactness conditions (checked per call site, otherwise the site is left alone):
  * the callee is a single-definition private function: `self._h(...)` inside the defining class, or `_h(...)` in the
    defining module; not a generator, not decorated (staticmethod allowed), no nested def / lambda / global / nonlocal,
    not recursive, no *args / **kwargs on either side, unsupplied parameters have constant defaults;
  * statement forms `self._h(..)`, `t = self._h(..)`, `return self._h(..)`: the callee's `return`s must be compatible with
    the form (tail position: any; assignment: exactly one `return e` as the last statement; expression statement: no
    value-returning `return` except the last statement);
  * expression form (anywhere else): the callee is a single `return e` and every argument is a name or a constant;
  * callee locals are renamed apart unless provably free of clashes; a local that is returned into the identically
    named target keeps its name unless the caller reads it in a handler / finally enclosing the call.
"""
import ast
import copy
import json
import os

HERE = os.path.dirname(os.path.abspath(__file__))
_FORBIDDEN = (ast.Yield, ast.YieldFrom, ast.Await, ast.FunctionDef, ast.AsyncFunctionDef, ast.Lambda, ast.Global, ast.Nonlocal,
              ast.ClassDef, ast.NamedExpr)


def pinned_names():
    with open(os.path.join(HERE, 'pinned_helpers.json')) as f:
        return set(json.load(f)['names'])


def _docless(body):
    if body and isinstance(body[0], ast.Expr) and isinstance(body[0].value, ast.Constant) and isinstance(body[0].value.value, str):
        return body[1:]
    return body


def _terminates(stmts):
    """every path through stmts ends in return / raise"""
    if not stmts:
        return False
    s = stmts[-1]
    if isinstance(s, (ast.Return, ast.Raise)):
        return True
    if isinstance(s, ast.If):
        return _terminates(s.body) and _terminates(s.orelse)
    if isinstance(s, ast.Try):
        if s.finalbody and _terminates(s.finalbody):
            return True
        return (_terminates(s.body) or (bool(s.orelse) and _terminates(s.orelse))) and all(_terminates(h.body) for h in s.handlers)
    if isinstance(s, ast.With):
        return _terminates(s.body)
    return False


class Helper(object):
    def __init__(self, module, cls, fn):
        self.module = module
        self.cls = cls
        self.fn = fn
        self.static = any(isinstance(d, ast.Name) and d.id == 'staticmethod' for d in fn.decorator_list)
        a = fn.args
        self.ok = not (a.vararg or a.kwarg or a.kwonlyargs or getattr(a, 'posonlyargs', None))
        if any(not (isinstance(d, ast.Name) and d.id == 'staticmethod') for d in fn.decorator_list):
            self.ok = False
        body = _docless(fn.body)
        self.body = body
        if any(isinstance(n, _FORBIDDEN) for s in body for n in ast.walk(s)):
            self.ok = False
        params = [x.arg for x in a.args]
        if cls is not None and not self.static:
            if not params or params[0] != 'self':
                self.ok = False
            params = params[1:]
        self.params = params
        nd = len(a.defaults)
        self.defaults = {}
        allp = [x.arg for x in a.args]
        for p, d in zip(allp[len(allp) - nd:], a.defaults):
            self.defaults[p] = d
            if not isinstance(d, ast.Constant):
                self.ok = False
        # recursion
        for n in ast.walk(fn):
            if isinstance(n, ast.Call) and ((isinstance(n.func, ast.Attribute) and n.func.attr == fn.name) or
                                            (isinstance(n.func, ast.Name) and n.func.id == fn.name)):
                self.ok = False
        self.returns = [n for s in body for n in ast.walk(s) if isinstance(n, ast.Return)]
        self.value_returns = [r for r in self.returns if r.value is not None]
        self.last_is_return = bool(body) and isinstance(body[-1], ast.Return)
        self.single_expr = len(body) == 1 and isinstance(body[0], ast.Return) and body[0].value is not None
        self.stored = set()
        for s in body:
            for n in ast.walk(s):
                if isinstance(n, ast.Name) and isinstance(n.ctx, (ast.Store, ast.Del)):
                    self.stored.add(n.id)
                if isinstance(n, ast.ExceptHandler) and n.name:
                    self.stored.add(n.name)


class _Rename(ast.NodeTransformer):
    def __init__(self, mapping, exprs=None):
        self.mapping = mapping
        self.exprs = exprs or {}

    def visit_Name(self, n):
        if n.id in self.exprs and isinstance(n.ctx, ast.Load):
            return copy.deepcopy(self.exprs[n.id])
        if n.id in self.mapping:
            return ast.copy_location(ast.Name(id=self.mapping[n.id], ctx=n.ctx), n)
        return n

    def visit_ExceptHandler(self, n):
        self.generic_visit(n)
        if n.name and n.name in self.mapping:
            n.name = self.mapping[n.name]
        return n


class Normaliser(object):
    def __init__(self, trees, pinned):
        """trees: {module_name: ast.Module}"""
        self.trees = trees
        self.pinned = pinned
        self.counter = 0
        self.inlined = []      # (helper qualname, caller, form)
        self.helpers = {}
        self._collect()

    def _collect(self):
        by_name = {}
        for mn, t in self.trees.items():
            for s in t.body:
                if isinstance(s, ast.FunctionDef):
                    by_name.setdefault(s.name, []).append((mn, None, s))
                elif isinstance(s, ast.ClassDef):
                    for m in s.body:
                        if isinstance(m, ast.FunctionDef):
                            by_name.setdefault(m.name, []).append((mn, s, m))
        # class hierarchy by base-class name (package-wide)
        bases = {}
        for mn, t in self.trees.items():
            for s in t.body:
                if isinstance(s, ast.ClassDef):
                    bases.setdefault(s.name, set()).update(
                        b.id if isinstance(b, ast.Name) else b.attr for b in s.bases if isinstance(b, (ast.Name, ast.Attribute)))

        def ancestors(c, seen=None):
            seen = seen if seen is not None else set()
            for b in bases.get(c, ()):
                if b not in seen:
                    seen.add(b)
                    ancestors(b, seen)
            return seen
        self.helpers = {}
        for name, ds in by_name.items():
            if not name.startswith('_') or name.startswith('__') or name in self.pinned:
                continue
            for mn, cls, fn in ds:
                others = [d for d in ds if d[2] is not fn]
                if cls is None:
                    if any(o[0] == mn and o[1] is None for o in others):
                        continue
                else:
                    mine = ancestors(cls.name) | {cls.name}
                    if any(o[1] is not None and (o[1].name in mine or cls.name in ancestors(o[1].name)) for o in others):
                        continue      # overridden / overriding: dynamic dispatch decides
                h = Helper(mn, cls, fn)
                if h.ok:
                    self.helpers[(mn, cls.name if cls is not None else None, name)] = h

    # ------------------------------------------------------------------ matching a call
    def _match(self, call, mn, cls):
        if not isinstance(call, ast.Call):
            return None
        f = call.func
        h = None
        if isinstance(f, ast.Attribute) and isinstance(f.value, ast.Name) and cls is not None and (mn, cls.name, f.attr) in self.helpers:
            h = self.helpers[(mn, cls.name, f.attr)]
            if f.value.id != 'self' and not (h.static and f.value.id == cls.name):
                return None
        elif isinstance(f, ast.Name) and (mn, None, f.id) in self.helpers:
            h = self.helpers[(mn, None, f.id)]
        if h is None:
            return None
        if any(isinstance(a, ast.Starred) for a in call.args) or any(k.arg is None for k in call.keywords):
            return None
        if len(call.args) > len(h.params):
            return None
        binding = dict(zip(h.params, call.args))
        for k in call.keywords:
            if k.arg not in h.params or k.arg in binding:
                return None
            binding[k.arg] = k.value
        for p in h.params:
            if p not in binding:
                if p not in h.defaults:
                    return None
                binding[p] = h.defaults[p]
        return h, binding

    def _fresh(self, name):
        self.counter += 1
        return '%s__i%d' % (name, self.counter)

    # ------------------------------------------------------------------ statement-level inlining
    def _inline_stmt(self, stmt, h, binding, form, caller_fn, enclosing_trys):
        """returns list of statements replacing stmt, or None"""
        body = h.body
        if form == 'expr':
            if any(r is not body[-1] for r in h.value_returns) or any(r is not body[-1] for r in h.returns):
                return None
        elif form == 'assign':
            if not h.last_is_return or len(h.returns) != 1 or body[-1].value is None:
                return None
        elif form != 'return':
            return None
        mentions = set()
        for n in ast.walk(caller_fn):
            if isinstance(n, ast.Name):
                mentions.add(n.id)
            elif isinstance(n, ast.arg):
                mentions.add(n.arg)
            elif isinstance(n, ast.ExceptHandler) and n.name:
                mentions.add(n.name)
        in_stmt = {n.id for n in ast.walk(stmt) if isinstance(n, ast.Name)}
        other_mentions = set()
        for n in ast.walk(caller_fn):
            if n is stmt:
                continue
        # names mentioned in the caller outside this statement
        class Skip(ast.NodeVisitor):
            def generic_visit(self_, n):
                if n is stmt:
                    return
                if isinstance(n, ast.Name):
                    other_mentions.add(n.id)
                elif isinstance(n, ast.arg):
                    other_mentions.add(n.arg)
                elif isinstance(n, ast.ExceptHandler) and n.name:
                    other_mentions.add(n.name)
                ast.NodeVisitor.generic_visit(self_, n)
        Skip().visit(caller_fn)
        # returned-into-same-name exemption
        keep_same = set()
        if form == 'assign':
            tgt = stmt.targets[0]
            rv = body[-1].value
            pairs = []
            if isinstance(tgt, ast.Name) and isinstance(rv, ast.Name):
                pairs = [(tgt.id, rv.id)]
            elif isinstance(tgt, ast.Tuple) and isinstance(rv, ast.Tuple) and len(tgt.elts) == len(rv.elts) and \
                    all(isinstance(x, ast.Name) for x in tgt.elts + rv.elts):
                pairs = [(a.id, b.id) for a, b in zip(tgt.elts, rv.elts)]
            handler_reads = set()
            for t in enclosing_trys:
                for part in list(t.handlers) + list(t.finalbody):
                    for n in ast.walk(part):
                        if isinstance(n, ast.Name) and isinstance(n.ctx, ast.Load):
                            handler_reads.add(n.id)
            if pairs and all(a == b for a, b in pairs):
                keep_same = {a for a, b in pairs if a not in handler_reads and a not in h.params}
        mapping = {}
        pre = []
        locals_ = list(h.params) + sorted(h.stored - set(h.params))
        for L in locals_:
            if L in h.params:
                arg = binding[L]
                if isinstance(arg, ast.Name) and arg.id == L and L not in h.stored:
                    continue
                new = self._fresh(L)
                mapping[L] = new
                pre.append(ast.copy_location(ast.Assign(targets=[ast.Name(id=new, ctx=ast.Store())], value=copy.deepcopy(arg)), stmt))
            else:
                if L in keep_same or (L not in other_mentions and L not in in_stmt):
                    continue
                mapping[L] = self._fresh(L)
        new_body = [_Rename(mapping).visit(copy.deepcopy(s)) for s in body]
        out = list(pre)
        if form == 'return':
            out.extend(new_body)
            if not _terminates(new_body):
                out.append(ast.copy_location(ast.Return(value=ast.Constant(value=None)), stmt))
        elif form == 'assign':
            out.extend(new_body[:-1])
            rv = new_body[-1].value
            tgt = stmt.targets[0]
            trivial = ast.dump(ast.parse(ast.unparse(tgt)).body[0].value) == ast.dump(ast.parse(ast.unparse(rv)).body[0].value) \
                if not isinstance(rv, ast.Constant) else False
            if not trivial:
                out.append(ast.copy_location(ast.Assign(targets=[copy.deepcopy(t) for t in stmt.targets], value=rv), stmt))
        else:
            if new_body and isinstance(new_body[-1], ast.Return):
                last = new_body.pop()
                out.extend(new_body)
                if last.value is not None and any(isinstance(n, (ast.Call, ast.Subscript, ast.Attribute, ast.BinOp, ast.Compare)) for n in ast.walk(last.value)):
                    out.append(ast.copy_location(ast.Expr(value=last.value), last))
            else:
                out.extend(new_body)
        if not out:
            out = [ast.copy_location(ast.Pass(), stmt)]
        for s in out:
            ast.fix_missing_locations(s)
        return out

    # ------------------------------------------------------------------ expression-level inlining
    def _inline_exprs(self, node, mn, cls, caller_name):
        norm = self

        class T(ast.NodeTransformer):
            def visit_FunctionDef(self_, n):
                return n       # nested defs are handled as their own bodies

            visit_Lambda = visit_FunctionDef

            def visit_Call(self_, c):
                self_.generic_visit(c)
                m = norm._match(c, mn, cls)
                if m is None:
                    return c
                h, binding = m
                if not h.single_expr:
                    return c
                if not all(isinstance(a, (ast.Name, ast.Constant)) for a in binding.values()):
                    return c
                # comprehension variables inside the helper expression must not capture argument names
                inner = {n.id for n in ast.walk(h.body[0].value) if isinstance(n, ast.Name) and isinstance(n.ctx, ast.Store)}
                if inner & {a.id for a in binding.values() if isinstance(a, ast.Name)}:
                    return c
                e = _Rename({}, exprs=binding).visit(copy.deepcopy(h.body[0].value))
                norm.inlined.append((h.fn.name, caller_name, 'expression'))
                norm.changed = True
                return ast.copy_location(e, c)
        return T().visit(node)

    # ------------------------------------------------------------------ driver
    def _do_body(self, stmts, mn, cls, caller_fn, trys):
        out = []
        for s in stmts:
            rep = None
            form = None
            call = None
            if isinstance(s, ast.Expr) and isinstance(s.value, ast.Call):
                form, call = 'expr', s.value
            elif isinstance(s, ast.Assign) and len(s.targets) == 1 and isinstance(s.value, ast.Call):
                form, call = 'assign', s.value
            elif isinstance(s, ast.Return) and isinstance(s.value, ast.Call):
                form, call = 'return', s.value
            if call is not None:
                m = self._match(call, mn, cls)
                if m is not None and caller_fn is not m[0].fn:
                    h, binding = m
                    # arguments themselves must not contain helper calls needing statement inlining: fine, they are kept as expressions
                    rep = self._inline_stmt(s, h, binding, form, caller_fn, trys)
                    if rep is not None:
                        self.inlined.append((h.fn.name, caller_fn.name, form))
                        self.changed = True
            if rep is not None:
                out.extend(rep)
                continue
            # recurse into blocks
            if isinstance(s, (ast.FunctionDef, ast.AsyncFunctionDef)):
                s.body = self._do_body(s.body, mn, cls, s if caller_fn is None else caller_fn, [])
                out.append(s)
                continue
            if isinstance(s, ast.ClassDef):
                out.append(s)
                continue
            for fld in ('body', 'orelse', 'finalbody'):
                b = getattr(s, fld, None)
                if isinstance(b, list) and b and isinstance(b[0], ast.stmt):
                    setattr(s, fld, self._do_body(b, mn, cls, caller_fn, trys + ([s] if isinstance(s, ast.Try) and fld == 'body' else [])))
            if isinstance(s, ast.Try):
                for hd in s.handlers:
                    hd.body = self._do_body(hd.body, mn, cls, caller_fn, trys)
            # expression-level helpers in the statement's own expressions (not in nested blocks: already visited)
            for fld, val in ast.iter_fields(s):
                if fld in ('body', 'orelse', 'finalbody', 'handlers'):
                    continue
                if isinstance(val, ast.AST):
                    setattr(s, fld, self._inline_exprs(val, mn, cls, caller_fn.name if caller_fn is not None else '<module>'))
                elif isinstance(val, list):
                    setattr(s, fld, [self._inline_exprs(v, mn, cls, caller_fn.name if caller_fn is not None else '<module>')
                                     if isinstance(v, ast.AST) else v for v in val])
            out.append(s)
        return out

    def run(self):
        if not self.helpers:
            return self
        for _ in range(6):
            self.changed = False
            for mn, t in self.trees.items():
                for s in t.body:
                    if isinstance(s, ast.FunctionDef):
                        s.body = self._do_body(s.body, mn, None, s, [])
                    elif isinstance(s, ast.ClassDef):
                        for m in s.body:
                            if isinstance(m, ast.FunctionDef):
                                m.body = self._do_body(m.body, mn, s, m, [])
            if not self.changed:
                break
            self._collect_refresh()
        self._drop_unused()
        for t in self.trees.values():
            ast.fix_missing_locations(t)
        return self

    def _collect_refresh(self):
        # helper bodies may themselves have changed (nested helpers inlined): recompute their summaries
        for key, h in list(self.helpers.items()):
            nh = Helper(h.module, h.cls, h.fn)
            if nh.ok:
                self.helpers[key] = nh
            else:
                del self.helpers[key]

    def _drop_unused(self):
        used = set()
        for t in self.trees.values():
            for n in ast.walk(t):
                if isinstance(n, ast.Attribute):
                    used.add(n.attr)
                elif isinstance(n, ast.Name):
                    used.add(n.id)
                elif isinstance(n, ast.Constant) and isinstance(n.value, str):
                    used.add(n.value)
        self.removed = []
        inl = {x[0] for x in self.inlined}
        for (mn_, cn_, name), h in self.helpers.items():
            if name in used or name not in inl:
                continue
            owner = h.cls.body if h.cls is not None else self.trees[h.module].body
            if h.fn in owner:
                owner.remove(h.fn)
                if not owner:
                    owner.append(ast.Pass())
                self.removed.append(name)


def normalise(trees):
    return Normaliser(trees, pinned_names()).run()
