"""Source normalisation applied to the parsed package before any rule runs.

Private helpers that did not exist on the pinned tree (`pinned_helpers.json`: every function name of the package at the
pinned commit plus the nine fix commits) are *inlined back* into their callers when that can be done exactly at the
syntax-tree level.  Purpose: a behaviour-preserving "extract method" / "introduce helper" refactoring must not change
any verdict, and a behaviour-changing edit hidden behind a new helper is analysed as if it had been written in place.
Helpers that existed on the pinned tree are never touched (the rules know them by role); helpers whose shape does not
allow exact inlining are left as calls (the CFG-based analyses inline them on their own, the syntactic rules treat them
as opaque callees).

Exactness conditions (checked per call site, otherwise the site is left alone):
  * the callee is a private function with one definition the call can reach: `self._h(...)` / `Cls._h(...)` inside the
    defining class (and not overridden in a related class), or `_h(...)` in the defining module; not a generator, not
    decorated (staticmethod allowed), no global / nonlocal / walrus, not recursive, `*args[, **kwargs]` only as the last parameters,
    unsupplied parameters have constant defaults; nested defs / lambdas only if they do not rebind a renamed name;
  * statement forms `self._h(..)`, `t = self._h(..)`, `return self._h(..)`; a call nested in the expression of a simple
    statement is first hoisted into `tmp = self._h(..)` when everything evaluated before it is a plain name / constant /
    attribute load (so the order of effects is unchanged);
  * `return`s of the callee are removed structurally (continuation passed into `if` branches, `try ... else`, tail of
    `with`); a `return` inside a loop, a `finally`, or a non-tail `with` / `try` makes the site non-inlinable;
  * expression form (comprehensions, lambdas, loop tests): the callee is a single `return e` (after forwarding of
    single-use locals) and every argument is a name or a constant;
  * callee locals are renamed apart unless provably free of clashes; name / constant arguments of parameters that the
    callee never rebinds are substituted directly; a local that is returned into the identically named target keeps
    its name unless the caller reads it in a handler / finally enclosing the call.
Formatting a value (f-string field, str.format argument) is assumed not to change analysed state.

Canonical forms applied besides inlining (each exact under the condition stated at its definition): f-strings -> str.format; new
named literals -> the literal; delegating static methods folded back; bare return out of a final loop -> break; acquire / try /
finally-release -> with; `T = [.. if f(w := e)]` -> the loop; class-level `name = staticmethod(f)` -> the method; nested
`def f(): return e` used once -> lambda, applied in place when called right there (guard-clause bodies become one conditional
expression, and / or / not where only the truth is used); private named tuples that never escape -> one local per field; plain
loads forwarded into their single use (attribute reads taken as effect-free); `f(*t)` with t a tuple display -> f(a, b);
`getattr(x, 'n')` -> x.n; lambda locals applied at their calls; `a, b = x, y` split (also conditional / attribute targets);
`for .. break .. else: <exit>` + terminating tail -> early exits; `if c: T = a else: T = b` -> conditional expression,
`while True: if c: break` -> `while not c` (also with the test in an explaining variable); `f(a) if c else g(a)` -> `(f if c else g)(a)`;
`a, b = _NT(f1=x, f2=y)` of a private named tuple -> `a, b = x, y`; `x = L[k]` right after `L = [a, ..] + rest` -> `x = a`;
`b = e; ..; a = b` -> written as `a` from the start; `L = []; for x in IT: L.append(E)` -> comprehension, index-cursor `while i < len(S)`
-> `for`.  Helpers taking `*args, **kwargs` that they forward are inlined with the call's own arguments spread back; a method of the
caller's object handed to such a helper and only called there is looked up in place; a helper pulled up into a base class of the
package is inlined into the subclasses (one definition in the package).  Inlining is repeated once after the canonical forms (a call
may only then have become visible).  Last step: role outlining (outline.py).
"""
import ast
import copy
import re
import json
import os

HERE = os.path.dirname(os.path.abspath(__file__))
_FORBIDDEN = (ast.Yield, ast.YieldFrom, ast.Await, ast.AsyncFunctionDef, ast.Global, ast.Nonlocal, ast.ClassDef, ast.NamedExpr)
_NESTED = (ast.FunctionDef, ast.Lambda)


class Unstructurable(Exception):
    pass


def pinned_names():
    with open(os.path.join(HERE, 'pinned_helpers.json')) as f:
        return set(json.load(f)['names'])


def pinned_constants():
    with open(os.path.join(HERE, 'pinned_helpers.json')) as f:
        return set(json.load(f).get('constants', []))


def pinned_signatures():
    with open(os.path.join(HERE, 'pinned_helpers.json')) as f:
        return json.load(f).get('signatures', {})


def _docless(body):
    if body and isinstance(body[0], ast.Expr) and isinstance(body[0].value, ast.Constant) and isinstance(body[0].value.value, str):
        return body[1:]
    return body


def _walk_own(node):
    """walk without entering nested function bodies (their returns / names are their own)"""
    stack = [node]
    while stack:
        n = stack.pop()
        yield n
        for ch in ast.iter_child_nodes(n):
            if isinstance(ch, _NESTED):
                yield ch          # the def itself is visited, not its inside
                continue
            stack.append(ch)


def _has_return(s):
    if isinstance(s, _NESTED):
        return False
    return any(isinstance(n, ast.Return) for n in _walk_own(s))


def _terminates(stmts):
    """every path through stmts ends in return / raise"""
    if not stmts:
        return False
    s = stmts[-1]
    if isinstance(s, (ast.Return, ast.Raise)):
        return True
    if isinstance(s, ast.If):
        return _terminates(s.body) and _terminates(s.orelse)
    if isinstance(s, ast.Try):
        if s.finalbody and _terminates(s.finalbody):
            return True
        return (_terminates(s.body) or (bool(s.orelse) and _terminates(s.orelse))) and all(_terminates(h.body) for h in s.handlers)
    if isinstance(s, ast.With):
        return _terminates(s.body)
    return False


def _pure(e):
    """evaluation has no effect on analysed state and cannot fail in a way the caller distinguishes"""
    return e is None or all(isinstance(n, (ast.Name, ast.Constant, ast.Load, ast.Tuple, ast.List)) for n in ast.walk(e))


def _negate(test):
    if isinstance(test, ast.UnaryOp) and isinstance(test.op, ast.Not):
        return test.operand
    if isinstance(test, ast.Compare) and len(test.ops) == 1:
        inv = {ast.Is: ast.IsNot, ast.IsNot: ast.Is, ast.In: ast.NotIn, ast.NotIn: ast.In}
        for a, b in inv.items():
            if isinstance(test.ops[0], a):
                return ast.copy_location(ast.Compare(left=test.left, ops=[b()], comparators=test.comparators), test)
    return ast.copy_location(ast.UnaryOp(op=ast.Not(), operand=test), test)


def _bool_simplify(e):
    """a conditional expression with constant True / False arms as and / or / not - valid where only the truth of the value matters"""
    if isinstance(e, ast.IfExp):
        a, b = _bool_simplify(e.body), _bool_simplify(e.orelse)
        ca = a.value if isinstance(a, ast.Constant) and isinstance(a.value, bool) else None
        cb = b.value if isinstance(b, ast.Constant) and isinstance(b.value, bool) else None
        t = e.test
        if ca is False and cb is True:
            return _negate(t)
        if ca is True and cb is False:
            return t
        if ca is False:
            return ast.copy_location(ast.BoolOp(op=ast.And(), values=[_negate(t), b]), e)
        if cb is False:
            return ast.copy_location(ast.BoolOp(op=ast.And(), values=[t, a]), e)
        if ca is True:
            return ast.copy_location(ast.BoolOp(op=ast.Or(), values=[t, b]), e)
        if cb is True:
            return ast.copy_location(ast.BoolOp(op=ast.Or(), values=[_negate(t), a]), e)
        return ast.copy_location(ast.IfExp(test=t, body=a, orelse=b), e)
    return e


def _same(a, b):
    return ast.dump(a) == ast.dump(b)


def structure(stmts, cont, k):
    """stmts with every `return v` replaced by k(v) and the code that must not run after it moved out of its way;
    cont = (already structured) statements to run when stmts fall through"""
    if not stmts:
        return [copy.deepcopy(c) for c in cont]
    s, rest = stmts[0], stmts[1:]
    if isinstance(s, ast.Return):
        return k(s.value, s)
    if not _has_return(s):
        return [s] + structure(rest, cont, k)
    after = structure(rest, cont, k)
    if isinstance(s, ast.If):
        bt, et = _terminates(s.body), _terminates(s.orelse)
        if bt and et:
            body, orelse = structure(s.body, [], k), structure(s.orelse, [], k)
        elif bt:
            body, orelse = structure(s.body, [], k), structure(s.orelse, after, k)
        elif et:
            body, orelse = structure(s.body, after, k), structure(s.orelse, [], k)
        else:
            body, orelse = structure(s.body, after, k), structure(s.orelse, after, k)
        test = s.test
        if not body and orelse:
            test, body, orelse = _negate(test), orelse, []
        if not body:
            body = [ast.copy_location(ast.Pass(), s)]
        # both branches one assignment to the same target / one return: conditional expression
        if len(body) == 1 and len(orelse) == 1:
            a, b = body[0], orelse[0]
            if isinstance(a, ast.Assign) and isinstance(b, ast.Assign) and len(a.targets) == 1 and len(b.targets) == 1 and _same(a.targets[0], b.targets[0]):
                return [ast.copy_location(ast.Assign(targets=a.targets, value=ast.IfExp(test=test, body=a.value, orelse=b.value)), s)]
            if isinstance(a, ast.Return) and isinstance(b, ast.Return) and a.value is not None and b.value is not None:
                return [ast.copy_location(ast.Return(value=ast.IfExp(test=test, body=a.value, orelse=b.value)), s)]
        return [ast.copy_location(ast.If(test=test, body=body, orelse=orelse), s)]
    if isinstance(s, ast.With):
        if after and not _terminates(s.body):
            raise Unstructurable('return inside a non-tail with')
        if after:      # the with body always returns / raises: what follows is dead
            after = []
        return [ast.copy_location(ast.With(items=s.items, body=structure(s.body, [], k) or [ast.Pass()]), s)]
    if isinstance(s, ast.Try):
        if any(_has_return(x) for x in s.finalbody):
            raise Unstructurable('return in finally')
        in_body = any(_has_return(x) for x in s.body)
        in_else = any(_has_return(x) for x in s.orelse)
        in_handlers = [any(_has_return(x) for x in h.body) for h in s.handlers]
        if after and not s.finalbody and _terminates([s]):
            after = []         # every path through the try returns / raises: what would follow is dead
        if not after:
            return [ast.copy_location(ast.Try(body=structure(s.body, [], k) or [ast.Pass()],
                                              handlers=[ast.copy_location(ast.ExceptHandler(type=h.type, name=h.name, body=structure(h.body, [], k) or [ast.Pass()]), h)
                                                        for h in s.handlers],
                                              orelse=structure(s.orelse, [], k), finalbody=s.finalbody), s)]
        if in_body or s.finalbody:
            raise Unstructurable('return inside a non-tail try body')
        # returns only in handlers / else: the continuation moves into `else` when every handler terminates
        if not all(_terminates(h.body) for h in s.handlers):
            raise Unstructurable('a handler falls through next to one that returns')
        handlers = [ast.copy_location(ast.ExceptHandler(type=h.type, name=h.name, body=structure(h.body, [], k) or [ast.Pass()]), h) for h in s.handlers]
        orelse = structure(s.orelse, after, k)
        return [ast.copy_location(ast.Try(body=s.body, handlers=handlers, orelse=orelse, finalbody=[]), s)]
    raise Unstructurable('return inside %s' % type(s).__name__)


def _loop_idioms(body):
    """`for v in it: if c: return True` + `return False`  ->  `return any(c for v in it)` (and the all() dual)"""
    if len(body) >= 2 and isinstance(body[-2], ast.For) and isinstance(body[-1], ast.Return) and not body[-2].orelse and \
            isinstance(body[-1].value, ast.Constant) and isinstance(body[-1].value.value, bool) and len(body[-2].body) == 1:
        loop, tail = body[-2], body[-1].value.value
        s = loop.body[0]
        if isinstance(s, ast.If) and not s.orelse and len(s.body) == 1 and isinstance(s.body[0], ast.Return) and \
                isinstance(s.body[0].value, ast.Constant) and s.body[0].value.value is (not tail):
            cond = s.test if not tail else _negate(s.test)
            gen = ast.GeneratorExp(elt=cond, generators=[ast.comprehension(target=loop.target, iter=loop.iter, ifs=[], is_async=0)])
            call = ast.Call(func=ast.Name(id='any' if not tail else 'all', ctx=ast.Load()), args=[gen], keywords=[])
            ret = ast.copy_location(ast.Return(value=call), loop)
            ast.fix_missing_locations(ret)
            return body[:-2] + [ret]
    return body


class Helper(object):
    def __init__(self, module, cls, fn):
        self.module = module
        self.cls = cls
        self.fn = fn
        self.static = any(isinstance(d, ast.Name) and d.id == 'staticmethod' for d in fn.decorator_list)
        a = fn.args
        self.ok = not (a.kwonlyargs or getattr(a, 'posonlyargs', None))
        self.vararg = a.vararg.arg if a.vararg else None
        self.kwarg = a.kwarg.arg if a.kwarg else None
        if self.kwarg and not self.vararg:
            self.ok = False          # (only the forwarding form `*args, **kwargs` is handled)
        if any(not (isinstance(d, ast.Name) and d.id == 'staticmethod') for d in fn.decorator_list):
            self.ok = False
        body = _loop_idioms(_docless(fn.body))
        self.body = body
        if any(isinstance(n, _FORBIDDEN) for s in body for n in ast.walk(s)):
            self.ok = False
        params = [x.arg for x in a.args]
        if cls is not None and not self.static:
            if not params or params[0] != 'self':
                self.ok = False
            params = params[1:]
        self.params = params + ([self.vararg] if self.vararg else []) + ([self.kwarg] if self.kwarg else [])
        nd = len(a.defaults)
        self.defaults = {}
        allp = [x.arg for x in a.args]
        for p, d in zip(allp[len(allp) - nd:], a.defaults):
            self.defaults[p] = d
            if not isinstance(d, ast.Constant):
                self.ok = False
        for n in ast.walk(fn):
            if isinstance(n, ast.Call) and ((isinstance(n.func, ast.Attribute) and n.func.attr == fn.name) or
                                            (isinstance(n.func, ast.Name) and n.func.id == fn.name)):
                self.ok = False
        self.stored = set()
        for s in body:
            for n in _walk_own(s):
                if isinstance(n, ast.Name) and isinstance(n.ctx, (ast.Store, ast.Del)):
                    self.stored.add(n.id)
                elif isinstance(n, ast.ExceptHandler) and n.name:
                    self.stored.add(n.name)
                elif isinstance(n, ast.FunctionDef):
                    self.stored.add(n.name)
        # names bound inside nested defs / lambdas (their parameters and own locals)
        self.nested = [n for s in body for n in ast.walk(s) if isinstance(n, _NESTED)]
        self.nested_bound = set()
        self.nested_free = set()
        for nd_ in self.nested:
            for x in ast.walk(nd_):
                if isinstance(x, ast.arg):
                    self.nested_bound.add(x.arg)
                elif isinstance(x, ast.Name):
                    (self.nested_bound if isinstance(x.ctx, ast.Store) else self.nested_free).add(x.id)
        self.single_expr = None
        self._single_expression()

    def _single_expression(self):
        """`return e`, possibly after `x = e1` definitions each used exactly once in what follows, with nothing impure
        evaluated between the definition and the use"""
        body = list(self.body)
        if not body or not isinstance(body[-1], ast.Return) or body[-1].value is None or self.nested:
            return
        expr = copy.deepcopy(body[-1].value)
        for s in reversed(body[:-1]):
            if not (isinstance(s, ast.Assign) and len(s.targets) == 1 and isinstance(s.targets[0], ast.Name)):
                return
            name = s.targets[0].id
            uses = [n for n in ast.walk(expr) if isinstance(n, ast.Name) and n.id == name]
            if len(uses) != 1 or name in self.params:
                return
            # everything evaluated before the use must be pure: the use must be the first impure-relevant position
            if not _first_evaluated(expr, uses[0]):
                return
            val = copy.deepcopy(s.value)

            class R(ast.NodeTransformer):
                def visit_Name(self_, n):
                    return val if n is uses[0] else n
            expr = R().visit(expr)
        self.single_expr = expr


def _first_evaluated(expr, target):
    """is `target` evaluated before any call / subscript / operator of expr (left-to-right order), ignoring pure loads
    and value formatting"""
    order = []

    def ev(n):
        if n is target:
            order.append('T')
            return
        if isinstance(n, (ast.Name, ast.Constant, ast.operator, ast.unaryop, ast.cmpop, ast.boolop, ast.expr_context)):
            return
        if isinstance(n, ast.JoinedStr):
            for v in n.values:
                ev(v)
            return
        if isinstance(n, ast.FormattedValue):
            ev(n.value)
            return
        if isinstance(n, ast.Attribute):
            ev(n.value)
            if not (isinstance(n.value, (ast.Name, ast.Constant))):
                order.append('x')
            return
        if isinstance(n, ast.Call):
            ev(n.func)
            for a in n.args:
                ev(a)
            for kw in n.keywords:
                ev(kw.value)
            order.append('x')
            return
        if isinstance(n, (ast.Tuple, ast.List)):
            for e in n.elts:
                ev(e)
            return
        if isinstance(n, (ast.ListComp, ast.GeneratorExp, ast.SetComp, ast.DictComp, ast.Lambda, ast.IfExp, ast.BoolOp)):
            if any(x is target for x in ast.walk(n)):
                order.append('x')       # conditional / repeated evaluation: not a plain first use
                order.append('T')
            else:
                order.append('x')
            return
        for ch in ast.iter_child_nodes(n):
            ev(ch)
        order.append('x')
    ev(expr)
    return 'T' in order and 'x' not in order[:order.index('T')]


class _Rename(ast.NodeTransformer):
    def __init__(self, mapping, exprs=None):
        self.mapping = mapping
        self.exprs = exprs or {}

    def visit_Name(self, n):
        if n.id in self.exprs and isinstance(n.ctx, ast.Load):
            return copy.deepcopy(self.exprs[n.id])
        if n.id in self.mapping:
            return ast.copy_location(ast.Name(id=self.mapping[n.id], ctx=n.ctx), n)
        return n

    def visit_ExceptHandler(self, n):
        self.generic_visit(n)
        if n.name and n.name in self.mapping:
            n.name = self.mapping[n.name]
        return n

    def visit_FunctionDef(self, n):
        self.generic_visit(n)
        if n.name in self.mapping:
            n.name = self.mapping[n.name]
        return n


class Normaliser(object):
    def __init__(self, trees, pinned, inline_only=False):
        """trees: {module_name: ast.Module}; inline_only: no canonical forms, no outlining (used to *generate* inline-method variants)"""
        self.trees = trees
        self.pinned = pinned
        self.inline_only = inline_only
        self.counter = 0
        self.inlined = []      # (helper name, caller, form)
        self.skipped = []      # (helper name, caller, reason)
        self.helpers = {}
        if not inline_only:
            self._fstrings_to_format()
            self._inline_new_constants()
            self._fold_delegates()
            self._class_aliases_to_methods()
            self._keywords_to_positional()
            self._tail_loop_returns()
            self._acquire_release_to_with()
            self._walrus_comprehensions_to_loops()
        self._collect()

    def _tail_loop_returns(self):
        """a new function that ends in a loop and leaves it by a bare `return`: the return is a `break` (nothing follows the loop, the
        loop has no else clause), which makes the function an ordinary statement sequence again"""
        self.tail_returns = 0
        for t in self.trees.values():
            for fn in [n for n in ast.walk(t) if isinstance(n, ast.FunctionDef)]:
                if fn.name in self.pinned or not fn.body or not isinstance(fn.body[-1], (ast.While, ast.For)) or fn.body[-1].orelse:
                    continue
                loop = fn.body[-1]
                if any(isinstance(n, (ast.Yield, ast.YieldFrom)) for n in _walk_own(fn)):
                    continue
                rets = [n for s_ in fn.body for n in _walk_own(s_) if isinstance(n, ast.Return)]
                if not rets or any(r.value is not None and not (isinstance(r.value, ast.Constant) and r.value.value is None) for r in rets):
                    continue
                inner = {id(n) for s_ in loop.body for l in _walk_own(s_) if isinstance(l, (ast.While, ast.For)) for n in ast.walk(l)}
                inner |= {id(n) for s_ in loop.body for l in ([s_] + list(_walk_own(s_))) if isinstance(l, (ast.While, ast.For)) for n in ast.walk(l)}
                inloop = {id(n) for s_ in loop.body for n in ast.walk(s_)}
                if any(id(r) not in inloop or id(r) in inner for r in rets):
                    continue

                class R(ast.NodeTransformer):
                    def visit_FunctionDef(self_, n):
                        return n

                    def visit_Lambda(self_, n):
                        return n

                    def visit_Return(self_, n):
                        return ast.copy_location(ast.Break(), n)
                loop.body = [R().visit(s_) for s_ in loop.body]
                self.tail_returns += 1
                self.inlined.append(('tail-loop return', fn.name, 'to-break'))

    def _walrus_comprehensions_to_loops(self):
        """`T = [elt for x in it if COND]` whose COND binds a name with `:=` is the loop `T = []; for x in it: w = E; if COND': T.append(elt)`
        (the walrus target is a variable of the enclosing function in both forms; the hoisted binding must be the first thing COND evaluates;
        the loop variable must not be used elsewhere in the function, because the loop form lets it outlive the loop)"""
        norm_ = self
        for t in self.trees.values():
            for fn in [n for n in ast.walk(t) if isinstance(n, ast.FunctionDef)]:
                if not any(isinstance(x, ast.NamedExpr) for x in ast.walk(fn)):
                    continue

                def rewrite(stmts, fn=fn):
                    out = []
                    for s_ in stmts:
                        for fld in ('body', 'orelse', 'finalbody'):
                            b = getattr(s_, fld, None)
                            if isinstance(b, list) and b and isinstance(b[0], ast.stmt) and not isinstance(s_, (ast.FunctionDef, ast.ClassDef)):
                                setattr(s_, fld, rewrite(b))
                        for h in getattr(s_, 'handlers', []) or []:
                            h.body = rewrite(h.body)
                        done = False
                        if isinstance(s_, ast.Assign) and len(s_.targets) == 1 and isinstance(s_.targets[0], ast.Name) and isinstance(s_.value, ast.ListComp) and \
                                len(s_.value.generators) == 1 and not s_.value.generators[0].is_async and isinstance(s_.value.generators[0].target, ast.Name):
                            g = s_.value.generators[0]
                            wal = [x for c in g.ifs for x in ast.walk(c) if isinstance(x, ast.NamedExpr)]
                            elt_w = [x for x in ast.walk(s_.value.elt) if isinstance(x, ast.NamedExpr)]
                            tname, xname = s_.targets[0].id, g.target.id
                            if len(wal) == 1 and not elt_w and len(g.ifs) == 1 and isinstance(wal[0].target, ast.Name) and _first_evaluated(g.ifs[0], wal[0]):
                                wname = wal[0].target.id
                                others = [x for x in ast.walk(fn) if isinstance(x, ast.Name) and x.id == xname and
                                          not any(x is y for y in ast.walk(s_))]
                                reads_t = any(isinstance(x, ast.Name) and x.id == tname for x in ast.walk(s_.value))
                                if not others and not reads_t:
                                    w = wal[0]

                                    class R(ast.NodeTransformer):
                                        def visit_NamedExpr(self_, n):
                                            return ast.copy_location(ast.Name(id=wname, ctx=ast.Load()), n) if n is w else n
                                    cond = R().visit(g.ifs[0])
                                    loop = ast.For(target=ast.Name(id=xname, ctx=ast.Store()), iter=g.iter, orelse=[], type_comment=None, body=[
                                        ast.Assign(targets=[ast.Name(id=wname, ctx=ast.Store())], value=w.value),
                                        ast.If(test=cond, orelse=[], body=[ast.Expr(value=ast.Call(
                                            func=ast.Attribute(value=ast.Name(id=tname, ctx=ast.Load()), attr='append', ctx=ast.Load()),
                                            args=[s_.value.elt], keywords=[]))])])
                                    init = ast.Assign(targets=[ast.Name(id=tname, ctx=ast.Store())], value=ast.List(elts=[], ctx=ast.Load()))
                                    for n_ in (init, loop):
                                        ast.copy_location(n_, s_)
                                        ast.fix_missing_locations(n_)
                                    out.extend([init, loop])
                                    norm_.inlined.append(('list comprehension with :=', fn.name, 'to-loop'))
                                    done = True
                        if not done:
                            out.append(s_)
                    return out
                fn.body = rewrite(fn.body)

    def _keywords_to_positional(self):
        """`self._m(a, y=b)` -> `self._m(a, b)` for calls of package functions whose name has one definition with a plain parameter list, when
        the keywords name the next parameters in their order (arguments are evaluated in the written order either way)"""
        defs = {}
        for t in self.trees.values():
            for n in ast.walk(t):
                if isinstance(n, ast.ClassDef):
                    for m in n.body:
                        if isinstance(m, ast.FunctionDef):
                            defs.setdefault(m.name, []).append((n, m))
            for s_ in t.body:
                if isinstance(s_, ast.FunctionDef):
                    defs.setdefault(s_.name, []).append((None, s_))
        sigs = {}
        for nm, ds in defs.items():
            if len(ds) != 1 or nm.startswith('__'):
                continue
            c, m = ds[0]
            a = m.args
            if a.vararg or a.kwarg or a.posonlyargs or a.kwonlyargs:
                continue
            static = any(isinstance(d, ast.Name) and d.id == 'staticmethod' for d in m.decorator_list)
            if any(not (isinstance(d, ast.Name) and d.id == 'staticmethod') for d in m.decorator_list):
                continue
            params = [x.arg for x in a.args]
            sigs[nm] = (c, params[(0 if (c is None or static) else 1):])
        norm_ = self

        class T(ast.NodeTransformer):
            def visit_Call(self_, c):
                self_.generic_visit(c)
                f = c.func
                nm = f.attr if isinstance(f, ast.Attribute) and isinstance(f.value, ast.Name) else f.id if isinstance(f, ast.Name) else None
                if nm not in sigs or not c.keywords or any(k.arg is None for k in c.keywords) or any(isinstance(x, ast.Starred) for x in c.args):
                    return c
                cls_, params = sigs[nm]
                if isinstance(f, ast.Attribute) and not (cls_ is not None and (f.value.id == 'self' or f.value.id == cls_.name or f.value.id == 'cls')):
                    return c
                if isinstance(f, ast.Name) and cls_ is not None:
                    return c
                rest = params[len(c.args):]
                kws = [k.arg for k in c.keywords]
                if kws != rest[:len(kws)]:
                    return c
                c.args = list(c.args) + [k.value for k in c.keywords]
                c.keywords = []
                norm_.kw_count = getattr(norm_, 'kw_count', 0) + 1
                return c
        for t in self.trees.values():
            T().visit(t)
        if getattr(self, 'kw_count', 0):
            self.inlined.append(('keyword arguments', str(self.kw_count), 'to-positional'))

    def _class_aliases_to_methods(self):
        """`name = staticmethod(f)` in a class body, f a function of the same module: the class has that static method (a copy of f's
        definition stands where the alias stood)"""
        for t in self.trees.values():
            funcs = {s_.name: s_ for s_ in t.body if isinstance(s_, ast.FunctionDef)}
            for c in [s_ for s_ in t.body if isinstance(s_, ast.ClassDef)]:
                for i, s_ in enumerate(list(c.body)):
                    if isinstance(s_, ast.Assign) and len(s_.targets) == 1 and isinstance(s_.targets[0], ast.Name) and isinstance(s_.value, ast.Call) and \
                            isinstance(s_.value.func, ast.Name) and s_.value.func.id == 'staticmethod' and len(s_.value.args) == 1 and \
                            isinstance(s_.value.args[0], ast.Name) and s_.value.args[0].id in funcs and not s_.value.keywords:
                        f = copy.deepcopy(funcs[s_.value.args[0].id])
                        if f.decorator_list:
                            continue
                        f.name = s_.targets[0].id
                        f.decorator_list = [ast.Name(id='staticmethod', ctx=ast.Load())]
                        c.body[c.body.index(s_)] = ast.copy_location(f, s_)
                        self.inlined.append((f.name, c.name, 'class alias of a module function'))

    def _acquire_release_to_with(self):
        """`L.acquire(); try: B finally: L.release()` is `with L: B` (the context manager protocol of locks); a local that only names the
        lock (`lock = self._lock`) is replaced by what it names"""
        def is_call(s_, attr):
            return isinstance(s_, ast.Expr) and isinstance(s_.value, ast.Call) and isinstance(s_.value.func, ast.Attribute) and \
                s_.value.func.attr == attr and not s_.value.args and not s_.value.keywords

        def rewrite(stmts, fn):
            out = []
            i = 0
            while i < len(stmts):
                s_ = stmts[i]
                nxt = stmts[i + 1] if i + 1 < len(stmts) else None
                if is_call(s_, 'acquire') and isinstance(nxt, ast.Try) and not nxt.handlers and not nxt.orelse and len(nxt.finalbody) == 1 and \
                        is_call(nxt.finalbody[0], 'release') and _same(s_.value.func.value, nxt.finalbody[0].value.func.value):
                    lock = s_.value.func.value
                    # alias defined by the statement before, used nowhere else
                    if isinstance(lock, ast.Name) and out and isinstance(out[-1], ast.Assign) and len(out[-1].targets) == 1 and \
                            isinstance(out[-1].targets[0], ast.Name) and out[-1].targets[0].id == lock.id and \
                            isinstance(out[-1].value, ast.Attribute) and \
                            sum(1 for n in ast.walk(fn) if isinstance(n, ast.Name) and n.id == lock.id) == 3:
                        lock = out.pop().value
                    out.append(ast.copy_location(ast.With(items=[ast.withitem(context_expr=lock, optional_vars=None)], body=rewrite(nxt.body, fn)), s_))
                    self.inlined.append(('acquire/try/finally release', fn.name, 'to-with'))
                    i += 2
                    continue
                for f in ('body', 'orelse', 'finalbody'):
                    if isinstance(getattr(s_, f, None), list) and not isinstance(s_, (ast.FunctionDef, ast.ClassDef)):
                        setattr(s_, f, rewrite(getattr(s_, f), fn))
                for h in getattr(s_, 'handlers', []) or []:
                    h.body = rewrite(h.body, fn)
                out.append(s_)
                i += 1
            return out
        for t in self.trees.values():
            for fn in [n for n in ast.walk(t) if isinstance(n, ast.FunctionDef)]:
                if any(is_call(s_, 'acquire') for s_ in ast.walk(fn)):
                    fn.body = rewrite(fn.body, fn)

    def _collect(self):
        by_name = {}
        for mn, t in self.trees.items():
            for s in t.body:
                if isinstance(s, ast.FunctionDef):
                    by_name.setdefault(s.name, []).append((mn, None, s))
                elif isinstance(s, ast.ClassDef):
                    for m in s.body:
                        if isinstance(m, ast.FunctionDef):
                            by_name.setdefault(m.name, []).append((mn, s, m))
        bases = {}
        for mn, t in self.trees.items():
            for s in t.body:
                if isinstance(s, ast.ClassDef):
                    bases.setdefault(s.name, set()).update(
                        b.id if isinstance(b, ast.Name) else b.attr for b in s.bases if isinstance(b, (ast.Name, ast.Attribute)))

        def ancestors(c, seen=None):
            seen = seen if seen is not None else set()
            for b in bases.get(c, ()):
                if b not in seen:
                    seen.add(b)
                    ancestors(b, seen)
            return seen
        # pinned functions that disappeared from a class / module: a new function there with the same parameters is its rename
        present = set()
        for name, ds in by_name.items():
            for mn, cls, fn in ds:
                present.add('%s::%s::%s' % (mn, cls.name if cls is not None else '', name))
        missing = {}
        for q, params in pinned_signatures().items():
            if q not in present:
                mn, cn, nm = q.split('::')
                missing.setdefault((mn, cn), []).append((nm, params))
        self.renamed = []
        self.helpers = {}
        for name, ds in by_name.items():
            if not name.startswith('_') or name.startswith('__') or name in self.pinned:
                continue
            for mn, cls, fn in ds:
                sig = [a.arg for a in fn.args.args]
                old = [nm for nm, params in missing.get((mn, cls.name if cls is not None else ''), []) if params == sig]
                if old:
                    self.renamed.append((name, old[0]))
                    continue
                others = [d for d in ds if d[2] is not fn]
                if cls is None:
                    if any(o[0] == mn and o[1] is None for o in others):
                        continue
                else:
                    mine = ancestors(cls.name) | {cls.name}
                    if any(o[1] is not None and (o[1].name in mine or cls.name in ancestors(o[1].name)) for o in others):
                        continue      # overridden / overriding: dynamic dispatch decides
                h = Helper(mn, cls, fn)
                if h.ok:
                    self.helpers[(mn, cls.name if cls is not None else None, name)] = h

    # ------------------------------------------------------------------ matching a call
    def _match(self, call, mn, cls):
        if not isinstance(call, ast.Call):
            return None
        f = call.func
        h = None
        if isinstance(f, ast.Attribute) and isinstance(f.value, ast.Name) and cls is not None and (mn, cls.name, f.attr) in self.helpers:
            h = self.helpers[(mn, cls.name, f.attr)]
            if f.value.id != 'self' and not (h.static and f.value.id == cls.name):
                return None
        elif isinstance(f, ast.Attribute) and isinstance(f.value, ast.Name) and f.value.id == 'self' and cls is not None and \
                not any(isinstance(m_, ast.FunctionDef) and m_.name == f.attr for m_ in cls.body):
            h = self._inherited_helper(mn, cls, f.attr)
        elif isinstance(f, ast.Name) and (mn, None, f.id) in self.helpers:
            h = self.helpers[(mn, None, f.id)]
        elif isinstance(f, ast.Name):
            h = self._imported_helper(mn, f.id)
        if h is None:
            return None
        if any(isinstance(a, ast.Starred) for a in call.args) or any(k.arg is None for k in call.keywords):
            return None
        extra_kw = []
        if getattr(h, 'vararg', None):
            fixed = h.params[:-1] if not getattr(h, 'kwarg', None) else h.params[:-2]
            if len(call.args) < len(fixed) or any(k.arg in (h.vararg, getattr(h, 'kwarg', None)) for k in call.keywords):
                return None
            binding = dict(zip(fixed, call.args))
            binding[h.vararg] = ast.copy_location(ast.Tuple(elts=list(call.args[len(fixed):]), ctx=ast.Load()), call)
            if getattr(h, 'kwarg', None):
                # keywords that name no parameter are collected, in the order written, by the ** parameter
                extra_kw = [k for k in call.keywords if k.arg not in fixed]
                binding[h.kwarg] = ast.copy_location(ast.Dict(keys=[ast.Constant(value=k.arg) for k in extra_kw], values=[k.value for k in extra_kw]), call)
        elif len(call.args) > len(h.params):
            return None
        else:
            binding = dict(zip(h.params, call.args))
        for k in call.keywords:
            if any(k is x for x in extra_kw):
                continue
            if k.arg not in h.params or k.arg in binding:
                return None
            binding[k.arg] = k.value
        for p in h.params:
            if p not in binding:
                if p not in h.defaults:
                    return None
                binding[p] = h.defaults[p]
        return h, binding

    def _module_bindings(self, mn):
        """name -> origin of the module-level bindings of module mn: ('import', module, name) / ('def', mn, name)"""
        memo = self.__dict__.setdefault('_mb_memo', {})
        if mn in memo:
            return memo[mn]
        out = {}
        t = self.trees.get(mn)
        for s_ in (t.body if t is not None else []):
            if isinstance(s_, ast.ImportFrom) and s_.module and not s_.level:
                for a in s_.names:
                    out[a.asname or a.name] = ('obj', s_.module, a.name)
            elif isinstance(s_, ast.Import):
                for a in s_.names:
                    out[(a.asname or a.name).split('.')[0]] = ('mod', (a.name if a.asname else a.name.split('.')[0]), None)
            elif isinstance(s_, (ast.FunctionDef, ast.ClassDef)):
                out[s_.name] = ('obj', mn, s_.name)
            elif isinstance(s_, ast.Assign):
                for t_ in s_.targets:
                    if isinstance(t_, ast.Name):
                        out[t_.id] = ('obj', mn, t_.id)
        memo[mn] = out
        return out

    def _imported_helper(self, mn, name):
        """a new module-level helper of another module of the package, imported by name: usable when every global name its body reads
        denotes the same object in the importing module (same import, or imported from the defining module)"""
        b = self._module_bindings(mn).get(name)
        if not b or b[0] != 'obj' or (b[1], None, b[2]) not in self.helpers or b[2] != name:
            return None
        h = self.helpers[(b[1], None, name)]
        import builtins as _bi
        local = set(h.params) | h.stored | h.nested_bound
        here, there = self._module_bindings(mn), self._module_bindings(b[1])
        for n in ast.walk(h.fn):
            if isinstance(n, ast.Name) and isinstance(n.ctx, ast.Load) and n.id not in local and not hasattr(_bi, n.id):
                if n.id not in there or here.get(n.id) != there[n.id]:
                    return None
        return h

    def _inherited_helper(self, mn, cls, name):
        """a new helper method pulled up into a base class of the package (possibly in another module): usable from a subclass when no
        class of the package defines a method of that name besides that base, the method is a plain instance method, and every global name
        its body reads denotes the same object in the calling module"""
        owners = [(m2, c2) for m2, t2 in self.trees.items() for c2 in t2.body if isinstance(c2, ast.ClassDef) and
                  any(isinstance(m_, ast.FunctionDef) and m_.name == name for m_ in c2.body)]
        if len(owners) != 1:
            return None
        m2, base = owners[0]
        # the base must be reachable from cls through base-class names of the package
        seen, todo, found = set(), [cls], False
        while todo:
            c_ = todo.pop()
            for b_ in c_.bases:
                bn = b_.id if isinstance(b_, ast.Name) else b_.attr if isinstance(b_, ast.Attribute) else None
                if bn == base.name:
                    found = True
                for t2 in self.trees.values():
                    for c2 in t2.body:
                        if isinstance(c2, ast.ClassDef) and c2.name == bn and bn not in seen:
                            seen.add(bn)
                            todo.append(c2)
        h = self.helpers.get((m2, base.name, name))
        if not found or h is None or h.static:
            return None
        import builtins as _bi
        local = set(h.params) | h.stored | h.nested_bound | {'self'}
        here, there = self._module_bindings(mn), self._module_bindings(m2)
        for n in ast.walk(h.fn):
            if isinstance(n, ast.Name) and isinstance(n.ctx, ast.Load) and n.id not in local and not hasattr(_bi, n.id):
                if n.id == base.name and here.get(n.id) is not None and here.get(n.id)[0] == 'obj' and here.get(n.id)[1:] == (m2, base.name):
                    continue        # the base class itself, imported by the calling module
                if n.id not in there or here.get(n.id) != there[n.id]:
                    return None
        return h

    def _fresh(self, name):
        self.counter += 1
        return '%s__i%d' % (name, self.counter)

    # ------------------------------------------------------------------ statement-level inlining
    def _inline_stmt(self, stmt, h, binding, form, caller_fn, enclosing_trys):
        """returns list of statements replacing stmt, or None"""
        body = h.body
        other_mentions = set()
        caller_stores = set()
        loads_after = set()        # caller locals read after the call statement (or anywhere, when the call sits in a loop)
        stores_after = set()       # caller locals (re)bound after the call statement may run again: closures must not capture them
        in_loop = any(isinstance(l, (ast.For, ast.While)) and any(x is stmt for x in ast.walk(l)) for l in ast.walk(caller_fn)) or \
            getattr(self, '_loop_depth', 0) > 0
        at = getattr(stmt, 'lineno', 0)
        if in_loop and h.nested and (h.nested_free & (h.stored | set(h.params))):
            # a function object made by the helper captures the helper's own variables: one fresh set per call. Written into a loop of the
            # caller the captured variables are the caller's, rebound by every iteration (late binding) - not the same program
            self.skipped.append((h.fn.name, caller_fn.name, 'closure over helper locals at a call site inside a loop'))
            return None

        class Skip(ast.NodeVisitor):
            def generic_visit(self_, n):
                if n is stmt:
                    return
                if isinstance(n, ast.Name):
                    other_mentions.add(n.id)
                    if isinstance(n.ctx, (ast.Store, ast.Del)):
                        caller_stores.add(n.id)
                        if in_loop or getattr(n, 'lineno', 0) >= at:
                            stores_after.add(n.id)
                    elif in_loop or getattr(n, 'lineno', 0) >= at:
                        loads_after.add(n.id)
                elif isinstance(n, ast.arg):
                    other_mentions.add(n.arg)
                elif isinstance(n, ast.ExceptHandler) and n.name:
                    other_mentions.add(n.name)
                    caller_stores.add(n.name)
                elif isinstance(n, ast.FunctionDef) and n is not caller_fn:
                    other_mentions.add(n.name)
                    caller_stores.add(n.name)
                ast.NodeVisitor.generic_visit(self_, n)
        Skip().visit(caller_fn)
        in_stmt = {n.id for n in ast.walk(stmt) if isinstance(n, ast.Name)}
        if form == 'assign':
            for t in ast.walk(stmt.targets[0]):
                if isinstance(t, ast.Name):
                    caller_stores.add(t.id)
        # returned-into-same-name exemption
        keep_same = set()
        last = body[-1] if body else None
        if form == 'assign' and isinstance(last, ast.Return) and last.value is not None and sum(1 for s in body for n in _walk_own(s) if isinstance(n, ast.Return)) == 1:
            tgt = stmt.targets[0]
            rv = last.value
            pairs = []
            if isinstance(tgt, ast.Name) and isinstance(rv, ast.Name):
                pairs = [(tgt.id, rv.id)]
            elif isinstance(tgt, ast.Tuple) and isinstance(rv, ast.Tuple) and len(tgt.elts) == len(rv.elts) and \
                    all(isinstance(x, ast.Name) for x in tgt.elts):
                # element-wise: a returned name that goes into the identically named target may keep its name
                pairs = [(a.id, b.id) for a, b in zip(tgt.elts, rv.elts) if isinstance(b, ast.Name) and a.id == b.id]
            handler_reads = set()
            for t in enclosing_trys:
                for part in list(t.handlers) + list(t.finalbody):
                    for n in ast.walk(part):
                        if isinstance(n, ast.Name) and isinstance(n.ctx, ast.Load):
                            handler_reads.add(n.id)
            if pairs and all(a == b for a, b in pairs):
                keep_same = {a for a, b in pairs if a not in handler_reads and a not in h.params}
        mapping = {}
        subst = {}
        pre = []
        locals_ = list(h.params) + sorted(h.stored - set(h.params))
        for L in locals_:
            if L in h.params:
                arg = binding[L]
                captured = L in h.nested_free
                if L in h.stored and L not in h.nested_bound and isinstance(arg, ast.Name) and arg.id == L and L not in loads_after and \
                        L not in stores_after and not enclosing_trys:
                    continue        # the callee rebinds its parameter, but the caller never looks at that name again: it may keep it
                if L not in h.stored and L not in h.nested_bound:
                    if isinstance(arg, ast.Name) and arg.id == L and not (captured and L in stores_after):
                        continue
                    if isinstance(arg, ast.Constant) or (isinstance(arg, ast.Name) and not (captured and arg.id in stores_after) and arg.id not in h.stored):
                        subst[L] = arg
                        continue
                    # a method of the caller's object handed over as a callable and only ever called: `self.m` is looked up where it is called
                    # (methods are class attributes: the look-up finds the same function whenever it is made)
                    if isinstance(arg, ast.Attribute) and isinstance(arg.value, ast.Name) and arg.value.id == 'self' and not captured and \
                            any(isinstance(c_, ast.ClassDef) and any(isinstance(m_, ast.FunctionDef) and m_.name == arg.attr for m_ in c_.body)
                                for t_ in self.trees.values() for c_ in t_.body) and \
                            not any(isinstance(x, ast.Attribute) and isinstance(x.ctx, ast.Store) and x.attr == arg.attr for t_ in self.trees.values() for x in ast.walk(t_)):
                        uses_ = [x for s_ in h.body for x in ast.walk(s_) if isinstance(x, ast.Name) and x.id == L]
                        callee_ = [c_.func for s_ in h.body for c_ in ast.walk(s_) if isinstance(c_, ast.Call) and isinstance(c_.func, ast.Name) and c_.func.id == L]
                        if uses_ and len(uses_) == len(callee_):
                            subst[L] = arg
                            continue
                new = self._fresh(L)
                mapping[L] = new
                pre.append(ast.copy_location(ast.Assign(targets=[ast.Name(id=new, ctx=ast.Store())], value=copy.deepcopy(arg)), stmt))
            else:
                if L in keep_same or (L not in other_mentions and L not in in_stmt):
                    continue
                mapping[L] = self._fresh(L)
        if (set(mapping) | set(subst)) & h.nested_bound:
            return None       # a nested def rebinds a name that has to be renamed
        # a substituted caller name must not be captured by the helper's own locals
        for L, a in subst.items():
            if isinstance(a, ast.Name) and a.id in (h.stored - set(mapping)) and a.id != L:
                return None
        new_body = [_Rename(mapping, exprs=subst).visit(copy.deepcopy(s)) for s in body]

        if form == 'expr':
            def k(v, at):
                return [] if _pure(v) else [ast.copy_location(ast.Expr(value=v), at)]
            cont = []
        elif form == 'assign':
            def k(v, at):
                return [ast.copy_location(ast.Assign(targets=[copy.deepcopy(t) for t in stmt.targets],
                                                     value=v if v is not None else ast.Constant(value=None)), at)]
            cont = k(None, stmt)
        else:
            def k(v, at):
                return [ast.copy_location(ast.Return(value=v), at)]
            cont = [] if _terminates(new_body) else k(ast.Constant(value=None), stmt)
        try:
            out = structure(new_body, cont, k)
        except Unstructurable as ex:
            self.skipped.append((h.fn.name, caller_fn.name, str(ex)))
            return None
        # `a, b = (x, y)` -> `a = x; b = y` when no target is read by a later element
        flat = []
        for s_ in out:
            if isinstance(s_, ast.Assign) and len(s_.targets) == 1 and isinstance(s_.targets[0], ast.Tuple) and isinstance(s_.value, ast.Tuple) and \
                    len(s_.targets[0].elts) == len(s_.value.elts) and all(isinstance(t, ast.Name) for t in s_.targets[0].elts):
                tn = [t.id for t in s_.targets[0].elts]
                eff = [t_ for t_, v_ in zip(tn, s_.value.elts) if not (isinstance(v_, ast.Name) and v_.id == t_)]     # `x = x` writes nothing
                safe = all(not ({x.id for x in ast.walk(v) if isinstance(x, ast.Name)} & (set(tn[:i]) & set(eff)))
                           for i, v in enumerate(s_.value.elts))
                if safe:
                    for t, v in zip(s_.targets[0].elts, s_.value.elts):
                        flat.append(ast.copy_location(ast.Assign(targets=[t], value=v), s_))
                    continue
            flat.append(s_)
        out = flat
        # drop `x = x`
        out = [s for s in out if not (isinstance(s, ast.Assign) and len(s.targets) == 1 and _same_load(s.targets[0], s.value))]
        out = pre + out
        if not out:
            out = [ast.copy_location(ast.Pass(), stmt)]
        for s in out:
            ast.fix_missing_locations(s)
        return out

    # ------------------------------------------------------------------ expression-level inlining
    def _inline_exprs(self, node, mn, cls, caller_name):
        norm = self

        class T(ast.NodeTransformer):
            def visit_FunctionDef(self_, n):
                return n       # nested defs are handled as their own bodies

            def visit_Call(self_, c):
                self_.generic_visit(c)
                m = norm._match(c, mn, cls)
                if m is None:
                    return c
                h, binding = m
                if h.single_expr is None:
                    return c
                if not all(isinstance(a, (ast.Name, ast.Constant)) for a in binding.values()):
                    return c
                inner = {n.id for n in ast.walk(h.single_expr) if isinstance(n, ast.Name) and isinstance(n.ctx, ast.Store)}
                if inner & {a.id for a in binding.values() if isinstance(a, ast.Name)}:
                    return c
                if h.stored & {a.id for a in binding.values() if isinstance(a, ast.Name)}:
                    return c
                e = _Rename({}, exprs=binding).visit(copy.deepcopy(h.single_expr))
                norm.inlined.append((h.fn.name, caller_name, 'expression'))
                norm.changed = True
                return ast.copy_location(e, c)
        return T().visit(node)

    # ------------------------------------------------------------------ hoisting a nested helper call out of a simple statement
    def _hoist(self, s, mn, cls):
        """`... h(args) ...` -> (`tmp = h(args)`, `... tmp ...`) when h(args) is the first thing with an effect that the
        statement evaluates; returns (assign stmt, rewritten stmt) or None"""
        if isinstance(s, (ast.Expr, ast.Return)):
            root = s.value
        elif isinstance(s, ast.Assign):
            root = s.value
        elif isinstance(s, ast.If):
            root = s.test
        elif isinstance(s, ast.For):
            root = s.iter
        else:
            return None
        if root is None:
            return None
        cands = [n for n in ast.walk(root) if isinstance(n, ast.Call) and (n is not root or isinstance(s, (ast.If, ast.For)))]
        for c in cands:
            m = self._match(c, mn, cls)
            if m is None:
                continue
            h, binding = m
            if h.single_expr is not None and all(isinstance(a, (ast.Name, ast.Constant)) for a in binding.values()):
                continue          # expression inlining handles it better
            if not _first_evaluated(root, c):
                continue
            tmp = self._fresh('r')
            assign = ast.copy_location(ast.Assign(targets=[ast.Name(id=tmp, ctx=ast.Store())], value=c), s)

            class R(ast.NodeTransformer):
                def visit_Call(self_, n):
                    if n is c:
                        return ast.copy_location(ast.Name(id=tmp, ctx=ast.Load()), n)
                    self_.generic_visit(n)
                    return n
            s2 = copy.copy(s)
            if isinstance(s, ast.If):
                s2.test = R().visit(s.test)
            elif isinstance(s, ast.For):
                s2.iter = R().visit(s.iter)
            else:
                s2.value = R().visit(s.value)
            ast.fix_missing_locations(assign)
            return assign, s2
        return None

    # ------------------------------------------------------------------ driver
    def _do_body(self, stmts, mn, cls, caller_fn, trys):
        out = []
        queue = list(stmts)
        while queue:
            s = queue.pop(0)
            rep = None
            form = None
            call = None
            # `return a if c else self._h(..)`: back to a statement so that the helper call can be inlined in its branch
            if caller_fn is not None and isinstance(s, (ast.Return, ast.Assign)) and isinstance(s.value, ast.IfExp) and \
                    any(self._match(c_, mn, cls) is not None for br in (s.value.body, s.value.orelse) for c_ in ast.walk(br)
                        if isinstance(c_, ast.Call)):
                def arm(v):
                    n_ = copy.copy(s)
                    n_.value = v
                    return n_
                queue.insert(0, ast.copy_location(ast.If(test=s.value.test, body=[arm(s.value.body)], orelse=[arm(s.value.orelse)]), s))
                self.changed = True
                continue
            if isinstance(s, ast.Expr) and isinstance(s.value, ast.Call):
                form, call = 'expr', s.value
            elif isinstance(s, ast.Assign) and len(s.targets) == 1 and isinstance(s.value, ast.Call):
                form, call = 'assign', s.value
            elif isinstance(s, ast.Return) and isinstance(s.value, ast.Call):
                form, call = 'return', s.value
            if call is not None and caller_fn is not None:
                m = self._match(call, mn, cls)
                if m is not None and caller_fn is not m[0].fn:
                    h, binding = m
                    rep = self._inline_stmt(s, h, binding, form, caller_fn, trys)
                    if rep is not None:
                        self.inlined.append((h.fn.name, caller_fn.name, form))
                        self.changed = True
            if rep is not None:
                out.extend(rep)
                continue
            if caller_fn is not None and isinstance(s, (ast.Expr, ast.Return, ast.Assign, ast.If, ast.For)):
                hz = self._hoist(s, mn, cls)
                if hz is not None:
                    queue[0:0] = [hz[0], hz[1]]
                    self.changed = True
                    continue
            # recurse into blocks
            if isinstance(s, (ast.FunctionDef, ast.AsyncFunctionDef)):
                keep_depth, self._loop_depth = getattr(self, '_loop_depth', 0), 0
                try:
                    s.body = self._do_body(s.body, mn, cls, s if caller_fn is None else caller_fn, [])
                finally:
                    self._loop_depth = keep_depth
                out.append(s)
                continue
            if isinstance(s, ast.ClassDef):
                out.append(s)
                continue
            for fld in ('body', 'orelse', 'finalbody'):
                b = getattr(s, fld, None)
                if isinstance(b, list) and b and isinstance(b[0], ast.stmt):
                    looping = isinstance(s, (ast.For, ast.While)) and fld == 'body'
                    self._loop_depth = getattr(self, '_loop_depth', 0) + (1 if looping else 0)
                    try:
                        setattr(s, fld, self._do_body(b, mn, cls, caller_fn, trys + ([s] if isinstance(s, ast.Try) and fld == 'body' else [])))
                    finally:
                        self._loop_depth -= 1 if looping else 0
            if isinstance(s, ast.Try):
                for hd in s.handlers:
                    hd.body = self._do_body(hd.body, mn, cls, caller_fn, trys)
            # expression-level helpers in the statement's own expressions (not in nested blocks: already visited)
            cname = caller_fn.name if caller_fn is not None else '<module>'
            for fld, val in ast.iter_fields(s):
                if fld in ('body', 'orelse', 'finalbody', 'handlers'):
                    continue
                if isinstance(val, ast.AST):
                    setattr(s, fld, self._inline_exprs(val, mn, cls, cname))
                elif isinstance(val, list):
                    setattr(s, fld, [self._inline_exprs(v, mn, cls, cname) if isinstance(v, ast.AST) else v for v in val])
            out.append(s)
        return out

    def _defs_to_lambdas(self):
        """a new nested `def f(params): return e` whose name is read exactly once becomes `lambda params: e` at that use"""
        for mn, t in self.trees.items():
            for fn in [n for n in ast.walk(t) if isinstance(n, ast.FunctionDef)]:
                for holder in ast.walk(fn):
                    for fld in ('body', 'orelse', 'finalbody'):
                        b = getattr(holder, fld, None)
                        if not (isinstance(b, list) and b and isinstance(b[0], ast.stmt)):
                            continue
                        for d in list(b):
                            if not (isinstance(d, ast.FunctionDef) and d is not fn and not d.decorator_list and d.name not in self.pinned):
                                continue
                            body = _docless(d.body)
                            if any(isinstance(n, (ast.Yield, ast.YieldFrom, ast.Await)) for n in ast.walk(d)):
                                continue
                            if not (len(body) == 1 and isinstance(body[0], ast.Return)) and _terminates(body) and \
                                    not any(isinstance(n, (ast.Raise, ast.FunctionDef, ast.Lambda, ast.For, ast.While, ast.Try, ast.With)) for n in ast.walk(d) if n is not d):
                                # guard-clause form `if c: return a` ... `return b`: one conditional expression
                                try:
                                    st_ = structure(copy.deepcopy(body), [], lambda v, at: [ast.copy_location(ast.Return(value=v), at)])
                                except Unstructurable:
                                    st_ = body
                                if len(st_) == 1 and isinstance(st_[0], ast.Return) and st_[0].value is not None:
                                    body = st_
                            if not (len(body) == 1 and isinstance(body[0], ast.Return) and body[0].value is not None):
                                continue
                            uses = [n for n in ast.walk(fn) if isinstance(n, ast.Name) and n.id == d.name]
                            if len(uses) != 1 or not isinstance(uses[0].ctx, ast.Load) or any(x is uses[0] for x in ast.walk(d)):
                                continue
                            # the use must come after the definition in the same statement list or a later sibling block
                            if getattr(uses[0], 'lineno', 0) < d.lineno:
                                continue
                            lam = ast.copy_location(ast.Lambda(args=d.args, body=body[0].value), d)
                            use = uses[0]
                            # called right there with plain names / constants for plain parameters: the body itself, arguments put in
                            # (the function reads its free variables when it is called, which is where the expression now stands)
                            calls = [c_ for c_ in ast.walk(fn) if isinstance(c_, ast.Call) and c_.func is use]
                            a_ = d.args
                            prm = [x.arg for x in a_.args]
                            stored_in_body = {x.id for x in ast.walk(body[0].value) if isinstance(x, ast.Name) and isinstance(x.ctx, ast.Store)}
                            if calls and not (a_.vararg or a_.kwarg or a_.kwonlyargs or a_.posonlyargs or a_.defaults) and not calls[0].keywords and \
                                    len(calls[0].args) == len(prm) and all(isinstance(x, (ast.Name, ast.Constant)) for x in calls[0].args) and \
                                    not stored_in_body:
                                bind = dict(zip(prm, calls[0].args))

                                class S(ast.NodeTransformer):
                                    def visit_Name(self_, n):
                                        return copy.deepcopy(bind[n.id]) if isinstance(n.ctx, ast.Load) and n.id in bind else n
                                expr_ = S().visit(copy.deepcopy(body[0].value))
                                call_ = calls[0]
                                in_test = any((isinstance(p_, (ast.If, ast.While, ast.IfExp)) and p_.test is call_) or
                                              (isinstance(p_, ast.comprehension) and any(c_ is call_ for c_ in p_.ifs)) or
                                              (isinstance(p_, ast.UnaryOp) and isinstance(p_.op, ast.Not) and p_.operand is call_)
                                              for p_ in ast.walk(fn))
                                if in_test:
                                    expr_ = _bool_simplify(expr_)

                                class RC(ast.NodeTransformer):
                                    def visit_Call(self_, n):
                                        if n is call_:
                                            return ast.copy_location(expr_, n)
                                        self_.generic_visit(n)
                                        return n
                                RC().visit(fn)
                                b.remove(d)
                                if not b:
                                    b.append(ast.copy_location(ast.Pass(), d))
                                self.inlined.append((d.name, fn.name, 'nested-def-applied'))
                                continue

                            class R(ast.NodeTransformer):
                                def visit_Name(self_, n):
                                    return lam if n is use else n
                            R().visit(fn)
                            b.remove(d)
                            if not b:
                                b.append(ast.copy_location(ast.Pass(), d))
                            self.inlined.append((d.name, fn.name, 'def-to-lambda'))

    def _inline_new_constants(self):
        """a literal that was given a name (new module-level / class-level constant bound once to a str / bytes / number) is the
        literal again wherever that name is read in its module"""
        pinned = pinned_constants()
        count = 0
        all_attr_stores = {n.attr for t in self.trees.values() for n in ast.walk(t) if isinstance(n, ast.Attribute) and isinstance(n.ctx, (ast.Store, ast.Del))}
        for mn, t in self.trees.items():
            stores = {}
            for n in ast.walk(t):
                if isinstance(n, ast.Name) and isinstance(n.ctx, (ast.Store, ast.Del)):
                    stores[n.id] = stores.get(n.id, 0) + 1
                elif isinstance(n, (ast.FunctionDef, ast.ClassDef)):
                    stores[n.name] = stores.get(n.name, 0) + 1
                elif isinstance(n, ast.arg):
                    stores[n.arg] = stores.get(n.arg, 0) + 1
                elif isinstance(n, ast.alias):
                    nm = (n.asname or n.name).split('.')[0]
                    stores[nm] = stores.get(nm, 0) + 1
            def literal(v):
                if isinstance(v, ast.BinOp) and isinstance(v.op, (ast.Mult, ast.Add, ast.Sub, ast.Div, ast.Pow)):
                    return literal(v.left) and literal(v.right) and not isinstance(getattr(v.left, 'value', 0), (str, bytes))
                return isinstance(v, ast.Constant) and isinstance(v.value, (str, bytes, int, float)) and not isinstance(v.value, bool)
            mod_consts = {}
            for s in list(t.body):
                if isinstance(s, ast.Assign) and len(s.targets) == 1 and isinstance(s.targets[0], ast.Name) and literal(s.value) and \
                        s.targets[0].id not in pinned and stores.get(s.targets[0].id) == 1 and not s.targets[0].id.startswith('__'):
                    mod_consts[s.targets[0].id] = (s, s.value)
            cls_consts = {}
            for c in [s for s in t.body if isinstance(s, ast.ClassDef)]:
                for s in list(c.body):
                    if isinstance(s, ast.Assign) and len(s.targets) == 1 and isinstance(s.targets[0], ast.Name) and literal(s.value) and \
                            s.targets[0].id not in pinned and s.targets[0].id not in all_attr_stores and s.targets[0].id.isupper():
                        cls_consts[(c.name, s.targets[0].id)] = (c, s, s.value)
            if not mod_consts and not cls_consts:
                continue

            class T(ast.NodeTransformer):
                def visit_Name(self_, n):
                    if isinstance(n.ctx, ast.Load) and n.id in mod_consts:
                        return ast.copy_location(copy.deepcopy(mod_consts[n.id][1]), n)
                    return n

                def visit_Attribute(self_, n):
                    self_.generic_visit(n)
                    if isinstance(n.ctx, ast.Load) and isinstance(n.value, ast.Name):
                        for (cn, an), (c, s, v) in cls_consts.items():
                            if n.attr == an and n.value.id in ('self', 'cls', cn):
                                return ast.copy_location(copy.deepcopy(v), n)
                    return n
            T().visit(t)
            for nm, (s, v) in mod_consts.items():
                t.body.remove(s)
                count += 1
            # class constants stay defined (other modules may read them); only their uses in this module became literals
            count += len(cls_consts)
            ast.fix_missing_locations(t)
        if count:
            self.inlined.append(('named literals', str(count), 'to-literal'))

    def _fold_delegates(self):
        """a static method that only forwards its parameters to a new module-level function of the same module
        (`def m(a, b): return _f(a, b)`) gets that function's body back; other calls of `_f` become `Cls.m`"""
        sigs = pinned_signatures()
        for mn, t in self.trees.items():
            funcs = {s.name: s for s in t.body if isinstance(s, ast.FunctionDef)}
            for c in [s for s in t.body if isinstance(s, ast.ClassDef)]:
                for m in [x for x in c.body if isinstance(x, ast.FunctionDef)]:
                    if not any(isinstance(d, ast.Name) and d.id == 'staticmethod' for d in m.decorator_list) or len(m.decorator_list) != 1:
                        continue
                    body = _docless(m.body)
                    if not (len(body) == 1 and isinstance(body[0], ast.Return) and isinstance(body[0].value, ast.Call) and
                            isinstance(body[0].value.func, ast.Name) and body[0].value.func.id in funcs):
                        continue
                    f = funcs[body[0].value.func.id]
                    if '%s::::%s' % (mn, f.name) in sigs or f.decorator_list:
                        continue
                    params = [a.arg for a in m.args.args]
                    call = body[0].value
                    if call.keywords or [a.id if isinstance(a, ast.Name) else None for a in call.args] != params or \
                            [a.arg for a in f.args.args] != params or f.args.vararg or f.args.kwarg or m.args.vararg or m.args.kwarg or \
                            f.args.defaults or m.args.defaults:
                        continue
                    # every other use of f in the module must be a plain call
                    uses = [n for n in ast.walk(t) if isinstance(n, ast.Name) and n.id == f.name]
                    calls = [n for n in ast.walk(t) if isinstance(n, ast.Call) and isinstance(n.func, ast.Name) and n.func.id == f.name]
                    if len(uses) != len(calls):
                        continue
                    for n in calls:
                        n.func = ast.copy_location(ast.Attribute(value=ast.Name(id=c.name, ctx=ast.Load()), attr=m.name, ctx=ast.Load()), n.func)
                    doc = m.body[:len(m.body) - len(body)]
                    m.body = doc + _docless(f.body)
                    t.body.remove(f)
                    del funcs[f.name]
                    self.inlined.append((f.name, '%s.%s' % (c.name, m.name), 'delegate-folded'))
            ast.fix_missing_locations(t)

    def _fstrings_to_format(self):
        """f'{a}/{b:.2f}' -> '{}/{:.2f}'.format(a, b): one template idiom for the rules (the code base itself uses .format)"""
        norm_ = self

        class T(ast.NodeTransformer):
            def visit_JoinedStr(self_, n):
                self_.generic_visit(n)
                tmpl = []
                args = []
                for v in n.values:
                    if isinstance(v, ast.Constant) and isinstance(v.value, str):
                        tmpl.append(v.value.replace('{', '{{').replace('}', '}}'))
                    elif isinstance(v, ast.FormattedValue):
                        spec = ''
                        if v.format_spec is not None:
                            if not (isinstance(v.format_spec, ast.JoinedStr) and all(isinstance(x, ast.Constant) for x in v.format_spec.values)):
                                return n
                            spec = ':' + ''.join(x.value for x in v.format_spec.values)
                        conv = {-1: '', 115: '!s', 114: '!r', 97: '!a'}.get(v.conversion, None)
                        if conv is None:
                            return n
                        tmpl.append('{' + conv + spec + '}')
                        args.append(v.value)
                    else:
                        return n
                norm_.fstrings += 1
                if not args:
                    return ast.copy_location(ast.Constant(value=''.join(tmpl).replace('{{', '{').replace('}}', '}')), n)
                return ast.copy_location(ast.Call(func=ast.Attribute(value=ast.Constant(value=''.join(tmpl)), attr='format', ctx=ast.Load()),
                                                  args=args, keywords=[]), n)
        self.fstrings = 0
        for mn, t in list(self.trees.items()):
            T().visit(t)
            ast.fix_missing_locations(t)
        if self.fstrings:
            self.inlined.append(('f-strings', '%d' % self.fstrings, 'to-format'))

    def run(self):
        if self.inline_only:
            self._defs_to_lambdas = self._ifs_to_conditional_expressions = self._outline = self._merge_conditional_calls = self._split_parallel_assignments = self._for_else_to_early_exit = self._scalarise_private_namedtuples = self._forward_pure_loads = self._spread_and_getattr = self._alias_of_renamed_def = self._apply_lambda_locals = self._unpack_private_namedtuple_calls = self._index_of_list_literal = self._sink_result_aliases = self._accumulator_loops_to_comprehensions = lambda: None
        self._defs_to_lambdas()
        if self.helpers and not self.inline_only:
            self._collect_refresh()       # helper bodies were captured before nested defs became lambdas
        if not self.helpers:
            self._accumulator_loops_to_comprehensions()
            self._unpack_private_namedtuple_calls()
            self._split_parallel_assignments()
            self._index_of_list_literal()
            self._sink_result_aliases()
            self._for_else_to_early_exit()
            self._ifs_to_conditional_expressions()
            self._merge_conditional_calls()
            self._outline()
            return self
        def inline_round():
            any_change = False
            for _ in range(8):
                self.changed = False
                for mn, t in self.trees.items():
                    for s in t.body:
                        if isinstance(s, ast.FunctionDef):
                            s.body = self._do_body(s.body, mn, None, s, [])
                        elif isinstance(s, ast.ClassDef):
                            for m in s.body:
                                if isinstance(m, ast.FunctionDef):
                                    m.body = self._do_body(m.body, mn, s, m, [])
                if not self.changed:
                    break
                any_change = True
                self._collect_refresh()
            return any_change
        inline_round()
        for round_ in range(2):
            self._drop_unused()
            self._propagate_temporaries()
            self._scalarise_private_namedtuples()
            self._propagate_temporaries()
            self._alias_of_renamed_def()
            self._apply_lambda_locals()
            self._spread_and_getattr()
            self._accumulator_loops_to_comprehensions()
            self._forward_pure_loads()
            self._unpack_private_namedtuple_calls()
            self._split_parallel_assignments()
            self._index_of_list_literal()
            self._sink_result_aliases()
            # a call of a helper that only became visible now (a method handed to a higher-order helper, written in place above)
            if self.inline_only or not inline_round():
                break
        self._for_else_to_early_exit()
        self._ifs_to_conditional_expressions()
        self._merge_conditional_calls()
        self._outline()
        for t in self.trees.values():
            ast.fix_missing_locations(t)
        return self

    def _split_parallel_assignments(self):
        """`a, b = x, y` with plain names on the left and no target read on the right is `a = x; b = y` (same order of evaluation and
        binding as far as any reader can tell: every value is evaluated before it could be affected by a binding)"""
        norm_ = self

        def rewrite(stmts):
            out = []
            for s_ in stmts:
                for fld in ('body', 'orelse', 'finalbody'):
                    b = getattr(s_, fld, None)
                    if isinstance(b, list) and b and isinstance(b[0], ast.stmt):
                        setattr(s_, fld, rewrite(b))
                for h in getattr(s_, 'handlers', []) or []:
                    h.body = rewrite(h.body)
                # `a, b = (x, y) if c else (z, w)`: the statement form first (the test is evaluated once either way)
                if isinstance(s_, ast.Assign) and len(s_.targets) == 1 and isinstance(s_.targets[0], ast.Tuple) and isinstance(s_.value, ast.IfExp) and \
                        isinstance(s_.value.body, ast.Tuple) and isinstance(s_.value.orelse, ast.Tuple) and \
                        len(s_.value.body.elts) == len(s_.value.orelse.elts) == len(s_.targets[0].elts):
                    arm = lambda v: ast.copy_location(ast.Assign(targets=[copy.deepcopy(s_.targets[0])], value=v), s_)
                    st_if = ast.copy_location(ast.If(test=s_.value.test, body=rewrite([arm(s_.value.body)]), orelse=rewrite([arm(s_.value.orelse)])), s_)
                    out.append(st_if)
                    norm_.inlined.append(('parallel conditional assignment', '', 'to-statement'))
                    continue
                def plain_target(t_):
                    return isinstance(t_, ast.Name) or (isinstance(t_, ast.Attribute) and isinstance(t_.value, ast.Name))
                if isinstance(s_, ast.Assign) and len(s_.targets) == 1 and isinstance(s_.targets[0], ast.Tuple) and isinstance(s_.value, ast.Tuple) and \
                        len(s_.targets[0].elts) == len(s_.value.elts) and all(plain_target(t) for t in s_.targets[0].elts) and \
                        not all(isinstance(t, ast.Name) for t in s_.targets[0].elts) and not any(isinstance(v, ast.Starred) for v in s_.value.elts):
                    # with an attribute among the targets: a later value must not read an earlier target (`a, self.x = self.x, []` is fine)
                    tt = [ast.dump(t) for t in s_.targets[0].elts]
                    reads_ok = True
                    for j, v in enumerate(s_.value.elts):
                        for i in range(j):
                            ti = s_.targets[0].elts[i]
                            key = ti.id if isinstance(ti, ast.Name) else None
                            for x in ast.walk(v):
                                if (key and isinstance(x, ast.Name) and x.id == key) or (not key and isinstance(x, ast.Attribute) and ast.dump(x).replace('Load', 'Store') == tt[i]):
                                    reads_ok = False
                        if any(isinstance(x, (ast.Call, ast.Yield, ast.Await, ast.NamedExpr)) for x in ast.walk(v)):
                            reads_ok = False
                    if reads_ok and len(set(tt)) == len(tt):
                        for t, v in zip(s_.targets[0].elts, s_.value.elts):
                            out.append(ast.copy_location(ast.Assign(targets=[t], value=v), s_))
                        norm_.inlined.append(('parallel assignment', '', 'split'))
                        continue
                if isinstance(s_, ast.Assign) and len(s_.targets) == 1 and isinstance(s_.targets[0], ast.Tuple) and isinstance(s_.value, ast.Tuple) and \
                        len(s_.targets[0].elts) == len(s_.value.elts) and all(isinstance(t, ast.Name) for t in s_.targets[0].elts) and \
                        not any(isinstance(v, ast.Starred) for v in s_.value.elts):
                    tn = {t.id for t in s_.targets[0].elts}
                    if len(tn) == len(s_.targets[0].elts) and not any(isinstance(x, ast.Name) and x.id in tn for v in s_.value.elts for x in ast.walk(v)) and \
                            all(not any(isinstance(x, (ast.Call, ast.Yield, ast.Await, ast.NamedExpr)) for x in ast.walk(v)) for v in s_.value.elts):
                        for t, v in zip(s_.targets[0].elts, s_.value.elts):
                            out.append(ast.copy_location(ast.Assign(targets=[t], value=v), s_))
                        norm_.inlined.append(('parallel assignment', '', 'split'))
                        continue
                out.append(s_)
            return out
        for t in self.trees.values():
            for fn in [n for n in ast.walk(t) if isinstance(n, ast.FunctionDef)]:
                fn.body = rewrite(fn.body)

    def _private_namedtuples(self, t):
        nts = {}
        for s_ in t.body:
            if isinstance(s_, ast.Assign) and len(s_.targets) == 1 and isinstance(s_.targets[0], ast.Name) and s_.targets[0].id.startswith('_') and \
                    isinstance(s_.value, ast.Call) and isinstance(s_.value.func, (ast.Name, ast.Attribute)) and \
                    (s_.value.func.id if isinstance(s_.value.func, ast.Name) else s_.value.func.attr) == 'namedtuple' and len(s_.value.args) == 2:
                f_ = s_.value.args[1]
                if isinstance(f_, (ast.List, ast.Tuple)) and all(isinstance(e, ast.Constant) and isinstance(e.value, str) for e in f_.elts):
                    nts[s_.targets[0].id] = [e.value for e in f_.elts]
                elif isinstance(f_, ast.Constant) and isinstance(f_.value, str):
                    nts[s_.targets[0].id] = f_.value.replace(',', ' ').split()
        return nts

    def _unpack_private_namedtuple_calls(self):
        """`a, b = _X(f1=x, f2=y)` with `_X` a private module-level namedtuple (new on this tree) is `a, b = x, y` in field order: the tuple
        object is unpacked at once and never observed. When the written order of the arguments differs from the field order the arguments
        must be free of calls (nothing whose order of evaluation could be seen)"""
        for mn, t in self.trees.items():
            nts = self._private_namedtuples(t)
            if not nts:
                continue
            for n in ast.walk(t):
                if isinstance(n, ast.Assign) and len(n.targets) == 1 and isinstance(n.targets[0], ast.Tuple) and isinstance(n.value, ast.Call) and \
                        isinstance(n.value.func, ast.Name) and n.value.func.id in nts:
                    c, fields = n.value, nts[n.value.func.id]
                    if any(isinstance(a, ast.Starred) for a in c.args) or any(k.arg is None for k in c.keywords) or len(n.targets[0].elts) != len(fields):
                        continue
                    given = dict(zip(fields, c.args))
                    given.update({k.arg: k.value for k in c.keywords})
                    if set(given) != set(fields) or len(c.args) + len(c.keywords) != len(fields):
                        continue
                    written = [f for f, _ in zip(fields, c.args)] + [k.arg for k in c.keywords]
                    if written != fields and any(isinstance(x, (ast.Call, ast.Yield, ast.Await, ast.NamedExpr)) for v in given.values() for x in ast.walk(v)):
                        continue
                    n.value = ast.copy_location(ast.Tuple(elts=[given[f] for f in fields], ctx=ast.Load()), c)
                    self.inlined.append(('private namedtuple', c.func.id, 'unpacked'))

    def _index_of_list_literal(self):
        """`x = L[k]` (constant k) where the local `L` was bound, earlier in the same block and with nothing in between mentioning it, to a
        list display / `[a, ...] + rest` whose k-th leading element is a plain name: `x = a` (the element just put there)"""
        norm_ = self

        def leading(v):
            if isinstance(v, (ast.List, ast.Tuple)) and not any(isinstance(e, ast.Starred) for e in v.elts):
                return v.elts
            if isinstance(v, ast.BinOp) and isinstance(v.op, ast.Add):
                return leading(v.left)
            return []

        def rewrite(stmts):
            for i, s_ in enumerate(stmts):
                for fld in ('body', 'orelse', 'finalbody'):
                    b = getattr(s_, fld, None)
                    if isinstance(b, list) and b and isinstance(b[0], ast.stmt):
                        rewrite(b)
                for h in getattr(s_, 'handlers', []) or []:
                    rewrite(h.body)
                if isinstance(s_, ast.Assign) and isinstance(s_.value, ast.Subscript) and isinstance(s_.value.value, ast.Name) and \
                        isinstance(s_.value.slice, ast.Constant) and isinstance(s_.value.slice.value, int) and s_.value.slice.value >= 0:
                    L, k = s_.value.value.id, s_.value.slice.value
                    for j in range(i - 1, -1, -1):
                        p_ = stmts[j]
                        if isinstance(p_, ast.Assign) and len(p_.targets) == 1 and isinstance(p_.targets[0], ast.Name) and p_.targets[0].id == L:
                            el = leading(p_.value)
                            if k < len(el) and isinstance(el[k], ast.Name):
                                s_.value = ast.copy_location(ast.Name(id=el[k].id, ctx=ast.Load()), s_.value)
                                norm_.inlined.append(('element of a list display', L, 'forwarded'))
                            break
                        if any(isinstance(x, ast.Name) and x.id == L for x in ast.walk(p_)):
                            break
        for t in self.trees.values():
            for fn in [n for n in ast.walk(t) if isinstance(n, ast.FunctionDef)]:
                rewrite(fn.body)

    def _sink_result_aliases(self):
        """`b = <expr>; ...; a = b` in one block, where `b` is bound only there, every read of `b` lies in that block from its binding on, `a`
        is not mentioned between the two statements nor bound again in the rest of the block, and - should a statement in between raise - no handler of the function leaves `a` as
        it was (each binds `a` or ends by raising): `b` is another name for what becomes `a`; it is written as `a` from the start"""
        norm_ = self

        def blocks(fn):
            for n in ast.walk(fn):
                for fld in ('body', 'orelse', 'finalbody'):
                    b = getattr(n, fld, None)
                    if isinstance(b, list) and b and isinstance(b[0], ast.stmt):
                        yield n, b
                if isinstance(n, ast.ExceptHandler):
                    pass
        for t in self.trees.values():
            for fn in [n for n in ast.walk(t) if isinstance(n, ast.FunctionDef)]:
                again = True
                while again:
                    again = False
                    for owner, blk in list(blocks(fn)):
                        for i, s_ in enumerate(blk):
                            if not (isinstance(s_, ast.Assign) and len(s_.targets) == 1 and isinstance(s_.targets[0], ast.Name) and isinstance(s_.value, ast.Name)):
                                continue
                            a, b = s_.targets[0].id, s_.value.id
                            if a == b:
                                continue
                            stores_b = [x for x in ast.walk(fn) if isinstance(x, ast.Name) and x.id == b and isinstance(x.ctx, (ast.Store, ast.Del))]
                            if not stores_b or b in {p.arg for p in fn.args.args + fn.args.kwonlyargs} or \
                                    any(isinstance(x, (ast.Global, ast.Nonlocal)) and (a in x.names or b in x.names) for x in ast.walk(fn)):
                                continue
                            # every binding of b is a statement of this block: a plain assignment, or the last statement of a `with` body
                            def binds_b(st_):
                                if isinstance(st_, ast.Assign) and len(st_.targets) == 1 and isinstance(st_.targets[0], ast.Name) and st_.targets[0].id == b:
                                    return True
                                return isinstance(st_, ast.With) and bool(st_.body) and binds_b(st_.body[-1]) and \
                                    sum(1 for x in ast.walk(st_) if isinstance(x, ast.Name) and x.id == b and isinstance(x.ctx, (ast.Store, ast.Del))) == 1
                            binders = [idx for idx, st_ in enumerate(blk) if binds_b(st_)]
                            if len(binders) != len(stores_b):
                                continue
                            before = [idx for idx in binders if idx < i]
                            if not before:
                                continue
                            j = before[-1]
                            k = min([idx for idx in binders if idx > i] or [len(blk)])
                            between = blk[j:k]         # (reads after the alias, up to the next binding of b, see the same object under either name
                            #                             as long as `a` is not bound again there)
                            in_blk = {id(x) for st_ in blk for x in ast.walk(st_)}
                            reads_b = [x for x in ast.walk(fn) if isinstance(x, ast.Name) and x.id == b and isinstance(x.ctx, ast.Load)]
                            if any(id(x) not in in_blk for x in reads_b):
                                continue
                            if any(isinstance(x, ast.Name) and x.id == a and x is not s_.targets[0] for st_ in blk[j:i + 1] for x in ast.walk(st_)):
                                continue
                            if any(isinstance(x, ast.Name) and x.id == a and isinstance(x.ctx, (ast.Store, ast.Del)) for st_ in blk[i + 1:k] for x in ast.walk(st_)):
                                continue
                            # nested functions reading b late would see the same object under either name: still, keep it simple
                            if any(isinstance(x, (ast.FunctionDef, ast.Lambda)) for st_ in between for x in ast.walk(st_)
                                   if any(isinstance(y, ast.Name) and y.id == b for y in ast.walk(x))):
                                continue
                            trys = [tr for tr in ast.walk(fn) if isinstance(tr, ast.Try) and any(x is s_ for b_ in tr.body for x in ast.walk(b_))]
                            def rebinding(h):
                                return (h.body and isinstance(h.body[-1], ast.Raise)) or \
                                    any(isinstance(x, ast.Assign) and any(isinstance(t_, ast.Name) and t_.id == a for t_ in x.targets) for x in h.body)
                            if any(not rebinding(h) for tr in trys for h in tr.handlers) or \
                                    any(isinstance(x, ast.Name) and x.id == a for tr in trys for st_ in tr.finalbody for x in ast.walk(st_)):
                                continue
                            for st_ in between:
                                for x in ast.walk(st_):
                                    if isinstance(x, ast.Name) and x.id == b:
                                        x.id = a
                            del blk[i]
                            norm_.inlined.append(('alias of a result', b, 'written as %s' % a))
                            again = True
                            break
                        if again:
                            break

    def _accumulator_loops_to_comprehensions(self):
        """`i = 0; while i < len(S): ... S[i] ...; i += 1` (i and S otherwise untouched, no break / continue) is `for x in S: ... x ...`;
        `L = []; for x in IT: [t = e;] L.append(E)` (nothing else in the body, L not read by it) is `L = [E for x in IT]`. The values
        produced and the order of evaluation are the same; only an exception half way leaves `L` unbound instead of partly filled, which
        no reader of the package looks at (the name is local and the exception leaves the block)"""
        norm_ = self

        def mentions(node, name):
            return any(isinstance(x, ast.Name) and x.id == name for x in ast.walk(node))

        def rewrite(stmts, fn):
            i = 0
            while i < len(stmts):
                s_ = stmts[i]
                for fld in ('body', 'orelse', 'finalbody'):
                    b = getattr(s_, fld, None)
                    if isinstance(b, list) and b and isinstance(b[0], ast.stmt):
                        rewrite(b, fn)
                for h in getattr(s_, 'handlers', []) or []:
                    rewrite(h.body, fn)
                # index cursor -> for
                if isinstance(s_, ast.While) and not s_.orelse and i > 0 and isinstance(s_.test, ast.Compare) and len(s_.test.ops) == 1 and \
                        isinstance(s_.test.ops[0], ast.Lt) and isinstance(s_.test.left, ast.Name) and isinstance(s_.test.comparators[0], ast.Call) and \
                        isinstance(s_.test.comparators[0].func, ast.Name) and s_.test.comparators[0].func.id == 'len' and len(s_.test.comparators[0].args) == 1 and \
                        isinstance(s_.test.comparators[0].args[0], ast.Name):
                    iv, sv = s_.test.left.id, s_.test.comparators[0].args[0].id
                    init = stmts[i - 1]
                    last = s_.body[-1] if s_.body else None
                    ok = isinstance(init, ast.Assign) and len(init.targets) == 1 and isinstance(init.targets[0], ast.Name) and init.targets[0].id == iv and \
                        isinstance(init.value, ast.Constant) and init.value.value == 0 and type(init.value.value) is int and \
                        isinstance(last, ast.AugAssign) and isinstance(last.op, ast.Add) and isinstance(last.target, ast.Name) and last.target.id == iv and \
                        isinstance(last.value, ast.Constant) and last.value.value == 1 and \
                        not any(isinstance(x, (ast.Break, ast.Continue, ast.Return, ast.Yield, ast.YieldFrom)) for b_ in s_.body for x in ast.walk(b_))
                    if ok:
                        body = s_.body[:-1]
                        subs = [x for b_ in body for x in ast.walk(b_) if isinstance(x, ast.Subscript) and isinstance(x.value, ast.Name) and x.value.id == sv and
                                isinstance(x.slice, ast.Name) and x.slice.id == iv and isinstance(x.ctx, ast.Load)]
                        inside = {id(y) for x in subs for y in ast.walk(x)}
                        others = [x for b_ in body for x in ast.walk(b_) if isinstance(x, ast.Name) and x.id in (iv, sv) and id(x) not in inside]
                        after = [x for st_ in stmts[i + 1:] for x in ast.walk(st_) if isinstance(x, ast.Name) and x.id == iv]
                        if subs and not others and not after and body:
                            el = norm_._fresh(sv + '_item')

                            class R(ast.NodeTransformer):
                                def visit_Subscript(self_, n):
                                    if any(n is x for x in subs):
                                        return ast.copy_location(ast.Name(id=el, ctx=ast.Load()), n)
                                    return self_.generic_visit(n)
                            body = [R().visit(b_) for b_ in body]
                            loop = ast.copy_location(ast.For(target=ast.Name(id=el, ctx=ast.Store()), iter=ast.Name(id=sv, ctx=ast.Load()), body=body, orelse=[]), s_)
                            ast.fix_missing_locations(loop)
                            stmts[i - 1:i + 1] = [loop]
                            norm_.inlined.append(('index cursor loop', sv, 'for'))
                            i -= 1
                            continue
                # accumulator -> comprehension
                if isinstance(s_, ast.For) and not s_.orelse and i > 0 and isinstance(s_.target, ast.Name) and s_.body:
                    init = stmts[i - 1]
                    last = s_.body[-1]
                    if isinstance(init, ast.Assign) and len(init.targets) == 1 and isinstance(init.targets[0], ast.Name) and isinstance(init.value, ast.List) and \
                            not init.value.elts and isinstance(last, ast.Expr) and isinstance(last.value, ast.Call) and isinstance(last.value.func, ast.Attribute) and \
                            last.value.func.attr == 'append' and isinstance(last.value.func.value, ast.Name) and last.value.func.value.id == init.targets[0].id and \
                            len(last.value.args) == 1 and not last.value.keywords:
                        L = init.targets[0].id
                        temps = s_.body[:-1]
                        E = copy.deepcopy(last.value.args[0])
                        good = all(isinstance(t_, ast.Assign) and len(t_.targets) == 1 and isinstance(t_.targets[0], ast.Name) for t_ in temps) and \
                            not mentions(s_.iter, L) and not mentions(E, L) and not any(mentions(t_, L) for t_ in temps)
                        if good:
                            # single-use explaining variables of the element are written in place (later ones first)
                            for t_ in reversed(temps):
                                nm = t_.targets[0].id
                                uses = [x for x in ast.walk(E) if isinstance(x, ast.Name) and x.id == nm]
                                elsewhere = [x for x in ast.walk(fn) if isinstance(x, ast.Name) and x.id == nm]
                                if len(uses) != 1 or len(elsewhere) != 2:
                                    good = False
                                    break

                                class S(ast.NodeTransformer):
                                    def visit_Name(self_, n):
                                        return copy.deepcopy(t_.value) if n.id == nm and isinstance(n.ctx, ast.Load) else n
                                E = S().visit(E)
                        if good and not any(isinstance(x, (ast.Yield, ast.YieldFrom, ast.Await, ast.NamedExpr)) for x in ast.walk(E)):
                            comp = ast.ListComp(elt=E, generators=[ast.comprehension(target=s_.target, iter=s_.iter, ifs=[], is_async=0)])
                            new_ = ast.copy_location(ast.Assign(targets=[ast.Name(id=L, ctx=ast.Store())], value=comp), init)
                            ast.fix_missing_locations(new_)
                            stmts[i - 1:i + 1] = [new_]
                            norm_.inlined.append(('accumulator loop', L, 'comprehension'))
                            i -= 1
                            continue
                i += 1
        for t in self.trees.values():
            for fn in [n for n in ast.walk(t) if isinstance(n, ast.FunctionDef)]:
                rewrite(fn.body, fn)

    def _for_else_to_early_exit(self):
        """`for ..: .. break ..  else: E` followed by AFTER, where E always returns / raises and AFTER (a few simple statements) always
        returns / raises: AFTER runs exactly when the loop was left by `break`, so each such `break` becomes AFTER and E follows the loop"""
        norm_ = self

        def own_breaks(loop):
            out = []

            def go(stmts):
                for s_ in stmts:
                    if isinstance(s_, ast.Break):
                        out.append(s_)
                    elif isinstance(s_, (ast.For, ast.While, ast.FunctionDef, ast.AsyncFunctionDef, ast.ClassDef)):
                        continue
                    else:
                        for fld in ('body', 'orelse', 'finalbody'):
                            b = getattr(s_, fld, None)
                            if isinstance(b, list):
                                go(b)
                        for h in getattr(s_, 'handlers', []) or []:
                            go(h.body)
            go(loop.body)
            return out

        def replace_breaks(stmts, after):
            out = []
            for s_ in stmts:
                if isinstance(s_, ast.Break):
                    out.extend(copy.deepcopy(a) for a in after)
                    continue
                if not isinstance(s_, (ast.For, ast.While, ast.FunctionDef, ast.AsyncFunctionDef, ast.ClassDef)):
                    for fld in ('body', 'orelse', 'finalbody'):
                        b = getattr(s_, fld, None)
                        if isinstance(b, list) and b and isinstance(b[0], ast.stmt):
                            setattr(s_, fld, replace_breaks(b, after))
                    for h in getattr(s_, 'handlers', []) or []:
                        h.body = replace_breaks(h.body, after)
                out.append(s_)
            return out

        def rewrite(stmts):
            for i, s_ in enumerate(stmts):
                for fld in ('body', 'orelse', 'finalbody'):
                    b = getattr(s_, fld, None)
                    if isinstance(b, list) and b and isinstance(b[0], ast.stmt) and not isinstance(s_, (ast.FunctionDef, ast.ClassDef)):
                        rewrite(b)
                for h in getattr(s_, 'handlers', []) or []:
                    rewrite(h.body)
                if isinstance(s_, (ast.For, ast.While)) and s_.orelse and _terminates(s_.orelse):
                    after = stmts[i + 1:]
                    simple = all(isinstance(a, (ast.Return, ast.Raise, ast.Expr, ast.Assign)) for a in after)
                    in_finally = any(isinstance(t, ast.Try) and t.finalbody and any(isinstance(x, ast.Break) for f_ in t.finalbody for x in ast.walk(f_))
                                     for t in ast.walk(s_))
                    small_else = len(s_.orelse) <= 3 and all(isinstance(a, (ast.Return, ast.Raise, ast.Expr, ast.Assign)) for a in s_.orelse)
                    if after and len(after) <= 2 and simple and small_else and _terminates(after) and own_breaks(s_) and not in_finally:
                        s_.body = replace_breaks(s_.body, after)
                        tail = s_.orelse
                        s_.orelse = []
                        stmts[i + 1:] = tail
                        norm_.inlined.append(('for/else', '', 'to-early-exit'))
                        return rewrite(stmts)
            return stmts
        for t in self.trees.values():
            for fn in [n for n in ast.walk(t) if isinstance(n, ast.FunctionDef)]:
                if any(isinstance(x, (ast.For, ast.While)) and x.orelse for x in ast.walk(fn)):
                    rewrite(fn.body)

    def _scalarise_private_namedtuples(self):
        """a local bound once to a call of a private module-level namedtuple (`_X = namedtuple(..)`, new on this tree) and used only through
        `.field` reads, plain aliases `y = x`, or `**x._asdict()`: the fields become locals of their own (`x__field`), assigned in the order
        the constructor evaluated its arguments - the tuple object itself is never observed"""
        norm_ = self
        for mn, t in self.trees.items():
            nts = {}
            for s_ in t.body:
                if isinstance(s_, ast.Assign) and len(s_.targets) == 1 and isinstance(s_.targets[0], ast.Name) and s_.targets[0].id.startswith('_') and \
                        isinstance(s_.value, ast.Call) and isinstance(s_.value.func, (ast.Name, ast.Attribute)) and \
                        (s_.value.func.id if isinstance(s_.value.func, ast.Name) else s_.value.func.attr) == 'namedtuple' and len(s_.value.args) == 2:
                    f_ = s_.value.args[1]
                    fields = None
                    if isinstance(f_, (ast.List, ast.Tuple)) and all(isinstance(e, ast.Constant) and isinstance(e.value, str) for e in f_.elts):
                        fields = [e.value for e in f_.elts]
                    elif isinstance(f_, ast.Constant) and isinstance(f_.value, str):
                        fields = f_.value.replace(',', ' ').split()
                    if fields:
                        nts[s_.targets[0].id] = fields
            if not nts:
                continue
            for fn in [n for n in ast.walk(t) if isinstance(n, ast.FunctionDef)]:
                binds = [n for n in _walk_own(fn) if isinstance(n, ast.Assign) and len(n.targets) == 1 and isinstance(n.targets[0], ast.Name) and
                         isinstance(n.value, ast.Call) and isinstance(n.value.func, ast.Name) and n.value.func.id in nts]
                for b in binds:
                    name = b.targets[0].id
                    fields = nts[b.value.func.id]
                    if any(isinstance(a, ast.Starred) for a in b.value.args) or any(k.arg is None for k in b.value.keywords):
                        continue
                    given = dict(zip(fields, b.value.args))
                    given.update({k.arg: k.value for k in b.value.keywords})
                    if set(given) != set(fields):
                        continue
                    # names standing for the tuple: the local and plain aliases of it
                    group = {name}
                    grew = True
                    while grew:
                        grew = False
                        for n in _walk_own(fn):
                            if isinstance(n, ast.Assign) and len(n.targets) == 1 and isinstance(n.targets[0], ast.Name) and isinstance(n.value, ast.Name) and \
                                    n.value.id in group and n.targets[0].id not in group:
                                group.add(n.targets[0].id)
                                grew = True
                    stores = [n for n in ast.walk(fn) if isinstance(n, ast.Name) and n.id in group and isinstance(n.ctx, (ast.Store, ast.Del))]
                    if len(stores) != len(group):
                        continue        # rebound somewhere
                    ok = True
                    parents = {}
                    for p_ in ast.walk(fn):
                        for c_ in ast.iter_child_nodes(p_):
                            parents[id(c_)] = p_
                    uses = [n for n in ast.walk(fn) if isinstance(n, ast.Name) and n.id in group and isinstance(n.ctx, ast.Load)]
                    for u in uses:
                        par = parents.get(id(u))
                        if isinstance(par, ast.Attribute) and par.value is u and par.attr in fields and isinstance(par.ctx, ast.Load):
                            continue
                        if isinstance(par, ast.Assign) and par.value is u and len(par.targets) == 1 and isinstance(par.targets[0], ast.Name) and par.targets[0].id in group:
                            continue
                        if isinstance(par, ast.Attribute) and par.attr == '_asdict':
                            gp = parents.get(id(par))
                            ggp = parents.get(id(gp)) if gp is not None else None
                            if isinstance(gp, ast.Call) and not gp.args and isinstance(ggp, ast.keyword) and ggp.arg is None:
                                continue
                        ok = False
                    if not ok:
                        continue
                    order = [k for k in fields if k in given]
                    # evaluation order of the constructor call: positional arguments first, then keywords as written
                    written = [fields[i] for i in range(len(b.value.args))] + [k.arg for k in b.value.keywords]
                    new_assigns = [ast.copy_location(ast.Assign(targets=[ast.Name(id='%s__%s' % (name, f), ctx=ast.Store())], value=given[f]), b) for f in written]

                    class R(ast.NodeTransformer):
                        def visit_Attribute(self_, n):
                            if isinstance(n.value, ast.Name) and n.value.id in group and n.attr in fields and isinstance(n.ctx, ast.Load):
                                return ast.copy_location(ast.Name(id='%s__%s' % (name, n.attr), ctx=ast.Load()), n)
                            self_.generic_visit(n)
                            return n

                        def visit_Call(self_, n):
                            self_.generic_visit(n)
                            kws = []
                            for k in n.keywords:
                                if k.arg is None and isinstance(k.value, ast.Call) and isinstance(k.value.func, ast.Attribute) and k.value.func.attr == '_asdict' and \
                                        isinstance(k.value.func.value, ast.Name) and k.value.func.value.id in group:
                                    kws.extend(ast.keyword(arg=f, value=ast.Name(id='%s__%s' % (name, f), ctx=ast.Load())) for f in fields)
                                else:
                                    kws.append(k)
                            n.keywords = kws
                            return n

                    def rewrite(stmts):
                        out = []
                        for s_ in stmts:
                            if s_ is b:
                                out.extend(new_assigns)
                                continue
                            if isinstance(s_, ast.Assign) and len(s_.targets) == 1 and isinstance(s_.targets[0], ast.Name) and s_.targets[0].id in group and \
                                    isinstance(s_.value, ast.Name) and s_.value.id in group:
                                continue        # alias of the tuple: gone
                            for fld in ('body', 'orelse', 'finalbody'):
                                bb = getattr(s_, fld, None)
                                if isinstance(bb, list) and bb and isinstance(bb[0], ast.stmt) and not isinstance(s_, (ast.FunctionDef, ast.ClassDef)):
                                    setattr(s_, fld, rewrite(bb) or [ast.copy_location(ast.Pass(), s_)])
                            for h in getattr(s_, 'handlers', []) or []:
                                h.body = rewrite(h.body) or [ast.copy_location(ast.Pass(), h)]
                            out.append(R().visit(s_))
                        return out
                    fn.body = rewrite(fn.body)
                    for n_ in new_assigns:
                        ast.fix_missing_locations(n_)
                    norm_.inlined.append((b.value.func.id, fn.name, 'namedtuple-scalarised'))

    def _forward_pure_loads(self):
        """`x = <name / attribute chain / constant>` bound once, read once later in the same block with nothing but such plain loads assigned in
        between, is replaced at its use - for the field locals left by namedtuple scalarisation and for locals that only name a callee
        (`f = obj.method` ... `f(args)`).  Reads of attributes are taken to have no effect (stated approximation, like value formatting)."""
        def chain(e):
            while isinstance(e, ast.Attribute):
                e = e.value
            return isinstance(e, (ast.Name, ast.Constant))

        def plain_load_assign(s_):
            return isinstance(s_, ast.Assign) and len(s_.targets) == 1 and isinstance(s_.targets[0], ast.Name) and chain(s_.value)
        norm_ = self
        for t in self.trees.values():
            for fn in [n for n in ast.walk(t) if isinstance(n, ast.FunctionDef)]:
                counts = {}
                for n in _walk_own(fn):
                    if isinstance(n, ast.Name):
                        c = counts.setdefault(n.id, [0, 0])
                        c[0 if isinstance(n.ctx, ast.Load) else 1] += 1

                def rewrite(stmts):
                    i = 0
                    while i < len(stmts):
                        s_ = stmts[i]
                        for fld in ('body', 'orelse', 'finalbody'):
                            b = getattr(s_, fld, None)
                            if isinstance(b, list) and b and isinstance(b[0], ast.stmt) and not isinstance(s_, (ast.FunctionDef, ast.ClassDef)):
                                rewrite(b)
                        for h in getattr(s_, 'handlers', []) or []:
                            rewrite(h.body)
                        if plain_load_assign(s_):
                            nm = s_.targets[0].id
                            if counts.get(nm) == [1, 1] and not (isinstance(s_.value, ast.Name) and counts.get(s_.value.id, [0, 0])[1] != 1):
                                j = i + 1
                                roots = {x.id for x in ast.walk(s_.value) if isinstance(x, ast.Name)}

                                def harmless(st__):
                                    # a plain load, or the construction of a fresh local from expressions that do not mention what the forwarded
                                    # chain starts from
                                    if plain_load_assign(st__):
                                        return True
                                    return isinstance(st__, ast.Assign) and len(st__.targets) == 1 and isinstance(st__.targets[0], ast.Name) and \
                                        not any(isinstance(x, ast.Name) and x.id in roots for x in ast.walk(st__.value)) and \
                                        not any(isinstance(x, (ast.Yield, ast.YieldFrom, ast.Await, ast.NamedExpr, ast.Lambda)) for x in ast.walk(st__.value))
                                while j < len(stmts) and harmless(stmts[j]) and not any(isinstance(x, ast.Name) and x.id == nm for x in ast.walk(stmts[j])):
                                    j += 1
                                if j < len(stmts):
                                    use = [x for x in ast.walk(stmts[j]) if isinstance(x, ast.Name) and x.id == nm and isinstance(x.ctx, ast.Load)]
                                    in_nested = any(isinstance(d, (ast.FunctionDef, ast.Lambda, ast.ListComp, ast.GeneratorExp, ast.DictComp, ast.SetComp)) and
                                                    any(x is use[0] for x in ast.walk(d)) for d in ast.walk(stmts[j])) if use else True
                                    callee = bool(use) and any(isinstance(c_, ast.Call) and c_.func is use[0] for c_ in ast.walk(stmts[j]))
                                    once = not isinstance(stmts[j], (ast.For, ast.While, ast.With, ast.Try, ast.If)) or \
                                        (isinstance(stmts[j], ast.For) and bool(use) and any(x is use[0] for x in ast.walk(stmts[j].iter)))
                                    if len(use) == 1 and not in_nested and ('__' in nm or callee) and once:
                                        val = s_.value

                                        class R(ast.NodeTransformer):
                                            def visit_Name(self_, n):
                                                return ast.copy_location(copy.deepcopy(val), n) if n is use[0] else n
                                        stmts[j] = R().visit(stmts[j])
                                        del stmts[i]
                                        counts[nm] = [0, 0]
                                        norm_.inlined.append(('plain load', fn.name, 'forwarded'))
                                        continue
                        i += 1
                rewrite(fn.body)

    def _spread_and_getattr(self):
        """`f(*t)` where `t` is bound once to a tuple display of names / constants and read only there is `f(a, b)`; `getattr(x, 'name')` with
        a constant identifier is `x.name`"""
        norm_ = self
        for t in self.trees.values():
            for fn in [n for n in ast.walk(t) if isinstance(n, ast.FunctionDef)]:
                tuples = {}
                for n in ast.walk(fn):
                    if isinstance(n, ast.Assign) and len(n.targets) == 1 and isinstance(n.targets[0], ast.Name) and isinstance(n.value, ast.Tuple) and \
                            all(isinstance(e, (ast.Name, ast.Constant)) for e in n.value.elts):
                        tuples.setdefault(n.targets[0].id, []).append(n)
                for nm, defs in list(tuples.items()):
                    names = [x for x in ast.walk(fn) if isinstance(x, ast.Name) and x.id == nm]
                    stars = [x for x in ast.walk(fn) if isinstance(x, ast.Starred) and isinstance(x.value, ast.Name) and x.value.id == nm]
                    elems_rebound = any(isinstance(x, ast.Name) and isinstance(x.ctx, ast.Store) and x.id in {e.id for e in defs[0].value.elts if isinstance(e, ast.Name)}
                                        and x.lineno > defs[0].lineno for x in ast.walk(fn)) if len(defs) == 1 else True
                    if len(defs) != 1 or len(stars) != 1 or len(names) != 2 or elems_rebound:
                        continue
                    d0 = defs[0]

                    class R(ast.NodeTransformer):
                        def visit_Call(self_, c):
                            self_.generic_visit(c)
                            new_args = []
                            for a in c.args:
                                if a is stars[0]:
                                    new_args.extend(copy.deepcopy(e) for e in d0.value.elts)
                                else:
                                    new_args.append(a)
                            c.args = new_args
                            return c
                    R().visit(fn)

                    def drop(stmts):
                        out = []
                        for s_ in stmts:
                            if s_ is d0:
                                continue
                            for fld in ('body', 'orelse', 'finalbody'):
                                b = getattr(s_, fld, None)
                                if isinstance(b, list) and b and isinstance(b[0], ast.stmt):
                                    setattr(s_, fld, drop(b) or [ast.copy_location(ast.Pass(), s_)])
                            for h in getattr(s_, 'handlers', []) or []:
                                h.body = drop(h.body) or [ast.copy_location(ast.Pass(), h)]
                            out.append(s_)
                        return out
                    fn.body = drop(fn.body)
                    norm_.inlined.append(('*tuple', fn.name, 'spread'))

        # `f(**d)` where `d` is bound once to a dict display with constant identifier keys and name / constant values and read only there
        for t in self.trees.values():
            for fn in [n for n in ast.walk(t) if isinstance(n, ast.FunctionDef)]:
                dicts = {}
                for n in ast.walk(fn):
                    if isinstance(n, ast.Assign) and len(n.targets) == 1 and isinstance(n.targets[0], ast.Name) and isinstance(n.value, ast.Dict) and \
                            all(isinstance(k_, ast.Constant) and isinstance(k_.value, str) and k_.value.isidentifier() for k_ in n.value.keys) and \
                            all(isinstance(v_, (ast.Name, ast.Constant)) for v_ in n.value.values):
                        dicts.setdefault(n.targets[0].id, []).append(n)
                for nm, defs in list(dicts.items()):
                    names = [x for x in ast.walk(fn) if isinstance(x, ast.Name) and x.id == nm]
                    spreads = [(c, k_) for c in ast.walk(fn) if isinstance(c, ast.Call) for k_ in c.keywords if k_.arg is None and isinstance(k_.value, ast.Name) and k_.value.id == nm]
                    if len(defs) != 1 or len(spreads) != 1 or len(names) != 2:
                        continue
                    d0 = defs[0]
                    vals = {v_.id for v_ in d0.value.values if isinstance(v_, ast.Name)}
                    if any(isinstance(x, ast.Name) and isinstance(x.ctx, ast.Store) and x.id in vals and x.lineno > d0.lineno for x in ast.walk(fn)):
                        continue
                    c, k_ = spreads[0]
                    if {kk.value for kk in d0.value.keys} & {x.arg for x in c.keywords if x.arg}:
                        continue
                    idx = c.keywords.index(k_)
                    c.keywords[idx:idx + 1] = [ast.keyword(arg=kk.value, value=copy.deepcopy(v_)) for kk, v_ in zip(d0.value.keys, d0.value.values)]
                    ast.fix_missing_locations(c)

                    def drop2(stmts):
                        out = []
                        for s_ in stmts:
                            if s_ is d0:
                                continue
                            for fld in ('body', 'orelse', 'finalbody'):
                                b = getattr(s_, fld, None)
                                if isinstance(b, list) and b and isinstance(b[0], ast.stmt):
                                    setattr(s_, fld, drop2(b) or [ast.copy_location(ast.Pass(), s_)])
                            for h in getattr(s_, 'handlers', []) or []:
                                h.body = drop2(h.body) or [ast.copy_location(ast.Pass(), h)]
                            out.append(s_)
                        return out
                    fn.body = drop2(fn.body)
                    norm_.inlined.append(('**dict', fn.name, 'spread'))

        class G(ast.NodeTransformer):
            def visit_Call(self_, c):
                self_.generic_visit(c)
                if isinstance(c.func, ast.Name) and c.func.id == 'getattr' and len(c.args) == 2 and not c.keywords and isinstance(c.args[1], ast.Constant) and \
                        isinstance(c.args[1].value, str) and c.args[1].value.isidentifier():
                    norm_.inlined.append(('getattr constant', '', 'to-attribute'))
                    return ast.copy_location(ast.Attribute(value=c.args[0], attr=c.args[1].value, ctx=ast.Load()), c)
                return c
        for t in self.trees.values():
            G().visit(t)

    def _alias_of_renamed_def(self):
        """`def f__iN(..): ..` followed by `x = f__iN` (left by inlining a helper that returns a nested function): the function is x"""
        pat = re.compile(r'__i\d+$')
        for t in self.trees.values():
            for fn in [n for n in ast.walk(t) if isinstance(n, ast.FunctionDef)]:
                for holder in ast.walk(fn):
                    for fld in ('body', 'orelse', 'finalbody'):
                        b = getattr(holder, fld, None)
                        if not (isinstance(b, list) and b and isinstance(b[0], ast.stmt)):
                            continue
                        for d in [x for x in b if isinstance(x, ast.FunctionDef) and pat.search(x.name)]:
                            uses = [x for x in ast.walk(fn) if isinstance(x, ast.Name) and x.id == d.name]
                            al = [x for x in b if isinstance(x, ast.Assign) and len(x.targets) == 1 and isinstance(x.targets[0], ast.Name) and
                                  isinstance(x.value, ast.Name) and x.value.id == d.name]
                            if len(uses) != 1 or len(al) != 1:
                                continue
                            new = al[0].targets[0].id
                            other_stores = [x for x in ast.walk(fn) if isinstance(x, ast.Name) and x.id == new and isinstance(x.ctx, ast.Store) and x is not al[0].targets[0]]
                            if other_stores or any(isinstance(x, ast.FunctionDef) and x.name == new for x in ast.walk(fn)):
                                continue
                            d.name = new
                            b.remove(al[0])
                            self.inlined.append((new, fn.name, 'def-alias'))

    def _apply_lambda_locals(self):
        """a local bound once to `lambda p..: e` (plain parameters) whose every use is a call with names / constants for them: each call is
        e with the arguments put in (a lambda reads its free variables when called, which is where the expression now stands)"""
        for t in self.trees.values():
            for fn in [n for n in ast.walk(t) if isinstance(n, ast.FunctionDef)]:
                for b in [n for n in ast.walk(fn) if isinstance(n, ast.Assign) and len(n.targets) == 1 and isinstance(n.targets[0], ast.Name) and isinstance(n.value, ast.Lambda)]:
                    nm = b.targets[0].id
                    lam = b.value
                    a_ = lam.args
                    if a_.vararg or a_.kwarg or a_.kwonlyargs or a_.posonlyargs or a_.defaults:
                        continue
                    names = [x for x in ast.walk(fn) if isinstance(x, ast.Name) and x.id == nm]
                    calls = [c for c in ast.walk(fn) if isinstance(c, ast.Call) and isinstance(c.func, ast.Name) and c.func.id == nm]
                    prm = [x.arg for x in a_.args]
                    if len(names) != 1 + len(calls) or not calls or any(
                            c.keywords or len(c.args) != len(prm) or not all(isinstance(x, (ast.Name, ast.Constant)) for x in c.args) for c in calls):
                        continue
                    if any(isinstance(x, (ast.NamedExpr, ast.Yield, ast.YieldFrom, ast.Await)) for x in ast.walk(lam.body)):
                        continue
                    # free variables of the lambda must not be rebound between the definition and the calls: require single binding in fn
                    free = {x.id for x in ast.walk(lam.body) if isinstance(x, ast.Name)} - set(prm)
                    stores = {}
                    for x in ast.walk(fn):
                        if isinstance(x, ast.Name) and isinstance(x.ctx, ast.Store):
                            stores[x.id] = stores.get(x.id, 0) + 1
                    if any(stores.get(f, 0) > 1 for f in free):
                        continue

                    class R(ast.NodeTransformer):
                        def visit_Call(self_, c):
                            self_.generic_visit(c)
                            if any(c is k for k in calls):
                                bind = dict(zip(prm, c.args))

                                class S(ast.NodeTransformer):
                                    def visit_Name(s__, n):
                                        return copy.deepcopy(bind[n.id]) if isinstance(n.ctx, ast.Load) and n.id in bind else n
                                return ast.copy_location(S().visit(copy.deepcopy(lam.body)), c)
                            return c
                    R().visit(fn)

                    def drop(stmts):
                        out = []
                        for s_ in stmts:
                            if s_ is b:
                                continue
                            for fld in ('body', 'orelse', 'finalbody'):
                                bb = getattr(s_, fld, None)
                                if isinstance(bb, list) and bb and isinstance(bb[0], ast.stmt):
                                    setattr(s_, fld, drop(bb) or [ast.copy_location(ast.Pass(), s_)])
                            for h in getattr(s_, 'handlers', []) or []:
                                h.body = drop(h.body) or [ast.copy_location(ast.Pass(), h)]
                            out.append(s_)
                        return out
                    fn.body = drop(fn.body)
                    self.inlined.append((nm, fn.name, 'lambda-applied'))

    def _merge_conditional_calls(self):
        """`f(args) if c else g(args)` (same argument expressions) -> `(f if c else g)(args)`: test, callee, arguments are evaluated in
        the same order in both forms; one canonical form for the rules that resolve a conditional callee"""
        norm_ = self

        class T(ast.NodeTransformer):
            def visit_IfExp(self_, n):
                self_.generic_visit(n)
                a, b = n.body, n.orelse
                if isinstance(a, ast.Call) and isinstance(b, ast.Call) and isinstance(a.func, ast.Attribute) and isinstance(b.func, ast.Attribute) and \
                        [ast.dump(x) for x in a.args] == [ast.dump(x) for x in b.args] and \
                        [(k.arg, ast.dump(k.value)) for k in a.keywords] == [(k.arg, ast.dump(k.value)) for k in b.keywords] and \
                        ast.dump(a.func) != ast.dump(b.func):
                    norm_.inlined.append(('conditional call', 'same arguments', 'to-conditional-callee'))
                    return ast.copy_location(ast.Call(func=ast.IfExp(test=n.test, body=a.func, orelse=b.func), args=a.args, keywords=a.keywords), n)
                return n
        for t in self.trees.values():
            T().visit(t)

    def _outline(self):
        """pinned functions that were inlined into their callers are taken out again where a rule needs them as a unit"""
        from .outline import outline_roles
        self.outlined = outline_roles(self.trees, pinned_signatures())
        for name, host in self.outlined:
            self.inlined.append((name, host, 'outlined'))

    def _ifs_to_conditional_expressions(self):
        """`if c: T = a else: T = b` (one plain assignment to the same target on each side) -> `T = a if c else b`: one form for the
        rules, whichever way the code is written"""
        n_ = 0
        for t in self.trees.values():
            for holder in ast.walk(t):
                for fld in ('body', 'orelse', 'finalbody'):
                    b = getattr(holder, fld, None)
                    if not (isinstance(b, list) and b and isinstance(b[0], ast.stmt)):
                        continue
                    for i, s in enumerate(b):
                        if isinstance(s, ast.If) and len(s.body) == 1 and len(s.orelse) == 1 and isinstance(s.body[0], ast.Assign) and \
                                isinstance(s.orelse[0], ast.Assign) and len(s.body[0].targets) == 1 and len(s.orelse[0].targets) == 1 and \
                                _same(s.body[0].targets[0], s.orelse[0].targets[0]) and not isinstance(s.body[0].targets[0], (ast.Tuple, ast.List)):
                            b[i] = ast.copy_location(ast.Assign(targets=s.body[0].targets,
                                                                value=ast.IfExp(test=s.test, body=s.body[0].value, orelse=s.orelse[0].value)), s)
                            n_ += 1
                        # `if not x: x = e`  ->  `x = x or e`
                        elif isinstance(s, ast.If) and not s.orelse and len(s.body) == 1 and isinstance(s.body[0], ast.Assign) and \
                                len(s.body[0].targets) == 1 and isinstance(s.body[0].targets[0], ast.Name) and \
                                isinstance(s.test, ast.UnaryOp) and isinstance(s.test.op, ast.Not) and isinstance(s.test.operand, ast.Name) and \
                                s.test.operand.id == s.body[0].targets[0].id:
                            x = s.body[0].targets[0].id
                            b[i] = ast.copy_location(ast.Assign(targets=s.body[0].targets, value=ast.BoolOp(
                                op=ast.Or(), values=[ast.Name(id=x, ctx=ast.Load()), s.body[0].value])), s)
                            n_ += 1
        if n_:
            self.inlined.append(('if/else assignments', str(n_), 'to-conditional-expression'))
        # `while True: if c: S; break` + REST  ->  `while not c: REST` followed by S (the guard is the loop's only exit)
        w_ = 0
        for t in self.trees.values():
            for holder in ast.walk(t):
                for fld in ('body', 'orelse', 'finalbody'):
                    b = getattr(holder, fld, None)
                    if not (isinstance(b, list) and b and isinstance(b[0], ast.stmt)):
                        continue
                    i = 0
                    while i < len(b):
                        s = b[i]
                        # the guard's test kept in an explaining variable read by the guard alone: `x = c; if x: break` is `if c: break`
                        if isinstance(s, ast.While) and isinstance(s.test, ast.Constant) and s.test.value is True and len(s.body) >= 2 and \
                                isinstance(s.body[0], ast.Assign) and len(s.body[0].targets) == 1 and isinstance(s.body[0].targets[0], ast.Name) and \
                                isinstance(s.body[1], ast.If):
                            x_ = s.body[0].targets[0].id
                            tst = s.body[1].test
                            inner = tst.operand if isinstance(tst, ast.UnaryOp) and isinstance(tst.op, ast.Not) else tst
                            fn_ = next((f_ for f_ in ast.walk(t) if isinstance(f_, ast.FunctionDef) and any(y is s for y in ast.walk(f_))), None)
                            if isinstance(inner, ast.Name) and inner.id == x_ and fn_ is not None and \
                                    sum(1 for y in ast.walk(fn_) if isinstance(y, ast.Name) and y.id == x_) == 2:
                                if inner is tst:
                                    s.body[1].test = s.body[0].value
                                else:
                                    tst.operand = s.body[0].value
                                del s.body[0]
                        if isinstance(s, ast.While) and isinstance(s.test, ast.Constant) and s.test.value is True and not s.orelse and s.body and \
                                isinstance(s.body[0], ast.If) and not s.body[0].orelse and s.body[0].body and isinstance(s.body[0].body[-1], ast.Break):
                            g = s.body[0]

                            def own_breaks(stmts):
                                out = []
                                for x in stmts:
                                    if isinstance(x, (ast.Break, ast.Return)):
                                        out.append(x)
                                    elif isinstance(x, (ast.For, ast.While, ast.FunctionDef)):
                                        out.extend(y for y in ast.walk(x) if isinstance(y, ast.Return))
                                    else:
                                        for f2 in ('body', 'orelse', 'finalbody', 'handlers'):
                                            sub = getattr(x, f2, None)
                                            if isinstance(sub, list):
                                                for y in sub:
                                                    out.extend(own_breaks(y.body if isinstance(y, ast.ExceptHandler) else [y]))
                                return out
                            # a bare `if c: break` guard is the loop condition whatever other exits the body has; with statements before the
                            # break (run only on that exit) the guard has to be the loop's only exit
                            if (len(g.body) == 1 or len(own_breaks(s.body)) == 1) and not any(isinstance(y, (ast.Continue,)) for x in g.body for y in ast.walk(x)):
                                new_loop = ast.copy_location(ast.While(test=_negate(g.test), body=s.body[1:] or [ast.Pass()], orelse=[]), s)
                                b[i:i + 1] = [new_loop] + g.body[:-1]
                                w_ += 1
                        i += 1
        if w_:
            self.inlined.append(('while True / break', str(w_), 'to-while-condition'))

    def _propagate_temporaries(self):
        """`tmp__iN = name` introduced by inlining, where `name` is bound once in the function: tmp is that name"""
        import re
        pat = re.compile(r'__i\d+$')
        for t in self.trees.values():
            for fn in [n for n in ast.walk(t) if isinstance(n, ast.FunctionDef)]:
                stores = {}
                for n in ast.walk(fn):
                    if isinstance(n, ast.Name) and isinstance(n.ctx, (ast.Store, ast.Del)):
                        stores[n.id] = stores.get(n.id, 0) + 1
                    elif isinstance(n, ast.arg):
                        stores[n.arg] = stores.get(n.arg, 0) + 1
                    elif isinstance(n, ast.ExceptHandler) and n.name:
                        stores[n.name] = stores.get(n.name, 0) + 2       # rebound and deleted
                in_loop_stores = set()
                for l in ast.walk(fn):
                    if isinstance(l, (ast.For, ast.While)):
                        for n in ast.walk(l):
                            if isinstance(n, ast.Name) and isinstance(n.ctx, ast.Store):
                                in_loop_stores.add(n.id)
                for holder in ast.walk(fn):
                    for fld in ('body', 'orelse', 'finalbody'):
                        b = getattr(holder, fld, None)
                        if not (isinstance(b, list) and b and isinstance(b[0], ast.stmt)):
                            continue
                        for s in list(b):
                            if isinstance(s, ast.Assign) and len(s.targets) == 1 and isinstance(s.targets[0], ast.Name) and \
                                    pat.search(s.targets[0].id) and isinstance(s.value, ast.Name) and stores.get(s.targets[0].id) == 1 and \
                                    stores.get(s.value.id, 0) == 1 and s.value.id not in in_loop_stores:
                                tmp, src = s.targets[0].id, s.value.id
                                for n in ast.walk(fn):
                                    if isinstance(n, ast.Name) and n.id == tmp and isinstance(n.ctx, ast.Load):
                                        n.id = src
                                b.remove(s)
                                if not b:
                                    b.append(ast.copy_location(ast.Pass(), s))

    def _collect_refresh(self):
        # helper bodies may themselves have changed (nested helpers inlined): recompute their summaries
        for key, h in list(self.helpers.items()):
            nh = Helper(h.module, h.cls, h.fn)
            if nh.ok:
                self.helpers[key] = nh
            else:
                del self.helpers[key]

    def _drop_unused(self):
        used = set()
        for t in self.trees.values():
            for n in ast.walk(t):
                if isinstance(n, ast.Attribute):
                    used.add(n.attr)
                elif isinstance(n, ast.Name):
                    used.add(n.id)
                elif isinstance(n, ast.Constant) and isinstance(n.value, str):
                    used.add(n.value)
        self.removed = []
        inl = {x[0] for x in self.inlined}
        for (mn_, cn_, name), h in self.helpers.items():
            if name in used or name not in inl:
                continue
            owner = h.cls.body if h.cls is not None else self.trees[h.module].body
            if h.fn in owner:
                owner.remove(h.fn)
                if not owner:
                    owner.append(ast.Pass())
                self.removed.append(name)


def _same_load(t, v):
    if isinstance(t, ast.Name) and isinstance(v, ast.Name):
        return t.id == v.id
    if isinstance(t, ast.Tuple) and isinstance(v, ast.Tuple) and len(t.elts) == len(v.elts):
        return all(_same_load(a, b) for a, b in zip(t.elts, v.elts))
    return False


def normalise(trees):
    return Normaliser(trees, pinned_names()).run()
