"""Inline-method variants: for one private function of the package, the tree in which that function is inlined into its callers by
the analyser's own exact inliner (run with that one name treated as "new") and removed where no caller is left.  Used by
tools/inline_sweep.py and by the thorough tier (every variant is behaviour-preserving; a check must stay silent on it or, for the
functions listed in UNMODELLED, say that the shape is not modelled - never report a violation)."""
import ast
import os
import shutil

from . import normalise as N

# names the existing tests patch or call: removing them changes the suite result, so their variants are not neutral
TEST_PINNED = {'_create_new_player_process', '_extract_recorded_output', '_kill_compare_process', '_play_and_compare_recording',
               '_save_recording', '_set_data', '_add_metadata'}
# functions whose inlining dissolves a unit the recorder / async rules are written for (several call sites: the body is duplicated);
# the checks answer ANALYSIS-ERROR (exit 2) on these variants, which is the documented behaviour for a lost anchor
UNMODELLED = {
    '_execute_func_and_record_interception': 'interception executor duplicated into the input and output decorators',
    '_execute_operation_func': 'operation executor duplicated into both branches of the operation decorator',
    '_intercept_input': 'decorator factory duplicated into the two public decorators',
    '_intercept_output': 'decorator factory duplicated into the two public decorators',
    '_operation': 'decorator factory duplicated into the two public decorators',
    '_playback_recorded_interception': 'replay reader duplicated into the input and output decorators',
    '_record_data': 'store primitive duplicated into four callers',
    '_record_output': 'output recorder duplicated into three callers',
    '_flush_recording': 'flush routine duplicated into the thread loop (periodic and final flush)',
}


def load(repo):
    trees, paths = {}, {}
    for dp, dn, fn in os.walk(os.path.join(repo, 'playback')):
        for f in fn:
            if f.endswith('.py'):
                p = os.path.join(dp, f)
                mn = os.path.relpath(p, repo)[:-3].replace('/', '.')
                trees[mn] = ast.parse(open(p, encoding='utf-8').read())
                paths[mn] = p
    return trees, paths


def candidates(repo):
    trees, _ = load(repo)
    out = []
    for mn, t in trees.items():
        for s in t.body:
            if isinstance(s, ast.FunctionDef) and s.name.startswith('_') and not s.name.startswith('__'):
                out.append(s.name)
            if isinstance(s, ast.ClassDef):
                for m in s.body:
                    if isinstance(m, ast.FunctionDef) and m.name.startswith('_') and not m.name.startswith('__'):
                        out.append(m.name)
    return sorted(set(out))


def make_variant(repo, name, dst):
    """returns (inlined sites, reason-if-none); dst is created only when something was inlined"""
    trees, paths = load(repo)
    before = {mn: ast.dump(t) for mn, t in trees.items()}
    nz = N.Normaliser(trees, set(N.pinned_names()) - {name}, inline_only=True).run()
    sites = [x for x in nz.inlined if x[0] == name]
    if not sites:
        why = [x[2] for x in nz.skipped if x[0] == name]
        return [], (why[0] if why else 'not eligible (public use / decorated / generator / overridden / no call)')
    shutil.copytree(repo, dst, ignore=shutil.ignore_patterns('.git', '__pycache__', '*.pyc', '.pytest_cache'))
    n = 0
    for mn, t in trees.items():
        if ast.dump(t) != before[mn]:
            ast.fix_missing_locations(t)
            with open(os.path.join(dst, os.path.relpath(paths[mn], repo)), 'w', encoding='utf-8') as f:
                f.write(ast.unparse(t) + '\n')
            n += 1
    return sites, None
