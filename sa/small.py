"""Path-sensitive analysis of one small function (all facts tracked): used for decision tables."""
from .cfg import Builder
from .flow import Domain, State
from .resolve import RepoPolicy


class SmallDomain(Domain):
    def __init__(self, *a, **kw):
        self.count = kw.pop('count', lambda label: False)
        Domain.__init__(self, *a, **kw)
        self.exits = []
        self.calls = []

    def on_exit(self, node, state):
        self.exits.append((node, state))

    def on_call_attempt(self, node, t, state):
        if self.count(t.label):
            state = state.bump(('n', t.label))
        self.calls.append((node, t, state))
        return state

    def on_call(self, node, t, args, state):
        if t.role == 'dead':
            return None
        return state

    def n(self, state, label):
        return state.extra.get(('n', label), 0)

    def rv(self, state):
        return state.env.get(('RV', self.g.root.id))


def analyse(repo, excm, func, policy=None, self_cls=None, count=None, domain=SmallDomain, deps=False, **kw):
    pol = policy or RepoPolicy(repo, excm)
    b = Builder(repo, excm, pol)
    g = b.build_root(func, self_cls=self_cls or func.cls)
    old = State.strip_deps
    State.strip_deps = not deps
    try:
        dom = domain(g, repo, excm, pol, count=count or (lambda l: False), **kw)
        dom.builder = b
        dom.run()
    finally:
        State.strip_deps = old
    return dom
