#!/usr/bin/env python3
"""Entry point: python3-vt sa/check.py <Cxx> --tier quick|thorough [--repo /repo]

Exit codes: 0 property's decided clauses hold (known findings printed), 1 unlisted violation,
2 ANALYSIS-ERROR (anchor lost, instance floor not met, internal error) - never a silent pass.
"""
import argparse
import importlib
import json
import os
import sys
import time
import traceback

HERE = os.path.dirname(os.path.abspath(__file__))
sys.path.insert(0, os.path.dirname(HERE))

from sa.loader import Repo, AnalysisError          # noqa: E402
from sa import report                               # noqa: E402

PROPS = ['C%02d' % i for i in range(1, 21)]


class Context(object):
    def __init__(self, repo_root, tier, seed):
        self.repo_root = repo_root
        self.tier = tier
        self.seed = seed
        self.repo = Repo(repo_root)
        self._cache = {}

    def get(self, key, make):
        if key not in self._cache:
            self._cache[key] = make()
        return self._cache[key]

    @property
    def roles(self):
        from sa.recorder import RecorderRoles
        return self.get('roles', lambda: RecorderRoles(self.repo))

    def excm(self, scope_modules=None):
        from sa.exc import ExcModel
        key = ('excm', tuple(sorted(scope_modules)) if scope_modules else None)
        if scope_modules is None:
            return self.get(key, lambda: ExcModel(self.repo))
        mods = set(scope_modules)
        return self.get(key, lambda: ExcModel(self.repo, lambda f: f.module.name in mods))

    @property
    def summaries(self):
        from sa.summaries import Summaries
        return self.get('summaries', lambda: Summaries(self.repo, self.excm()))


def run_property(prop, repo_root, tier, seed, evidence_dir=None, quiet=False):
    t0 = time.time()
    ctx = Context(repo_root, tier, seed)
    mod = importlib.import_module('sa.rules.%s' % prop.lower())
    report.LAST_RESULT[0] = None
    try:
        result = mod.run(ctx)
        for c in result.clauses:
            if c.obligations < c.floor:
                raise AnalysisError('instance floor not met: clause %s bound to %d constructs, floor %d (%s)' % (
                    c.id, c.obligations, c.floor, c.title))
    except Exception as ex:
        # a later clause could not bind to the tree; violations already established by earlier clauses stand on their own
        partial = report.LAST_RESULT[0]
        known = report.load_known()
        if partial is None or partial.prop != prop or not any(report.match_known(f, known) is None for f in partial.findings):
            raise
        partial.not_decided.append('analysis stopped early: %s' % ex)
        partial.clauses = [c for c in partial.clauses if c.obligations >= c.floor]
        result = partial
        print('NOTE %s: %s -- reporting the violations established before that point' % (prop, ex))
    wall = time.time() - t0
    return report.emit(result, tier, seed, wall, repo_root, ctx.repo.stats(), evidence_dir=evidence_dir, quiet=quiet)


def explain(path):
    with open(path) as f:
        d = json.load(f)
    print('%s %s (%s) in %s:%s %s' % (d['property'], d['clause'], d['rule_kind'], d['file'], d['line'], d['function']))
    print('  construct: %s' % d['construct'])
    print('  %s' % d['message'])
    for st in d.get('witness_path') or []:
        print('   ', st)
    prop = d['property']
    print('re-running %s on the current tree:' % prop)
    return run_property(prop, d.get('repo', '/repo'), d.get('tier', 'quick'), 0,
                        evidence_dir=os.path.join('/tmp', 'verif-explain-%d' % os.getpid()))


def main(argv=None):
    import signal
    try:
        signal.signal(signal.SIGPIPE, signal.SIG_DFL)
    except Exception:
        pass
    ap = argparse.ArgumentParser()
    ap.add_argument('prop', nargs='?')
    ap.add_argument('--tier', default=os.environ.get('VERIF_TIER', 'quick'), choices=['quick', 'thorough'])
    ap.add_argument('--repo', default=os.environ.get('VERIF_REPO', '/repo'))
    ap.add_argument('--explain')
    ap.add_argument('--all', action='store_true')
    ap.add_argument('--evidence-dir')
    args = ap.parse_args(argv)
    seed = int(os.environ.get('VERIF_SEED', '0') or 0)
    try:
        if args.explain:
            return explain(args.explain)
        props = PROPS if args.all else [args.prop]
        rc = 0
        for p in props:
            if p not in PROPS:
                print('ANALYSIS-ERROR unknown property %s' % p)
                return 2
            r = run_property(p, args.repo, args.tier, seed, evidence_dir=args.evidence_dir)
            if args.tier == 'thorough' and r == 0:
                from sa import thorough
                r = thorough.run(p, args.repo, seed, evidence_dir=args.evidence_dir)
            rc = max(rc, r)
        return rc
    except AnalysisError as ex:
        print('ANALYSIS-ERROR %s' % ex)
        return 2
    except Exception as ex:      # never let a traceback look like a violation
        traceback.print_exc()
        print('ANALYSIS-ERROR internal: %s: %s' % (type(ex).__name__, ex))
        return 2


if __name__ == '__main__':
    sys.exit(main())
