"""Programmatic breaking variants: ast mutations located by role / public name (never by line or text), each with the
properties whose check must report it. Used by the thorough tier's self-validation: unlike stored patches they keep
applying after the tree is reformatted or refactored. Every mutation is a realistic regression that keeps the package
importable (most of them also keep the 105 existing tests green - see DESIGN.md Appendix A)."""
import ast
import os

from .loader import Repo
from .recorder import RecorderRoles, _self_attr


def _rewrite(root, relpath, mutate):
    """parse file, let `mutate(tree)` change it in place and return the number of changes, write back"""
    p = os.path.join(root, relpath)
    src = open(p).read()
    tree = ast.parse(src)
    n = mutate(tree)
    if n:
        open(p, 'w').write(ast.unparse(ast.fix_missing_locations(tree)) + '\n')
    return n


def _find_func(tree, qualname):
    parts = qualname.split('.')
    node = tree
    for part in parts:
        found = None
        for ch in ast.walk(node):
            if isinstance(ch, (ast.FunctionDef, ast.ClassDef)) and ch.name == part and ch is not node:
                found = ch
                break
        if found is None:
            return None
        node = found
    return node


def _roles(root):
    return RecorderRoles(Repo(root))


def _in_func(root, func, mutate_fn):
    """apply mutate_fn(funcdef_node) inside the file of `func` (a FuncInfo located on the copy)"""
    def m(tree):
        node = _find_func(tree, func.qualname)
        return mutate_fn(node) if node is not None else 0
    return _rewrite(root, func.file, m)


# ------------------------------------------------------------------ recorder mutations
def reader_returns_exception(root):
    r = _roles(root)

    def mut(fn):
        n = 0
        for x in ast.walk(fn):
            for fld in ('body', 'orelse'):
                body = getattr(x, fld, None)
                if isinstance(body, list):
                    for i, s in enumerate(body):
                        if isinstance(s, ast.Raise) and isinstance(s.exc, ast.Subscript):
                            body[i] = ast.copy_location(ast.Return(value=s.exc), s)
                            n += 1
        return n
    return _in_func(root, r.reader, mut)


def ordinal_before_increment(root):
    r = _roles(root)
    cl = r.closures['output'][2]

    def mut(fn):
        body = fn.body
        for i, s in enumerate(body):
            if isinstance(s, ast.AugAssign) and isinstance(s.target, ast.Subscript) and _self_attr(s.target.value) == r.counter:
                if i + 1 < len(body) and isinstance(body[i + 1], ast.Assign):
                    body[i], body[i + 1] = body[i + 1], body[i]
                    return 1
        return 0
    return _in_func(root, cl, mut)


def reraise_as_new_exception(root):
    r = _roles(root)

    def mut(fn):
        for h in [x for x in ast.walk(fn) if isinstance(x, ast.ExceptHandler) and x.name]:
            for i, s in enumerate(h.body):
                if isinstance(s, ast.Raise) and s.exc is None:
                    h.body[i] = ast.parse('raise Exception(str(%s))' % h.name).body[0]
                    return 1
        return 0
    return _in_func(root, r.executor, mut)


def drop_exception_envelope(root):
    r = _roles(root)

    def mut(fn):
        for h in [x for x in ast.walk(fn) if isinstance(x, ast.ExceptHandler)]:
            for i, s in enumerate(h.body):
                if isinstance(s, ast.If) and any(isinstance(c, ast.Call) and isinstance(c.func, ast.Attribute) and c.func.attr == '_record_data' for c in ast.walk(s)):
                    h.body[i] = ast.Pass()
                    return 1
        return 0
    return _in_func(root, r.executor, mut)


def drop_sorted_kwargs(root):
    r = _roles(root)

    class T(ast.NodeTransformer):
        n = 0

        def visit_Call(self, node):
            self.generic_visit(node)
            if isinstance(node.func, ast.Name) and node.func.id == 'sorted' and node.args:
                self.n += 1
                return node.args[0]
            return node

    def mut(fn):
        t = T()
        t.visit(fn)
        return t.n
    return _in_func(root, r.key_builders['input'], mut)


def strip_instance_for_static(root):
    r = _roles(root)

    class T(ast.NodeTransformer):
        n = 0

        def visit_IfExp(self, node):
            self.generic_visit(node)
            if any(isinstance(x, ast.Name) and x.id == 'static_function' for x in ast.walk(node.test)):
                self.n += 1
                # always the sliced arm
                arm = node.body if isinstance(node.body, ast.Subscript) else node.orelse
                return arm
            return node

    def mut(fn):
        t = T()
        t.visit(fn)
        return t.n
    return _in_func(root, r.key_builders['input'], mut)


def _finally_to_straightline(fn, pred=None):
    n = 0
    for x in ast.walk(fn):
        for fld in ('body', 'orelse', 'finalbody'):
            body = getattr(x, fld, None)
            if isinstance(body, list):
                for i, s in enumerate(body):
                    if isinstance(s, ast.Try) and s.finalbody and (pred is None or pred(s)):
                        fin = s.finalbody
                        s.finalbody = []
                        if not s.handlers:
                            body[i:i + 1] = s.body + fin
                        else:
                            body[i:i + 1] = [s] + fin
                        n += 1
                        return n
    return n


def play_finally_to_straightline(root):
    r = _roles(root)
    return _in_func(root, r.play, _finally_to_straightline)


def interception_flag_restored_on_normal_edge_only(root):
    r = _roles(root)
    if r.interception_cm is None:
        return 0
    return _in_func(root, r.interception_cm, _finally_to_straightline)


def play_extracts_with_direct_access(root):
    r = _roles(root)

    def mut(fn):
        for c in ast.walk(fn):
            if isinstance(c, ast.Call) and isinstance(c.func, ast.Attribute) and c.func.attr == r.extractor.name:
                c.keywords.append(ast.keyword(arg='direct_access', value=ast.Constant(value=True)))
                return 1
        return 0
    return _in_func(root, r.play, mut)


def second_draw(root):
    r = _roles(root)

    def mut(fn):
        for i, s in enumerate(fn.body):
            if isinstance(s, ast.Assign) and isinstance(s.value, ast.Call) and isinstance(s.value.func, ast.Attribute) and s.value.func.attr == 'random':
                fn.body.insert(i, ast.Expr(value=s.value))
                return 1
        return 0
    return _in_func(root, r.sampler, mut)


def exception_flag_catches_base(root):
    r = _roles(root)

    def mut(fn):
        for h in [x for x in ast.walk(fn) if isinstance(x, ast.ExceptHandler)]:
            if isinstance(h.type, ast.Name) and h.type.id == 'Exception' and any(isinstance(s, ast.Raise) and s.exc is None for s in h.body):
                h.type = ast.Name(id='BaseException', ctx=ast.Load())
                return 1
        return 0
    return _in_func(root, r.start, mut)


def discard_without_reset(root):
    r = _roles(root)

    def mut(fn):
        for x in ast.walk(fn):
            body = getattr(x, 'body', None)
            if isinstance(body, list):
                for i, s in enumerate(body):
                    if isinstance(s, ast.Expr) and isinstance(s.value, ast.Call) and _self_attr(s.value.func) == r.reset.name:
                        body[i] = ast.Pass()
                        return 1
        return 0
    return _in_func(root, r.discard, mut)


def save_outside_try(root):
    r = _roles(root)

    def mut(fn):
        for x in ast.walk(fn):
            for fld in ('body', 'orelse', 'finalbody'):
                body = getattr(x, fld, None)
                if isinstance(body, list):
                    for i, s in enumerate(body):
                        if isinstance(s, ast.Try) and not s.finalbody and any(
                                isinstance(c, ast.Call) and isinstance(c.func, ast.Attribute) and c.func.attr == 'save_recording' for b in s.body for c in ast.walk(b)):
                            body[i:i + 1] = s.body
                            return 1
        return 0
    return _in_func(root, r.start, mut)


def substitute_by_truthiness(root):
    r = _roles(root)
    cl = r.closures['input'][2]

    class T(ast.NodeTransformer):
        n = 0

        def visit_If(self, node):
            self.generic_visit(node)
            t = node.test
            if isinstance(t, ast.Compare) and isinstance(t.left, ast.Name) and t.left.id == 'value_when_missing' and isinstance(t.ops[0], ast.IsNot):
                node.test = t.left
                self.n += 1
            return node

    def mut(fn):
        t = T()
        t.visit(fn)
        return t.n
    return _in_func(root, cl, mut)


def executor_no_recheck_after_body(root):
    r = _roles(root)

    class T(ast.NodeTransformer):
        n = 0

        def visit_BoolOp(self, node):
            self.generic_visit(node)
            if isinstance(node.op, ast.And) and len(node.values) == 2 and any(
                    isinstance(v, ast.Compare) and _self_attr(v.left) == r.active for v in node.values):
                self.n += 1
                return [v for v in node.values if not (isinstance(v, ast.Compare) and _self_attr(v.left) == r.active)][0]
            return node

    def mut(fn):
        t = T()
        t.visit(fn)
        return t.n
    return _in_func(root, r.executor, mut)


def operation_checks_disabled_before_playback(root):
    r = _roles(root)
    cl = r.closures['operation'][2]

    def mut(fn):
        b = fn.body
        idx = [i for i, s in enumerate(b) if isinstance(s, ast.If)]
        if len(idx) >= 2 and idx[1] == idx[0] + 1:
            b[idx[0]], b[idx[1]] = b[idx[1]], b[idx[0]]
            return 1
        return 0
    return _in_func(root, cl, mut)


# ------------------------------------------------------------------ cassettes
def _method(root, cls, meth):
    repo = Repo(root)
    c = repo.find_class(cls)
    return c.lookup(meth) if c else None


def inmemory_unknown_id_returns_none(root):
    f = _method(root, 'InMemoryTapeCassette', 'get_recording')

    def mut(fn):
        for x in ast.walk(fn):
            body = getattr(x, 'body', None)
            if isinstance(body, list):
                for i, s in enumerate(body):
                    if isinstance(s, ast.Raise):
                        body[i] = ast.Return(value=ast.Constant(value=None))
                        return 1
        return 0
    return _in_func(root, f, mut) if f else 0


def limit_by_truthiness(root):
    f = _method(root, 'InMemoryTapeCassette', 'iter_recording_ids')

    class T(ast.NodeTransformer):
        n = 0

        def visit_If(self, node):
            self.generic_visit(node)
            t = node.test
            if isinstance(t, ast.Compare) and isinstance(t.left, ast.Name) and t.left.id == 'limit' and isinstance(t.ops[0], ast.IsNot):
                node.test = t.left
                self.n += 1
            return node

    def mut(fn):
        t = T()
        t.visit(fn)
        return t.n
    return _in_func(root, f, mut) if f else 0


def file_cassette_reads_other_encoding(root):
    f = _method(root, 'FileBasedTapeCassette', 'get_recording')

    def mut(fn):
        for c in ast.walk(fn):
            if isinstance(c, ast.Call):
                for k in c.keywords:
                    if k.arg == 'encoding' and isinstance(k.value, ast.Constant):
                        k.value = ast.Constant(value='latin-1')
                        return 1
        return 0
    return _in_func(root, f, mut) if f else 0


def matcher_none_rule_removed(root):
    repo = Repo(root)
    top = repo.method('TapeCassette', 'match_against_recorded_metadata')
    tc = repo.cls('TapeCassette')
    callees = [n.func.attr for n in ast.walk(top.node) if isinstance(n, ast.Call) and isinstance(n.func, ast.Attribute) and
               isinstance(n.func.value, ast.Name) and n.func.value.id == tc.name]
    vm = tc.lookup(callees[0])

    def mut(fn):
        for i, s in enumerate(fn.body):
            if isinstance(s, ast.If) and isinstance(s.test, ast.BoolOp) and any(
                    isinstance(v, ast.Compare) and isinstance(v.ops[0], ast.Is) for v in s.test.values):
                del fn.body[i]
                return 1
        return 0
    return _in_func(root, vm, mut)


def s3_close_guard_and(root):
    f = _method(root, 'S3TapeCassette', 'close')

    def mut(fn):
        for s in ast.walk(fn):
            if isinstance(s, ast.If) and isinstance(s.test, ast.BoolOp) and isinstance(s.test.op, ast.Or):
                s.test.op = ast.And()
                return 1
        return 0
    return _in_func(root, f, mut) if f else 0


def s3_swap_puts(root):
    f = _method(root, 'S3TapeCassette', '_save_recording')

    def mut(fn):
        idx = [i for i, s in enumerate(fn.body) if isinstance(s, ast.Expr) and isinstance(s.value, ast.Call) and
               isinstance(s.value.func, ast.Attribute) and s.value.func.attr == 'put_string']
        if len(idx) == 2:
            fn.body[idx[0]], fn.body[idx[1]] = fn.body[idx[1]], fn.body[idx[0]]
            return 1
        return 0
    return _in_func(root, f, mut) if f else 0


def s3_save_without_readonly_assert(root):
    f = _method(root, 'S3TapeCassette', '_save_recording')

    def mut(fn):
        for i, s in enumerate(fn.body):
            if isinstance(s, ast.Expr) and isinstance(s.value, ast.Call) and _self_attr(s.value.func) and 'read_only' in s.value.func.attr:
                del fn.body[i]
                return 1
        return 0
    return _in_func(root, f, mut) if f else 0


def s3_prefix_without_delimiter(root):
    f = _method(root, 'S3TapeCassette', '__init__')

    def mut(fn):
        for s in ast.walk(fn):
            if isinstance(s, ast.Assign) and _self_attr(s.targets[0]) == 'key_prefix' and isinstance(s.value, ast.IfExp):
                s.value = ast.Name(id='key_prefix', ctx=ast.Load())
                return 1
        return 0
    return _in_func(root, f, mut) if f else 0


def s3_day_span_raw(root):
    repo = Repo(root)
    c = repo.find_class('S3TapeCassette')
    f = None
    for m in c.methods.values():
        if m.name != 'create_new_recording' and any(_self_attr(n) == 'DAY_FORMAT' for n in ast.walk(m.node)):
            f = m

    class T(ast.NodeTransformer):
        n = 0

        def visit_Call(self, node):
            self.generic_visit(node)
            if isinstance(node.func, ast.Attribute) and node.func.attr == 'date' and not node.args:
                self.n += 1
                return node.func.value
            return node

    def mut(fn):
        t = T()
        t.visit(fn)
        return t.n
    return _in_func(root, f, mut) if f else 0


def facade_end_exclusive(root):
    f = _method(root, 'S3BasicFacade', 'iter_keys')

    def mut(fn):
        for c in ast.walk(fn):
            if isinstance(c, ast.Compare) and isinstance(c.ops[0], ast.LtE) and isinstance(c.left, ast.Attribute) and c.left.attr == 'last_modified':
                c.ops = [ast.Lt()]
                return 1
        return 0
    return _in_func(root, f, mut) if f else 0


# ------------------------------------------------------------------ async cassette / equalizer / files
def async_append_outside_lock(root):
    f = _method(root, 'AsyncRecordOnlyTapeCassette', '_add_async_operation')

    def mut(fn):
        for i, s in enumerate(fn.body):
            if isinstance(s, ast.With):
                fn.body[i:i + 1] = s.body
                return 1
        return 0
    return _in_func(root, f, mut) if f else 0


def async_execute_under_lock(root):
    f = _method(root, 'AsyncRecordOnlyTapeCassette', '_flush_recording')

    def mut(fn):
        w = [s for s in fn.body if isinstance(s, ast.With)]
        loops = [s for s in fn.body if isinstance(s, ast.For)]
        if w and loops:
            fn.body.remove(loops[0])
            w[0].body.append(loops[0])
            return 1
        return 0
    return _in_func(root, f, mut) if f else 0


def async_close_wrapped_before_join(root):
    f = _method(root, 'AsyncRecordOnlyTapeCassette', 'close')

    def mut(fn):
        idx = None
        for i, s in enumerate(fn.body):
            if isinstance(s, ast.Expr) and isinstance(s.value, ast.Call) and isinstance(s.value.func, ast.Attribute) and s.value.func.attr == 'close':
                idx = i
        tr = [i for i, s in enumerate(fn.body) if isinstance(s, ast.Try)]
        if idx is not None and tr:
            st = fn.body.pop(idx)
            fn.body.insert(tr[0], st)
            return 1
        return 0
    return _in_func(root, f, mut) if f else 0


def equalizer_timeout_without_kill(root):
    f = _method(root, 'Equalizer', '_handle_compare_execution_timeout')

    def mut(fn):
        for i, s in enumerate(fn.body):
            if isinstance(s, ast.If) and 'is_alive' in ast.unparse(s.test):
                del fn.body[i]
                return 1
        return 0
    return _in_func(root, f, mut) if f else 0


def equalizer_failure_not_yielded(root):
    f = _method(root, 'Equalizer', 'run_comparison')

    def mut(fn):
        for h in [x for x in ast.walk(fn) if isinstance(x, ast.ExceptHandler)]:
            for i, s in enumerate(h.body):
                if isinstance(s, ast.Expr) and isinstance(s.value, ast.Yield):
                    h.body[i] = ast.Continue()
                    return 1
        return 0
    return _in_func(root, f, mut) if f else 0


def equalizer_recycle_gt(root):
    f = _method(root, 'Equalizer', '_create_or_recycle_player_process_if_needed')

    def mut(fn):
        for c in ast.walk(fn):
            if isinstance(c, ast.Compare) and isinstance(c.ops[0], ast.GtE):
                c.ops = [ast.Gt()]
                return 1
        return 0
    return _in_func(root, f, mut) if f else 0


def equalizer_shared_queues(root):
    f = _method(root, 'Equalizer', '_create_new_player_process')

    def mut(fn):
        n = 0
        for s in list(fn.body):
            if isinstance(s, ast.Assign) and isinstance(s.value, ast.Call) and ast.unparse(s.value.func).endswith('Queue'):
                fn.body.remove(s)
                n += 1
        return n
    return _in_func(root, f, mut) if f else 0


def file_limit_gte(root):
    f = _method(root, 'FileInterception', '_is_file_above_size_limit')

    def mut(fn):
        for c in ast.walk(fn):
            if isinstance(c, ast.Compare) and isinstance(c.ops[0], ast.Gt):
                c.ops = [ast.GtE()]
                return 1
        return 0
    return _in_func(root, f, mut) if f else 0


def file_restore_text_mode(root):
    f = _method(root, 'InputInterceptionFileDataHandler', 'restore_input_from_recording')

    def mut(fn):
        for c in ast.walk(fn):
            if isinstance(c, ast.Call) and isinstance(c.func, ast.Name) and c.func.id == 'open' and len(c.args) > 1 and isinstance(c.args[1], ast.Constant):
                c.args[1] = ast.Constant(value='w')
                return 1
        return 0
    return _in_func(root, f, mut) if f else 0


MUTANTS = [
    ('reader-returns-recorded-exception', ['C01'], reader_returns_exception),
    ('operation-tests-disabled-before-playback', ['C03'], operation_checks_disabled_before_playback),
    ('ordinal-read-before-increment', ['C03'], ordinal_before_increment),
    ('body-exception-reraised-as-new', ['C04'], reraise_as_new_exception),
    ('exception-envelope-not-recorded', ['C05', 'C01'], drop_exception_envelope),
    ('save-moved-out-of-try', ['C04'], save_outside_try),
    ('discard-without-reset', ['C05'], discard_without_reset),
    ('executor-no-recheck-after-body', ['C04'], executor_no_recheck_after_body),
    ('substitute-presence-by-truthiness', ['C02'], substitute_by_truthiness),
    ('kwargs-not-sorted', ['C06'], drop_sorted_kwargs),
    ('instance-stripped-for-static-inputs', ['C06'], strip_instance_for_static),
    ('play-finally-to-straight-line', ['C09', 'C01', 'C02', 'C03'], play_finally_to_straightline),
    ('interception-flag-restored-on-normal-edge-only', ['C09'], interception_flag_restored_on_normal_edge_only),
    ('play-extracts-with-direct-access', ['C11'], play_extracts_with_direct_access),
    ('second-random-draw', ['C17'], second_draw),
    ('exception-flag-handler-catches-baseexception', ['C18'], exception_flag_catches_base),
    ('inmemory-unknown-id-returns-none', ['C07'], inmemory_unknown_id_returns_none),
    ('limit-by-truthiness', ['C10'], limit_by_truthiness),
    ('file-cassette-reads-other-encoding', ['C07'], file_cassette_reads_other_encoding),
    ('matcher-none-rule-removed', ['C14'], matcher_none_rule_removed),
    ('s3-close-guard-or-to-and', ['C15'], s3_close_guard_and),
    ('s3-metadata-put-before-full-put', ['C15'], s3_swap_puts),
    ('s3-save-without-readonly-assert', ['C15'], s3_save_without_readonly_assert),
    ('s3-prefix-without-delimiter', ['C15'], s3_prefix_without_delimiter),
    ('s3-day-span-on-raw-datetimes', ['C16'], s3_day_span_raw),
    ('facade-end-bound-exclusive', ['C16'], facade_end_exclusive),
    ('async-append-outside-lock', ['C12'], async_append_outside_lock),
    ('async-execute-under-lock', ['C12'], async_execute_under_lock),
    ('async-close-wrapped-before-join', ['C12'], async_close_wrapped_before_join),
    ('equalizer-timeout-without-kill', ['C13'], equalizer_timeout_without_kill),
    ('equalizer-failure-not-yielded', ['C08'], equalizer_failure_not_yielded),
    ('equalizer-recycle-gt', ['C13'], equalizer_recycle_gt),
    ('equalizer-shared-queues', ['C08'], equalizer_shared_queues),
    ('file-limit-gte', ['C20'], file_limit_gte),
    ('file-restore-text-mode', ['C20'], file_restore_text_mode),
]
