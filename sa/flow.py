"""Path-sensitive propagation of abstract states over a cfg.Graph.

Abstract state = (env, facts, extra):
  env    access path -> abstract value V   (locals per frame, fields per object, call results)
  facts  symbol name -> (is_none, truthy)   each in {True, False, None=unknown}; refined at branches
  extra  rule-specific data (saturating counters, flags, provenance notes)

The domain is finite (symbols are named by their static origin), joins are by set union of states per node,
so the fixpoint is exact for the abstraction: every reported (node, state) has a real CFG path, reconstructed
from predecessor links.
"""
import ast
import collections

from .loader import norm, AnalysisError

class V(object):
    """abstract value (immutable); hash cached because states are hashed on every propagation step"""
    __slots__ = ('kind', 'name', 'deps', '_h')

    def __init__(self, kind, name, deps=frozenset()):
        object.__setattr__(self, 'kind', kind)
        object.__setattr__(self, 'name', name)
        object.__setattr__(self, 'deps', deps)
        object.__setattr__(self, '_h', hash((kind, name, deps)))

    def __setattr__(self, k, v):
        raise AttributeError('immutable')

    def __hash__(self):
        return self._h

    def __eq__(self, other):
        return self is other or (isinstance(other, V) and self._h == other._h and self.kind == other.kind and
                                 self.name == other.name and self.deps == other.deps)

    def __ne__(self, other):
        return not self.__eq__(other)

    def _replace(self, **kw):
        return V(kw.get('kind', self.kind), kw.get('name', self.name), kw.get('deps', self.deps))

    def __repr__(self):
        return 'V(kind=%r, name=%r, deps=%r)' % (self.kind, self.name, self.deps)

    def __iter__(self):
        return iter((self.kind, self.name, self.deps))
NONE = V('none', None, frozenset())
TRUE = V('true', True, frozenset())
FALSE = V('false', False, frozenset())
EMPTY = frozenset()

MUTATING_METHODS = {'append', 'extend', 'update', 'pop', 'remove', 'clear', 'insert', 'setdefault', 'add', 'discard',
                    'popitem', 'sort', 'reverse'}


def _depth(n, d=0):
    if not isinstance(n, tuple) or d > 9:
        return d
    return max([_depth(x, d + 1) for x in n] or [d + 1])


def _mentions(name, inner, d=0):
    if name == inner:
        return True
    if isinstance(name, tuple) and d < 8:
        return any(_mentions(x, inner, d + 1) for x in name)
    return False


def const(v):
    if v is None:
        return NONE
    if v is True:
        return TRUE
    if v is False:
        return FALSE
    return V('const', v, EMPTY)


def sym(name, deps=EMPTY):
    return V('sym', name, frozenset(deps))


class TDict(dict):
    """dict that remembers the frozenset of its items until it is mutated (states are hashed on every step)"""
    __slots__ = ('fk',)

    def __init__(self, *a):
        dict.__init__(self, *a)
        self.fk = None

    def __setitem__(self, k, v):
        self.fk = None
        dict.__setitem__(self, k, v)

    def __delitem__(self, k):
        self.fk = None
        dict.__delitem__(self, k)

    def pop(self, *a):
        self.fk = None
        return dict.pop(self, *a)

    def update(self, *a, **kw):
        self.fk = None
        dict.update(self, *a, **kw)

    def clear(self):
        self.fk = None
        dict.clear(self)

    def setdefault(self, k, d=None):
        self.fk = None
        return dict.setdefault(self, k, d)

    def frozen(self):
        if self.fk is None:
            self.fk = frozenset(self.items())
        return self.fk

    def clone(self):
        n = TDict(self)
        n.fk = self.fk
        return n


class State(object):
    __slots__ = ('env', 'facts', 'extra', '_key')
    strip_deps = True

    def __init__(self, env=None, facts=None, extra=None):
        self.env = env if isinstance(env, TDict) else TDict(env or {})
        self.facts = facts if isinstance(facts, TDict) else TDict(facts or {})
        self.extra = extra if isinstance(extra, TDict) else TDict(extra or {})
        self._key = None

    def key(self):
        if self._key is None:
            self._key = (self.env.frozen(), self.facts.frozen(), self.extra.frozen())
        return self._key

    def copy(self):
        return State(self.env.clone(), self.facts.clone(), self.extra.clone())

    def set(self, path, value):
        s = self.copy()
        if State.strip_deps and value.deps:
            value = value._replace(deps=EMPTY)
        if _depth(value.name) > 7:
            # widening: names nest when a variable is redefined in terms of itself in a loop
            value = V('sym', ('widened',) + tuple(str(p) for p in path), value.deps)
        s.env[path] = value
        return s

    def with_extra(self, **kw):
        s = self.copy()
        s.extra.update(kw)
        return s

    def bump(self, name, sat=2):
        s = self.copy()
        s.extra[name] = min(s.extra.get(name, 0) + 1, sat)
        return s


class Domain(object):
    """Generic abstract semantics; rules subclass and override the on_* hooks."""

    def __init__(self, graph, repo, excm, policy):
        self.g = graph
        self.repo = repo
        self.excm = excm
        self.policy = policy
        self.violations = []       # (rule-id, node, state, message)
        self.visited_pairs = 0
        self._owner_cache = {}
        self._live_cache = {}

    # ------------------------------------------------------------------ hooks
    def initial_states(self):
        return [State()]

    def on_call(self, node, target, args, state):
        """opaque call about to complete normally; return state (or list of states)"""
        return state

    def call_result(self, node, target, args, kwargs, state):
        return None

    def on_stmt(self, node, state):
        return state

    def on_store(self, node, target_ast, base, value, state):
        """subscript / attribute store on a non-self object, or mutating method call"""
        return state

    def on_edge(self, node, label, dst, state):
        return state

    def on_exit(self, node, state):
        pass

    def on_node(self, node, state):
        pass

    def assume_test(self, node, state):
        """for rule-specific tests; return None to use the generic evaluation"""
        return None

    # ------------------------------------------------------------------ names
    def _locals_of(self, func):
        r = self._owner_cache.get(id(func))
        if r is None:
            from .loader import walk_own
            r = set(func.all_param_names)
            for n in walk_own(func.node):
                if isinstance(n, ast.Name) and isinstance(n.ctx, (ast.Store, ast.Del)):
                    r.add(n.id)
                elif isinstance(n, (ast.FunctionDef, ast.ClassDef)):
                    r.add(n.name)
                elif isinstance(n, ast.ExceptHandler) and n.name:
                    r.add(n.name)
            # comprehension variables are scoped to the comprehension; treat as locals too
            for n in walk_own(func.node):
                if isinstance(n, ast.comprehension):
                    for t in ast.walk(n.target):
                        if isinstance(t, ast.Name):
                            r.add(t.id)
            self._owner_cache[id(func)] = r
        return r

    def lookup_name(self, name, frame, state):
        func = frame.func
        if name in self._locals_of(func):
            v = state.env.get(('L', frame.id, name))
            if v is not None:
                return v
            if name in func.all_param_names:
                return self.free_symbol(func, name, frame)
            return sym(('undef', frame.id, name))
        # enclosing functions
        lex = frame.lexical
        f = func.parent
        while f is not None:
            if name in self._locals_of(f):
                fr = lex
                while fr is not None and fr.func is not f:
                    fr = fr.lexical
                if fr is not None:
                    v = state.env.get(('L', fr.id, name))
                    if v is not None:
                        return v
                return self.free_symbol(f, name, frame)
            f = f.parent
        mod = func.module
        if name in mod.classes:
            return V('class', name, EMPTY)
        if name in mod.functions:
            return V('func', mod.functions[name], EMPTY)
        if name in mod.imports:
            return V('global', mod.imports[name], EMPTY)
        if name in mod.globals:
            return V('global', mod.name + '.' + name, EMPTY)
        return V('builtin', name, EMPTY)

    def free_symbol(self, owner, name, frame):
        """value of a parameter / local of an enclosing (not inlined) function, or of the root's own parameters"""
        if owner.cls is not None and owner.params and name == owner.params[0] and not owner.is_static and owner.parent is None:
            return V('self', 'self', EMPTY)
        p = owner
        while p.parent is not None:
            p = p.parent
        if p.cls is not None and p.params and name == p.params[0] and not p.is_static and owner is p:
            return V('self', 'self', EMPTY)
        return sym(('free', owner.qualname, name), {'free:%s' % name})

    # ------------------------------------------------------------------ evaluation
    def eval(self, e, frame, state):
        if e is None:
            return NONE
        m = getattr(self, 'e_' + type(e).__name__, None)
        if m is not None:
            return m(e, frame, state)
        deps = set()
        for ch in ast.iter_child_nodes(e):
            if isinstance(ch, ast.expr):
                deps |= self.eval(ch, frame, state).deps
        return sym(('expr', frame.id, self.site(e)), deps)

    def site(self, e):
        s = getattr(e, '_site', None)
        if s is None:
            s = '%s@%s:%s' % (type(e).__name__, getattr(e, 'lineno', '?'), getattr(e, 'col_offset', '?'))
            try:
                e._site = s
            except Exception:
                pass
        return s

    def e_Constant(self, e, frame, state):
        return const(e.value)

    def e_Name(self, e, frame, state):
        return self.lookup_name(e.id, frame, state)

    def e_Attribute(self, e, frame, state):
        r = state.env.get(('R', frame.id, id(e)))
        if r is not None:
            return r
        base = self.eval(e.value, frame, state)
        if base.kind in ('self', 'sym', 'obj'):
            v = state.env.get(('F', base.name, e.attr))
            if v is not None:
                return v
            if base.kind == 'self':
                return sym(('field', base.name, e.attr), {'field:%s' % e.attr})
            return sym(('attr', base.name, e.attr), set(base.deps) | {'attr:%s' % e.attr})
        if base.kind == 'class':
            c = self.repo.find_class(base.name)
            if c is not None:
                k = c.lookup_const(e.attr)
                if k is not None and isinstance(k, ast.Constant):
                    return V('const', k.value, frozenset({'classconst:%s.%s' % (base.name, e.attr)}))
            return V('global', '%s.%s' % (base.name, e.attr), EMPTY)
        if base.kind == 'global':
            return V('global', '%s.%s' % (base.name, e.attr), EMPTY)
        return sym(('attr', base.name, e.attr), base.deps)

    def e_Call(self, e, frame, state):
        r = state.env.get(('R', frame.id, id(e)))
        if r is not None:
            return r
        deps = set()
        for a in e.args:
            deps |= self.eval(a.value if isinstance(a, ast.Starred) else a, frame, state).deps
        for k in e.keywords:
            deps |= self.eval(k.value, frame, state).deps
        return sym(('callexpr', frame.id, self.site(e)), deps | {'call:' + norm(e.func)})

    def e_Subscript(self, e, frame, state):
        base = self.eval(e.value, frame, state)
        idx = self.eval(e.slice, frame, state) if not isinstance(e.slice, ast.Slice) else None
        if idx is not None and idx.kind == 'const':
            tag = repr(idx.name)
            v = state.env.get(('S', base.name, tag))
            if v is not None:
                return v
        elif isinstance(e.slice, ast.Slice):
            tag = norm(e.slice)
        else:
            tag = '?'
        deps = set(base.deps) | {'sub:%s' % tag}
        if idx is not None:
            deps |= idx.deps
        return sym(('sub', base.name, tag, idx.name if idx is not None and idx.kind != 'const' else None), deps)

    def _container(self, e, elts, frame, state, kind):
        deps = set()
        for x in elts:
            if x is None:
                continue
            deps |= self.eval(x.value if isinstance(x, ast.Starred) else x, frame, state).deps
        return V('obj', ('lit', kind, frame.id, self.site(e), len(elts) == 0), frozenset(deps))

    def e_List(self, e, frame, state):
        return self._container(e, e.elts, frame, state, 'list')

    def e_Tuple(self, e, frame, state):
        return self._container(e, e.elts, frame, state, 'tuple')

    def e_Set(self, e, frame, state):
        return self._container(e, e.elts, frame, state, 'set')

    def e_Dict(self, e, frame, state):
        v = self._container(e, list(e.keys) + list(e.values), frame, state, 'dict')
        return v

    def e_BinOp(self, e, frame, state):
        l = self.eval(e.left, frame, state)
        r = self.eval(e.right, frame, state)
        return V('obj', ('binop', type(e.op).__name__, l.name, r.name), frozenset(set(l.deps) | set(r.deps)))

    def e_JoinedStr(self, e, frame, state):
        deps = set()
        for x in e.values:
            if isinstance(x, ast.FormattedValue):
                deps |= self.eval(x.value, frame, state).deps
        return V('obj', ('fstring', self.site(e)), frozenset(deps))

    def e_Lambda(self, e, frame, state):
        return V('closure', (id(e), frame.id), frozenset({'lambda@%s' % getattr(e, 'lineno', '?')}))

    def e_Starred(self, e, frame, state):
        return self.eval(e.value, frame, state)

    def e_UnaryOp(self, e, frame, state):
        v = self.eval(e.operand, frame, state)
        if isinstance(e.op, ast.Not):
            t = self.truth(v, state)
            if t is not None:
                return FALSE if t else TRUE
            return sym(('not', v.name), v.deps)
        return sym(('unary', type(e.op).__name__, v.name), v.deps)

    def e_BoolOp(self, e, frame, state):
        vals = [self.eval(x, frame, state) for x in e.values]
        deps = set()
        for v in vals:
            deps |= v.deps
        # short-circuit with known truthiness
        if isinstance(e.op, ast.Or):
            for v in vals[:-1]:
                t = self.truth(v, state)
                if t is True:
                    return v
                if t is None:
                    return sym(('boolop', 'or', tuple(x.name for x in vals)), deps)
            return vals[-1]
        for v in vals[:-1]:
            t = self.truth(v, state)
            if t is False:
                return v
            if t is None:
                return sym(('boolop', 'and', tuple(x.name for x in vals)), deps)
        return vals[-1]

    def e_Compare(self, e, frame, state):
        left = self.eval(e.left, frame, state)
        if len(e.ops) == 1:
            right = self.eval(e.comparators[0], frame, state)
            op = e.ops[0]
            if isinstance(op, (ast.Is, ast.IsNot)):
                if right.kind == 'none' or left.kind == 'none':
                    other = left if right.kind == 'none' else right
                    n = self.is_none(other, state)
                    if n is not None:
                        return const(n if isinstance(op, ast.Is) else not n)
                    return sym(('isnone' if isinstance(op, ast.Is) else 'notnone', other.name), other.deps)
            if isinstance(op, (ast.Eq, ast.NotEq)) and left.kind in ('const', 'none', 'true', 'false') and \
                    right.kind in ('const', 'none', 'true', 'false'):
                eq = left.name == right.name
                return const(eq if isinstance(op, ast.Eq) else not eq)
            return sym(('cmp', type(op).__name__, left.name, right.name), set(left.deps) | set(right.deps))
        deps = set(left.deps)
        names = [left.name]
        for c in e.comparators:
            v = self.eval(c, frame, state)
            deps |= v.deps
            names.append(v.name)
        return sym(('cmp', tuple(type(o).__name__ for o in e.ops), tuple(names)), deps)

    # ------------------------------------------------------------------ facts
    def is_none(self, v, state):
        if v.kind == 'none':
            return True
        if v.kind == 'sym' and isinstance(v.name, tuple) and v.name and v.name[0] == 'exc':
            return False
        if v.kind in ('true', 'false', 'const', 'obj', 'closure', 'self', 'class', 'func', 'global', 'builtin'):
            return False
        f = state.facts.get(v.name)
        return f[0] if f else None

    def truth(self, v, state):
        if v.kind == 'none' or v.kind == 'false':
            return False
        if v.kind == 'true':
            return True
        if v.kind == 'const':
            return bool(v.name)
        if v.kind in ('closure', 'self', 'class', 'func', 'global', 'builtin'):
            return True
        if v.kind == 'obj':
            if isinstance(v.name, tuple) and v.name and v.name[0] == 'lit':
                return not v.name[-1]
            f = state.facts.get(v.name)
            return f[1] if f else None
        if v.kind == 'sym':
            n = v.name
            if isinstance(n, tuple) and n and n[0] == 'exc':
                return True
            if isinstance(n, tuple) and n and n[0] in ('isnone', 'notnone'):
                inner = state.facts.get(n[1])
                if inner and inner[0] is not None:
                    return inner[0] if n[0] == 'isnone' else not inner[0]
            if isinstance(n, tuple) and n and n[0] == 'not':
                inner = state.facts.get(n[1])
                if inner and inner[1] is not None:
                    return not inner[1]
            f = state.facts.get(n)
            return f[1] if f else None
        return None

    def assume(self, v, state, truthy):
        """refine state with 'v is truthy/falsy'; returns new state or None if contradictory"""
        t = self.truth(v, state)
        if t is not None:
            return state if t == truthy else None
        if v.kind != 'sym' and v.kind != 'obj':
            return state
        n = v.name
        if isinstance(n, tuple) and n and n[0] in ('isnone', 'notnone'):
            want_none = truthy if n[0] == 'isnone' else not truthy
            return self._assume_none(n[1], state, want_none)
        if isinstance(n, tuple) and n and n[0] == 'not':
            return self._assume_truth(n[1], state, not truthy)
        if isinstance(n, tuple) and len(n) == 3 and n[0] == 'boolop' and isinstance(n[2], tuple):
            # a conjunction that holds / a disjunction that fails decides every operand (a test kept in a named boolean refines the
            # same facts as the test written in place)
            if (n[1] == 'and' and truthy) or (n[1] == 'or' and not truthy):
                st = self._assume_truth(n, state, truthy)
                for part in n[2]:
                    if st is None:
                        return None
                    if isinstance(part, tuple) and part and part[0] in ('isnone', 'notnone'):
                        st = self._assume_none(part[1], st, truthy if part[0] == 'isnone' else not truthy)
                    elif isinstance(part, tuple) and part and part[0] == 'not':
                        st = self._assume_truth(part[1], st, not truthy)
                    elif isinstance(part, tuple):
                        st = self._assume_truth(part, st, truthy)
                return st
            if len(n[2]) >= 1 and ((n[1] == 'and' and not truthy) or (n[1] == 'or' and truthy)):
                # the first operand was evaluated for sure; with all other operands already decided the other way it is the one
                st = self._assume_truth(n, state, truthy)
                return st
        return self._assume_truth(n, state, truthy)

    def track_fact(self, name):
        return True

    def _assume_truth(self, name, state, truthy):
        if not self.track_fact(name):
            return state
        f = state.facts.get(name, (None, None))
        if f[1] is not None:
            return state if f[1] == truthy else None
        if truthy and f[0] is True:
            return None
        s = state.copy()
        s.facts[name] = (False if truthy else f[0], truthy)
        return s

    def _assume_none(self, name, state, isnone):
        if not self.track_fact(name):
            return state
        f = state.facts.get(name, (None, None))
        if f[0] is not None:
            return state if f[0] == isnone else None
        if isnone and f[1] is True:
            return None
        s = state.copy()
        s.facts[name] = (isnone, False if isnone else f[1])
        return s

    # ------------------------------------------------------------------ transfer
    def assign(self, target, value, frame, state, node):
        if isinstance(target, ast.Name):
            return state.set(('L', frame.id, target.id), value)
        if isinstance(target, ast.Attribute):
            base = self.eval(target.value, frame, state)
            st = state.set(('F', base.name, target.attr), value)
            return self.on_store(node, target, base, value, st)
        if isinstance(target, ast.Subscript):
            base = self.eval(target.value, frame, state)
            idx = self.eval(target.slice, frame, state)
            st = state
            if idx.kind == 'const':
                st = st.set(('S', base.name, repr(idx.name)), value)
            st = self.mark_dirty(base, st)
            return self.on_store(node, target, base, value, st)
        if isinstance(target, (ast.Tuple, ast.List)):
            st = state
            for i, t in enumerate(target.elts):
                st = self.assign(t, sym(('unpack', value.name, i), value.deps), frame, st, node)
            return st
        if isinstance(target, ast.Starred):
            return self.assign(target.value, value, frame, state, node)
        return state

    def mark_dirty(self, base, state):
        if base.kind == 'obj' and any(k[0] == 'F' and v.name == base.name and v.kind == 'obj'
                                      for k, v in state.env.items()):
            d = state.extra.get('dirty', frozenset())
            if base.name not in d:
                return state.with_extra(dirty=d | {base.name})
        return state

    def fresh(self, v, state):
        """is v a freshly constructed, never mutated container?"""
        return v.kind == 'obj' and v.name not in state.extra.get('dirty', frozenset())

    def transfer(self, node, state):
        """returns list of (label-filter or None, state): states leaving the node; label-filter restricts edges"""
        k = node.kind
        fr = node.frame
        if k == 'stmt':
            return [(None, self.cleanup(node, self.t_stmt(node, state)))]
        if k == 'call':
            return self.t_call(node, state)
        if k == 'enter':
            return [(None, self.t_enter(node, state))]
        if k == 'leave':
            return [(None, self.t_leave(node, state))]
        if k == 'branch':
            return self.t_branch(node, state)
        if k == 'join':
            if node.info.get('hkey') is not None:
                # remember which exception this handler is handling (restored by a bare re-raise)
                state = state.with_extra(**{}) if False else state
                st0 = state.copy()
                st0.extra[('hexc', node.info['hkey'])] = state.extra.get('exc_src', '?')
                if node.frame.parent is None:
                    hs = st0.extra.get('root_handlers', frozenset())
                    st0.extra['root_handlers'] = hs | {node.info['handler'].lineno}
                    srcs = st0.extra.get('root_handler_sources', frozenset())
                    st0.extra['root_handler_sources'] = srcs | {(node.info['handler'].lineno, str(state.extra.get('exc_src', '?')))}
                state = st0
            if node.info.get('finally_tag'):
                state = self.on_stmt(node, state)
            if node.info.get('finally_tag', '').startswith('exc:'):
                st0 = state.copy()
                st0.extra[('fexc', node.info['fkey'])] = state.extra.get('exc_src', '?')
                return [(None, st0)]
            if node.info.get('finally_end', '').startswith('exc:'):
                st0 = state.copy()
                saved = st0.extra.pop(('fexc', node.info['fkey']), None)
                if saved is not None:
                    st0.extra['exc_src'] = saved
                return [(None, st0)]
            if node.info.get('binds'):
                a = node.info['atom']
                src = state.extra.get('exc_src', '?')
                v = sym(('exc', a, src), {'caught:%s' % a, 'exc-from:%s' % src})
                st = state.set(('L', fr.id, node.info['binds']), v)
                return [(None, st)]
            return [(None, state)]
        if k == 'with-enter':
            st = state
            if node.info.get('asname') is not None:
                v = self.eval(node.info['cm'], fr, state)
                st = self.assign(node.info['asname'], v, fr, state, node)
            return [(None, self.on_stmt(node, st))]
        if k == 'raise' and node.info.get('reraise') and node.info.get('handler') is not None:
            saved = state.extra.get(('hexc', node.info['handler']))
            if saved is not None and saved != state.extra.get('exc_src'):
                state = state.with_extra(exc_src=saved)
            if node.frame.parent is None:
                state = state.with_extra(reraised_by=node.info['handler'][2])
            return [(None, self.on_stmt(node, state))]
        if k == 'truth':
            return [('next', state), ('exc', state.with_extra(exc_src=node.info.get('what', k)))]
        if k in ('subscript', 'compare'):
            outs = [('next', self.on_stmt(node, state))]
            ex = self.partial_op_raises(node, state)
            if ex is not None:
                outs.append(('exc', ex.with_extra(exc_src=node.info.get('what', k))))
            return outs
        if k in ('with-exit', 'yield', 'raise'):
            return [(None, self.on_stmt(node, state))]
        if k == 'exit':
            return []
        return [(None, state)]

    def t_stmt(self, node, state):
        s = node.ast
        fr = node.frame
        what = node.info.get('what')
        st = state
        if what in ('for-target', 'comp-target'):
            it = None
            src = s.iter if isinstance(s, ast.For) else s.generators[0].iter
            itv = self.eval(src, fr, state)
            ev = sym(('elem', itv.name), set(itv.deps) | {'elem-of'})
            st = self.assign(node.info['target'], ev, fr, state, node)
            # a new element is bound to the same symbol: facts established about the previous element no longer hold
            stale = [k for k in st.facts if _mentions(k, ev.name)]
            if stale:
                st = st.copy()
                for k in stale:
                    del st.facts[k]
        elif what == 'comp-done':
            deps = set()
            for g in s.generators:
                deps |= self.eval(g.iter, fr, state).deps
            # results of calls inside the element expression
            for n in ast.walk(s):
                if isinstance(n, ast.Call):
                    r = state.env.get(('R', fr.id, id(n)))
                    if r is not None:
                        deps |= r.deps
                elif isinstance(n, ast.Name) and isinstance(n.ctx, ast.Load):
                    deps |= self.lookup_name(n.id, fr, state).deps
            st = state.set(('R', fr.id, id(s)), V('obj', ('comp', fr.id, self.site(s)), frozenset(deps)))
        elif isinstance(s, ast.Assign):
            v = self.eval(s.value, fr, state)
            for t in s.targets:
                st = self.assign(t, v, fr, st, node)
            if isinstance(s.value, ast.Dict) and v.kind == 'obj':
                # remember constant-key entries of a dict literal
                for k, val in zip(s.value.keys, s.value.values):
                    if k is None:
                        continue
                    kv = self.eval(k, fr, state)
                    if kv.kind == 'const':
                        st = st.set(('S', v.name, repr(kv.name)), self.eval(val, fr, state))
        elif isinstance(s, ast.AugAssign):
            cur = self.eval(s.target, fr, state) if not isinstance(s.target, ast.Name) else self.lookup_name(s.target.id, fr, state)
            v = self.eval(s.value, fr, state)
            nv = sym(('aug', type(s.op).__name__, fr.id, self.site(s)), set(cur.deps) | set(v.deps))
            st = self.assign(s.target, nv, fr, state, node)
        elif isinstance(s, ast.Return):
            st = state.set(('RV', fr.id), self.eval(s.value, fr, state))
        elif isinstance(s, ast.FunctionDef):
            f = fr.func.nested.get(s.name)
            st = state.set(('L', fr.id, s.name), V('closure', (id(s), fr.id), frozenset({'def:%s' % s.name})))
        elif isinstance(s, ast.Expr):
            pass
        return self.on_stmt(node, st)

    def arg_values(self, call, frame, state):
        args, kwargs = [], {}
        if not isinstance(call, ast.Call):
            return args, kwargs
        for a in call.args:
            args.append(self.eval(a.value if isinstance(a, ast.Starred) else a, frame, state))
        for k in call.keywords:
            kwargs[k.arg or '**'] = self.eval(k.value, frame, state)
        return args, kwargs

    def t_call(self, node, state):
        t = node.info['target']
        fr = node.frame
        c = node.ast
        args, kwargs = self.arg_values(c, fr, state)
        recv = None
        if isinstance(c, ast.Call) and isinstance(c.func, ast.Attribute):
            recv = self.eval(c.func.value, fr, state)
        st = self.on_call_attempt(node, t, state)
        # mutating method calls on tracked containers
        if recv is not None and isinstance(c.func, ast.Attribute) and c.func.attr in MUTATING_METHODS:
            st = self.mark_dirty(recv, st)
            st = self.on_store(node, c.func, recv, args[0] if args else NONE, st)
        res = self.call_result(node, t, args, kwargs, st)
        if res is None:
            deps = {'call:' + t.label}
            for a in args:
                deps |= a.deps
            for a in kwargs.values():
                deps |= a.deps
            if recv is not None:
                deps |= recv.deps
            pure = t.role == 'pure'
            last = t.label.split(':')[-1].split('.')[-1]
            if t.role == 'ctor' or (t.label.startswith('lib:') and last[:1].isupper()):
                # a constructor call yields an object (never None)
                res = V('obj', ('new', last, self.site(c)), frozenset(deps))
            elif pure:
                res = sym(('pure', t.label, tuple(a.name for a in args)), deps)
            else:
                res = sym(('call', fr.id, self.site(c)), deps)
        out_ok = self.on_call(node, t, args, st.set(('R', fr.id, id(c)), res))
        if not isinstance(out_ok, list):
            out_ok = [out_ok]
        outs = [('next', s) for s in out_ok if s is not None]
        # exceptional completion: the call's own effects did not happen (rules may override on_raise)
        exc_state = self.on_raise(node, t, st.with_extra(exc_src=t.label))
        if exc_state is not None:
            outs.append(('exc', exc_state))
        if node.info.get('target') is not None and any(l == 'false' for l, _ in node.succ):
            pass
        return outs

    def on_raise(self, node, target, state):
        return state

    def on_call_attempt(self, node, target, state):
        return state

    def partial_op_raises(self, node, state):
        """state on the exceptional edge of a partial operation (subscript / ordering comparison), or None if the
        operation cannot fail in this state"""
        return state

    def t_enter(self, node, state):
        callee = node.info['callee']
        fr = node.frame
        st = state.copy()
        for p, b in callee.binding.items():
            kind = b[0]
            if kind in ('expr', 'recv'):
                v = self.eval(b[1], b[2], state)
            elif kind == 'default':
                v = self.eval(b[1], callee, state) if isinstance(b[1], ast.Constant) else sym(('default', callee.func.qualname, p))
            elif kind == 'star':
                deps = set()
                for x in b[1]:
                    deps |= self.eval(x, b[2], state).deps
                single = b[1][0] if len(b[1]) == 1 else None
                if single is not None and isinstance(single, ast.Name):
                    v = self.eval(single, b[2], state)
                else:
                    v = V('obj', ('star', callee.id, p), frozenset(deps))
                p = p.lstrip('*')
            elif kind == 'dstar':
                deps = set()
                single = None
                for x in b[1]:
                    if isinstance(x, ast.keyword):
                        deps |= self.eval(x.value, b[2], state).deps
                    else:
                        deps |= self.eval(x, b[2], state).deps
                        single = x
                if single is not None and len(b[1]) == 1 and isinstance(single, ast.Name):
                    v = self.eval(single, b[2], state)
                else:
                    v = V('obj', ('dstar', callee.id, p), frozenset(deps))
                p = p.lstrip('*')
            elif kind == 'value':
                v = b[1]
            else:
                continue
            st.env[('L', callee.id, p)] = v._replace(deps=EMPTY) if State.strip_deps and v.deps else v
        return self.on_stmt(node, st)

    def t_leave(self, node, state):
        callee = node.info['callee']
        fr = node.frame
        mode = node.info['mode']
        st = state.copy()
        rv = st.env.get(('RV', callee.id), NONE)
        cid = callee.id
        for k in [k for k in st.env if k[1] == cid and k[0] in ('L', 'R', 'RV')]:
            del st.env[k]
        # handler / finally bookkeeping of the frame that is left
        for k in [k for k in st.extra if isinstance(k, tuple) and k and k[0] in ('hexc', 'fexc') and k[1][0] == cid]:
            del st.extra[k]
        if mode == 'value' and node.ast is not None:
            st.env[('R', fr.id, id(node.ast))] = rv._replace(deps=EMPTY) if State.strip_deps and rv.deps else rv
        return self.on_stmt(node, st)

    def t_branch(self, node, state):
        test = node.info.get('test')
        if test is None:
            # nondeterministic choice (loop heads, re-entry choice)
            return [(None, self.on_stmt(node, state))]
        r = self.assume_test(node, state)
        if r is not None:
            return r
        v = self.eval(test, node.frame, state)
        outs = []
        for lab, truthy in (('true', True), ('false', False)):
            s = self.assume(v, state, truthy)
            if s is not None:
                outs.append((lab, self.cleanup(node, s)))
        return outs

    # ------------------------------------------------------------------ state hygiene (precision-neutral)
    def cleanup(self, node, state):
        """drop call-result temporaries of this frame (consumed by the statement that hoisted them) and locals
        that are dead after this statement"""
        fid = node.frame.id
        line = node.line
        dead = [k for k in state.env if (k[0] == 'R' and k[1] == fid and not node.info.get('comp')) or
                (k[0] == 'L' and k[1] == fid and line is not None and self.dead_after(node.frame.func, k[2], line))]
        if node.info.get('what') in ('comp-target', 'for-target'):
            dead = [k for k in dead if k[0] != 'R']
        if not dead:
            return state
        st = state.copy()
        for k in dead:
            del st.env[k]
        return st

    def dead_after(self, func, name, line):
        info = self._live_cache.get(id(func))
        if info is None:
            info = self._liveness(func)
            self._live_cache[id(func)] = info
        last = info.get(name)
        if last is None:
            return False        # unknown: keep
        return line > last

    def _liveness(self, func):
        """name -> last source line at which the local may still be read (inf if read by a nested function)"""
        from .loader import walk_own
        inf = float('inf')
        last = {}
        loops = []
        for n in walk_own(func.node):
            if isinstance(n, (ast.For, ast.While)):
                loops.append((n.lineno, getattr(n, 'end_lineno', n.lineno)))
            if isinstance(n, (ast.ListComp, ast.SetComp, ast.DictComp, ast.GeneratorExp)):
                loops.append((n.lineno, getattr(n, 'end_lineno', n.lineno)))
        for n in walk_own(func.node):
            if isinstance(n, ast.Name) and isinstance(n.ctx, ast.Load):
                ln = getattr(n, 'end_lineno', n.lineno)
                for a, b in loops:
                    if a <= n.lineno <= b:
                        ln = max(ln, b)
                last[n.id] = max(last.get(n.id, 0), ln)
            elif isinstance(n, (ast.FunctionDef, ast.Lambda)):
                for m in ast.walk(n):
                    if isinstance(m, ast.Name):
                        last[m.id] = inf
        # parameters never read are dead from the start; stored-only locals likewise (line 0)
        for nm in self._locals_of(func):
            last.setdefault(nm, 0)
        # a finally / except body executes after later lines of its try body only textually-later: safe.
        return last

    # ------------------------------------------------------------------ propagation
    def run(self, max_pairs=400000):
        g = self.g
        seen = {}
        self.pred = {}
        work = collections.deque()
        for s0 in self.initial_states():
            work.append((g.entry, s0, None))
        while work:
            node, state, pred = work.popleft()
            key = (node.id, state.key())
            if key in seen:
                continue
            seen[key] = state
            self.pred[key] = pred
            self.visited_pairs += 1
            if self.visited_pairs > max_pairs:
                raise AnalysisError('state space bound exceeded (%d pairs)' % max_pairs)
            self.on_node(node, state)
            if node.kind == 'exit':
                self.on_exit(node, state)
                continue
            outs = self.transfer(node, state)
            for filt, st in outs:
                if st is None:
                    continue
                for lab, dst in node.succ:
                    if filt is not None:
                        if filt == 'exc':
                            if not lab.startswith('exc:'):
                                continue
                        elif filt == 'next':
                            if lab.startswith('exc:'):
                                continue
                        elif lab != filt:
                            continue
                    elif node.kind == 'call' and lab.startswith('exc:'):
                        continue
                    st2 = st
                    if lab.startswith('exc:') and node.kind in ('raise',) and not node.info.get('reraise'):
                        st2 = st.with_extra(exc_src=node.info.get('what', 'raise'))
                    elif lab.startswith('exc:') and node.kind == 'branch':
                        st2 = st.with_extra(exc_src='iterator:%s' % node.info.get('what', ''))
                    st2 = self.on_edge(node, lab, dst, st2)
                    if st2 is None:
                        continue
                    work.append((dst, st2, (key, lab)))
        self.seen = seen
        return seen

    def path_to(self, node, state, limit=60):
        """witness path (list of (where, what, label)) from entry to (node, state)"""
        key = (node.id, state.key())
        steps = []
        byid = {n.id: n for n in self.g.nodes}
        while key is not None:
            n = byid[key[0]]
            p = self.pred.get(key)
            lab = p[1] if p else None
            steps.append((n, lab))
            key = p[0] if p else None
        steps.reverse()
        out = []
        for n, lab in steps:
            if n.kind in ('join', 'leave') and not n.info.get('handler') and not n.info.get('finally_tag'):
                continue
            out.append({'at': n.where(), 'node': n.kind, 'what': n.info.get('what', ''), 'via': lab})
        if len(out) > limit:
            out = out[:8] + [{'elided': len(out) - limit}] + out[-(limit - 8):]
        return out

    def report(self, rule, node, state, message, **kw):
        self.violations.append(dict(rule=rule, node=node, state=state, message=message, **kw))
