"""Loader: parses the package under analysis into module / class / function tables.

Nothing from the analysed repository is imported or executed; everything is `ast`.
"""
import ast
import os
import hashlib


class AnalysisError(Exception):
    """The analysis itself cannot proceed (anchor lost, unresolved construct...). Exit code 2."""


class FuncInfo(object):
    def __init__(self, node, module, cls=None, parent=None):
        self.node = node
        self.module = module
        self.cls = cls
        self.parent = parent          # enclosing FuncInfo for nested defs / lambdas
        self.name = getattr(node, 'name', '<lambda>')
        self.nested = {}
        decos = [deco_name(d) for d in getattr(node, 'decorator_list', [])]
        self.decorators = decos
        self.is_property = 'property' in decos
        self.is_setter = any(d.endswith('.setter') for d in decos)
        self.is_static = 'staticmethod' in decos
        self.is_classmethod = 'classmethod' in decos
        self.is_contextmanager = 'contextmanager' in decos
        self.is_abstract = 'abstractmethod' in decos
        self.is_generator = any(isinstance(n, (ast.Yield, ast.YieldFrom)) for n in walk_own(node))

    @property
    def qualname(self):
        parts = [self.name]
        p = self.parent
        while p is not None:
            parts.append(p.name)
            p = p.parent
        if self.cls is not None:
            parts.append(self.cls.name)
        return '.'.join(reversed(parts))

    @property
    def params(self):
        a = self.node.args
        names = [x.arg for x in getattr(a, 'posonlyargs', [])] + [x.arg for x in a.args]
        return names

    @property
    def all_param_names(self):
        a = self.node.args
        names = self.params + [x.arg for x in a.kwonlyargs]
        if a.vararg:
            names.append(a.vararg.arg)
        if a.kwarg:
            names.append(a.kwarg.arg)
        return names

    def param_default(self, name):
        a = self.node.args
        pos = [x.arg for x in getattr(a, 'posonlyargs', [])] + [x.arg for x in a.args]
        if name in pos:
            i = pos.index(name) - (len(pos) - len(a.defaults))
            return a.defaults[i] if i >= 0 else None
        kwo = [x.arg for x in a.kwonlyargs]
        if name in kwo:
            return a.kw_defaults[kwo.index(name)]
        return None

    @property
    def file(self):
        return self.module.relpath

    def __repr__(self):
        return '<Func %s:%s>' % (self.module.name, self.qualname)


class ClassInfo(object):
    def __init__(self, node, module):
        self.node = node
        self.module = module
        self.name = node.name
        self.base_names = [deco_name(b) for b in node.bases]
        self.methods = {}      # name -> FuncInfo (getter for properties)
        self.setters = {}
        self.consts = {}       # class-level NAME = <expr>
        self.repo = None

    def mro(self):
        """C3 is unnecessary for this package (single inheritance + mix-ins without diamonds on methods);
        a left-to-right depth-first order without duplicates is exact here and checked for consistency."""
        seen, out = set(), []

        def go(c):
            if c.name in seen:
                return
            seen.add(c.name)
            out.append(c)
            for b in c.base_names:
                bc = self.repo.find_class(b.split('.')[-1])
                if bc is not None:
                    go(bc)
        go(self)
        return out

    def lookup(self, name):
        for c in self.mro():
            if name in c.methods:
                return c.methods[name]
        return None

    def lookup_const(self, name):
        for c in self.mro():
            if name in c.consts:
                return c.consts[name]
        return None

    def is_subclass_of(self, other_name):
        return any(c.name == other_name for c in self.mro())

    def __repr__(self):
        return '<Class %s>' % self.name


class Module(object):
    def __init__(self, name, path, relpath, src):
        self.name = name
        self.path = path
        self.relpath = relpath
        self.src = src
        self.lines = src.splitlines()
        self.tree = ast.parse(src, filename=path)
        self.imports = {}      # local name -> dotted origin ("jsonpickle.encode")
        self.classes = {}
        self.functions = {}
        self.globals = {}      # NAME -> value expr (module level assignments)


def deco_name(d):
    if isinstance(d, ast.Call):
        d = d.func
    if isinstance(d, ast.Attribute):
        return deco_name(d.value) + '.' + d.attr
    if isinstance(d, ast.Name):
        return d.id
    return ast.unparse(d)


def walk_own(fn):
    """Walk the nodes of a function body without descending into nested defs / lambdas / classes."""
    stack = list(ast.iter_child_nodes(fn))
    while stack:
        n = stack.pop()
        yield n
        if isinstance(n, (ast.FunctionDef, ast.AsyncFunctionDef, ast.Lambda, ast.ClassDef)):
            continue
        stack.extend(ast.iter_child_nodes(n))


class Repo(object):
    def __init__(self, root, package='playback'):
        self.root = os.path.abspath(root)
        self.package = package
        self.modules = {}
        self.classes = {}
        self.funcs_by_node = {}
        pkg_dir = os.path.join(self.root, package)
        if not os.path.isdir(pkg_dir):
            raise AnalysisError('package directory not found: %s' % pkg_dir)
        for dirpath, dirnames, filenames in os.walk(pkg_dir):
            dirnames[:] = sorted(d for d in dirnames if d != '__pycache__')
            for fn in sorted(filenames):
                if not fn.endswith('.py'):
                    continue
                path = os.path.join(dirpath, fn)
                rel = os.path.relpath(path, self.root)
                modname = rel[:-3].replace(os.sep, '.')
                if modname.endswith('.__init__'):
                    modname = modname[:-9]
                with open(path, encoding='utf-8') as f:
                    src = f.read()
                try:
                    m = Module(modname, path, rel, src)
                except SyntaxError as ex:
                    raise AnalysisError('cannot parse %s: %s' % (rel, ex))
                self.modules[modname] = m
        # helpers that did not exist on the pinned tree are inlined back where that is exact (sa/normalise.py)
        from .normalise import normalise
        nz = normalise({name: m.tree for name, m in self.modules.items()})
        self.normalised = {'inlined': sorted(set('%s -> %s (%s)' % x for x in nz.inlined)), 'removed': sorted(getattr(nz, 'removed', []))}
        if nz.inlined:
            # re-emit the changed modules so that line numbers are monotone again (rules order constructs by position);
            # reports are mapped back to the lines of the real file through report.LINE_MAPS
            from . import report
            for m in self.modules.values():
                before = ast.dump(ast.parse(m.src))
                if ast.dump(m.tree) == before:
                    continue
                t2 = ast.parse(ast.unparse(m.tree))
                lm = {}
                for a, b in zip(ast.walk(m.tree), ast.walk(t2)):
                    if type(a) is not type(b):
                        lm = None
                        break
                    if hasattr(a, 'lineno') and hasattr(b, 'lineno'):
                        lm.setdefault(b.lineno, a.lineno)
                m.tree = t2
                if lm:
                    report.LINE_MAPS[m.relpath] = lm
        for m in self.modules.values():
            self._index(m)
        for c in self.all_classes():
            c.repo = self

    # ------------------------------------------------------------------ indexing
    def _index(self, m):
        for n in m.tree.body:
            if isinstance(n, ast.Import):
                for a in n.names:
                    m.imports[(a.asname or a.name).split('.')[0]] = a.name if a.asname else a.name.split('.')[0]
            elif isinstance(n, ast.ImportFrom):
                for a in n.names:
                    m.imports[a.asname or a.name] = (n.module or '') + '.' + a.name
            elif isinstance(n, ast.Try):
                for s in n.body + [x for h in n.handlers for x in h.body]:
                    if isinstance(s, ast.ImportFrom):
                        for a in s.names:
                            m.imports.setdefault(a.asname or a.name, (s.module or '') + '.' + a.name)
            elif isinstance(n, ast.ClassDef):
                c = ClassInfo(n, m)
                m.classes[n.name] = c
                self.classes.setdefault(n.name, []).append(c)
                for s in n.body:
                    if isinstance(s, ast.FunctionDef):
                        f = FuncInfo(s, m, cls=c)
                        if f.is_setter:
                            c.setters[s.name] = f
                        else:
                            c.methods[s.name] = f
                        self._index_nested(f)
                    elif isinstance(s, ast.Assign) and len(s.targets) == 1 and isinstance(s.targets[0], ast.Name):
                        c.consts[s.targets[0].id] = s.value
            elif isinstance(n, ast.FunctionDef):
                f = FuncInfo(n, m)
                m.functions[n.name] = f
                self._index_nested(f)
            elif isinstance(n, ast.Assign) and len(n.targets) == 1 and isinstance(n.targets[0], ast.Name):
                m.globals[n.targets[0].id] = n.value

    def _index_nested(self, f):
        self.funcs_by_node[id(f.node)] = f
        for n in walk_own(f.node):
            if isinstance(n, (ast.FunctionDef, ast.Lambda)):
                g = FuncInfo(n, f.module, cls=f.cls, parent=f)
                if isinstance(n, ast.FunctionDef):
                    f.nested[n.name] = g
                f.nested.setdefault('<lambdas>', [])
                if isinstance(n, ast.Lambda):
                    f.nested['<lambdas>'].append(g)
                self._index_nested(g)

    # ------------------------------------------------------------------ queries
    def all_classes(self):
        for lst in self.classes.values():
            for c in lst:
                yield c

    def find_class(self, name):
        lst = self.classes.get(name)
        if not lst:
            return None
        if len(lst) > 1:
            raise AnalysisError('ambiguous class name %s' % name)
        return lst[0]

    def cls(self, name):
        c = self.find_class(name)
        if c is None:
            raise AnalysisError('anchor-lost class=%s' % name)
        return c

    def method(self, cls_name, meth):
        c = self.cls(cls_name)
        f = c.lookup(meth)
        if f is None:
            raise AnalysisError('anchor-lost method=%s.%s' % (cls_name, meth))
        return f

    def func_of_node(self, node):
        return self.funcs_by_node.get(id(node))

    def all_functions(self):
        return list(self.funcs_by_node.values())

    def subclasses(self, base_name):
        return [c for c in self.all_classes() if c.name != base_name and c.is_subclass_of(base_name)]

    def module_of(self, relpath_suffix):
        for m in self.modules.values():
            if m.relpath.endswith(relpath_suffix):
                return m
        raise AnalysisError('anchor-lost module=%s' % relpath_suffix)

    def digest(self):
        h = hashlib.sha256()
        for name in sorted(self.modules):
            h.update(name.encode())
            h.update(self.modules[name].src.encode())
        return h.hexdigest()[:16]

    def stats(self):
        return {'modules': len(self.modules), 'classes': sum(len(v) for v in self.classes.values()),
                'functions': len(self.funcs_by_node), 'digest': self.digest(),
                'helpers_inlined_by_normalisation': self.normalised['inlined']}


def expand_locals(fn_node, expr, depth=6):
    """copy of expr in which every local that is bound exactly once in fn_node (a plain `x = e`, not a parameter, not
    augmented, not a loop / with / except target) is replaced by e, recursively: shape rules see through explaining
    variables"""
    import copy as _copy
    params = {a.arg for a in ast.walk(fn_node.args) if isinstance(a, ast.arg)} if hasattr(fn_node, 'args') else set()
    binds = {}
    other = set()
    for n in walk_own(fn_node):
        if isinstance(n, ast.Assign) and len(n.targets) == 1 and isinstance(n.targets[0], ast.Name):
            binds.setdefault(n.targets[0].id, []).append(n.value)
        elif isinstance(n, ast.Name) and isinstance(n.ctx, (ast.Store, ast.Del)):
            other.add(n.id)
        elif isinstance(n, ast.ExceptHandler) and n.name:
            other.add(n.name)
    # names stored by plain assignments were also seen as Store above: count stores
    stores = {}
    for n in walk_own(fn_node):
        if isinstance(n, ast.Name) and isinstance(n.ctx, (ast.Store, ast.Del)):
            stores[n.id] = stores.get(n.id, 0) + 1
    single = {k: v[0] for k, v in binds.items() if len(v) == 1 and stores.get(k, 0) == 1 and k not in params}

    def go(e, d, seen):
        class R(ast.NodeTransformer):
            def visit_Name(self_, n):
                if isinstance(n.ctx, ast.Load) and n.id in single and n.id not in seen and d > 0:
                    return go(_copy.deepcopy(single[n.id]), d - 1, seen | {n.id})
                return n
        return R().visit(e)
    return go(_copy.deepcopy(expr), depth, frozenset())


def norm(node):
    """Normalised text of a node: unparse, collapsed whitespace; used for keys of findings (never line numbers)."""
    try:
        s = ast.unparse(node)
    except Exception:
        s = ast.dump(node)
    return ' '.join(s.split())


def short(node, n=110):
    s = norm(node)
    return s if len(s) <= n else s[:n - 3] + '...'
