"""Behaviour-preserving variants of the tree, computed by ast transforms (no text matching): the checks must give the
same verdict on each of them."""
import ast
import os


def _py_files(root):
    for dp, dn, fn in os.walk(os.path.join(root, 'playback')):
        for f in fn:
            if f.endswith('.py'):
                yield os.path.join(dp, f)


def reformat(root):
    """re-emit every module through ast.unparse: comments dropped, line numbers and layout changed"""
    n = 0
    for p in _py_files(root):
        src = open(p).read()
        if not src.strip():
            continue
        out = ast.unparse(ast.parse(src)) + '\n'
        if out != src:
            open(p, 'w').write(out)
            n += 1
    return n


class _RenameLocals(ast.NodeTransformer):
    """rename plain locals (assigned names that are neither parameters nor used by nested functions)"""

    def visit_FunctionDef(self, node):
        self.generic_visit(node)
        params = {a.arg for a in node.args.args + node.args.kwonlyargs + getattr(node.args, 'posonlyargs', [])}
        if node.args.vararg:
            params.add(node.args.vararg.arg)
        if node.args.kwarg:
            params.add(node.args.kwarg.arg)
        nested_names = set()
        for n in ast.walk(node):
            if n is not node and isinstance(n, (ast.FunctionDef, ast.Lambda)):
                for x in ast.walk(n):
                    if isinstance(x, ast.Name):
                        nested_names.add(x.id)
                if isinstance(n, ast.FunctionDef):
                    nested_names.add(n.name)
        stored = set()
        for n in ast.walk(node):
            if isinstance(n, ast.Name) and isinstance(n.ctx, ast.Store):
                stored.add(n.id)
        for n in ast.walk(node):
            if isinstance(n, (ast.Global, ast.Nonlocal)):
                stored -= set(n.names)
            if isinstance(n, ast.ExceptHandler) and n.name:
                stored.discard(n.name)
            if isinstance(n, (ast.ListComp, ast.SetComp, ast.DictComp, ast.GeneratorExp)):
                for g in n.generators:
                    for x in ast.walk(g.target):
                        if isinstance(x, ast.Name):
                            stored.discard(x.id)
        targets = stored - params - nested_names
        if not targets:
            return node
        mapping = {t: t + '_v' for t in targets}
        for n in ast.walk(node):
            if isinstance(n, ast.Name) and n.id in mapping:
                n.id = mapping[n.id]
        self.count = getattr(self, 'count', 0) + len(mapping)
        return node


def rename_locals(root):
    n = 0
    for p in _py_files(root):
        src = open(p).read()
        if not src.strip():
            continue
        tree = ast.parse(src)
        tr = _RenameLocals()
        tree = tr.visit(tree)
        if getattr(tr, 'count', 0):
            open(p, 'w').write(ast.unparse(ast.fix_missing_locations(tree)) + '\n')
            n += 1
    return n


class _AddLogging(ast.NodeTransformer):
    """insert a debug log line at the start of every method that already uses the module logger"""

    def visit_FunctionDef(self, node):
        self.generic_visit(node)
        uses = any(isinstance(n, ast.Name) and n.id == '_logger' for n in ast.walk(node))
        if uses and node.body and not node.decorator_list:
            first = 1 if isinstance(node.body[0], ast.Expr) and isinstance(node.body[0].value, ast.Constant) else 0
            stmt = ast.parse("_logger.debug('entering')").body[0]
            node.body.insert(first, stmt)
            self.count = getattr(self, 'count', 0) + 1
        return node


def add_logging(root):
    n = 0
    for p in _py_files(root):
        src = open(p).read()
        if '_logger' not in src:
            continue
        tree = ast.parse(src)
        tr = _AddLogging()
        tree = tr.visit(tree)
        if getattr(tr, 'count', 0):
            open(p, 'w').write(ast.unparse(ast.fix_missing_locations(tree)) + '\n')
            n += 1
    return n


class _FormatToFString(ast.NodeTransformer):
    """u'...{}...'.format(a, b) with only positional `{}` fields in logging calls -> f-string"""

    def visit_Call(self, node):
        self.generic_visit(node)
        if isinstance(node.func, ast.Attribute) and node.func.attr == 'format' and isinstance(node.func.value, ast.Constant) and \
                isinstance(node.func.value.value, str) and not node.keywords and self.in_log:
            parts = node.func.value.value.split('{}')
            if len(parts) == len(node.args) + 1 and '{' not in ''.join(parts) and '}' not in ''.join(parts):
                vals = []
                for i, ptxt in enumerate(parts):
                    if ptxt:
                        vals.append(ast.Constant(value=ptxt))
                    if i < len(node.args):
                        vals.append(ast.FormattedValue(value=node.args[i], conversion=-1))
                self.count = getattr(self, 'count', 0) + 1
                return ast.copy_location(ast.JoinedStr(values=vals), node)
        return node

    in_log = False

    def visit_Expr(self, node):
        v = node.value
        is_log = isinstance(v, ast.Call) and isinstance(v.func, ast.Attribute) and isinstance(v.func.value, ast.Name) and \
            v.func.value.id in ('_logger', 'logging')
        old = self.in_log
        self.in_log = is_log
        self.generic_visit(node)
        self.in_log = old
        return node


def format_to_fstring(root):
    n = 0
    for p in _py_files(root):
        src = open(p).read()
        if not src.strip():
            continue
        tree = ast.parse(src)
        tr = _FormatToFString()
        tree = tr.visit(tree)
        if getattr(tr, 'count', 0):
            open(p, 'w').write(ast.unparse(ast.fix_missing_locations(tree)) + '\n')
            n += 1
    return n


class _EarlyReturnToNested(ast.NodeTransformer):
    """`if c: return x` followed by more statements  ->  `if c: return x  else: <rest>` (nested form)"""

    def visit_FunctionDef(self, node):
        self.generic_visit(node)
        node.body = self._nest(node.body)
        return node

    def _nest(self, body):
        for i, s in enumerate(body):
            if isinstance(s, ast.If) and not s.orelse and s.body and isinstance(s.body[-1], ast.Return) and i + 1 < len(body) and \
                    not any(isinstance(x, (ast.Yield, ast.YieldFrom)) for y in body for x in ast.walk(y)):
                rest = self._nest(body[i + 1:])
                s.orelse = rest
                self.count = getattr(self, 'count', 0) + 1
                return body[:i + 1]
        return body


def early_return_to_nested(root):
    n = 0
    for p in _py_files(root):
        src = open(p).read()
        if not src.strip():
            continue
        tree = ast.parse(src)
        tr = _EarlyReturnToNested()
        tree = tr.visit(tree)
        if getattr(tr, 'count', 0):
            open(p, 'w').write(ast.unparse(ast.fix_missing_locations(tree)) + '\n')
            n += 1
    return n


def _private_method_names(root):
    """private (single underscore) function / method names defined in the package and not mentioned by the tests"""
    names = set()
    for p in _py_files(root):
        for n in ast.walk(ast.parse(open(p).read())):
            if isinstance(n, ast.FunctionDef) and n.name.startswith('_') and not n.name.startswith('__'):
                names.add(n.name)
    used_by_tests = set()
    tdir = os.path.join(root, 'tests')
    for dp, dn, fn in os.walk(tdir):
        for f in fn:
            if f.endswith('.py'):
                src = open(os.path.join(dp, f)).read()
                for nm in names:
                    if nm in src:
                        used_by_tests.add(nm)
    # a known finding is identified by the function that hosts it: renaming that function makes it a new finding by design
    hosts = set()
    try:
        import json
        kf = json.load(open(os.path.join(os.path.dirname(os.path.dirname(os.path.abspath(__file__))), 'known_findings.json')))
        hosts = {k.get('function', '').split('.')[-1] for k in kf.get('known', [])}
    except Exception:
        pass
    return names - used_by_tests - hosts


def rename_private_methods(root):
    """consistently rename private helpers that no test refers to (definitions, attribute uses, string-free)"""
    names = _private_method_names(root)
    mapping = {n: n + '_x' for n in names}
    cnt = 0
    for p in _py_files(root):
        src = open(p).read()
        if not src.strip():
            continue
        tree = ast.parse(src)
        ch = 0
        for n in ast.walk(tree):
            if isinstance(n, ast.FunctionDef) and n.name in mapping:
                n.name = mapping[n.name]
                ch += 1
            elif isinstance(n, ast.Attribute) and n.attr in mapping:
                n.attr = mapping[n.attr]
                ch += 1
            elif isinstance(n, ast.Name) and n.id in mapping:
                n.id = mapping[n.id]
                ch += 1
        if ch:
            open(p, 'w').write(ast.unparse(tree) + '\n')
            cnt += 1
    return cnt


class _InlineSingleUse(ast.NodeTransformer):
    """`x = <pure expr>` immediately followed by a statement that reads x exactly once (and nothing else reads it) -> inline"""

    def visit_FunctionDef(self, node):
        self.generic_visit(node)
        for n in ast.walk(node):
            for fld in ('body', 'orelse', 'finalbody'):
                b = getattr(n, fld, None)
                if isinstance(b, list) and b and isinstance(b[0], ast.stmt):
                    setattr(n, fld, self._do(b, node))
        return node

    def _pure(self, e):
        return all(isinstance(x, (ast.Name, ast.Attribute, ast.Subscript, ast.Constant, ast.Load, ast.Tuple, ast.List, ast.Slice)) for x in ast.walk(e))

    def _do(self, body, fn):
        i = 0
        while i + 1 < len(body):
            s = body[i]
            if isinstance(s, ast.Assign) and len(s.targets) == 1 and isinstance(s.targets[0], ast.Name) and self._pure(s.value):
                name = s.targets[0].id
                uses = [x for x in ast.walk(fn) if isinstance(x, ast.Name) and x.id == name]
                nxt = body[i + 1]
                loads_next = [x for x in ast.walk(nxt) if isinstance(x, ast.Name) and x.id == name and isinstance(x.ctx, ast.Load)]
                if len(uses) == 2 and len(loads_next) == 1 and not isinstance(nxt, (ast.For, ast.While, ast.Try, ast.With, ast.FunctionDef)):
                    class R(ast.NodeTransformer):
                        def visit_Name(self_, n):
                            return s.value if n.id == name and isinstance(n.ctx, ast.Load) else n
                    body[i + 1] = R().visit(nxt)
                    del body[i]
                    self.count = getattr(self, 'count', 0) + 1
                    continue
            i += 1
        return body


def inline_single_use_locals(root):
    n = 0
    for p in _py_files(root):
        src = open(p).read()
        if not src.strip():
            continue
        tree = ast.parse(src)
        tr = _InlineSingleUse()
        tree = tr.visit(tree)
        if getattr(tr, 'count', 0):
            open(p, 'w').write(ast.unparse(ast.fix_missing_locations(tree)) + '\n')
            n += 1
    return n


class _Extract(object):
    """extract-method: a run of top-level statements of a method becomes a new private method of the same class.
    Conditions that make the transformation exact: the run contains no return / yield / break / continue / nested def /
    lambda / global / nonlocal / del of a local; every local it reads is passed in; every local it writes that is read
    afterwards is returned, and is either definitely assigned by a top-level plain assignment of the run or was passed in."""

    FORBIDDEN = (ast.Return, ast.Yield, ast.YieldFrom, ast.Break, ast.Continue, ast.FunctionDef, ast.AsyncFunctionDef, ast.Lambda,
                 ast.Global, ast.Nonlocal, ast.Delete, ast.Await, ast.ClassDef)

    def __init__(self):
        self.count = 0

    @staticmethod
    def _names(nodes, ctx):
        out = []
        for s in nodes:
            for n in ast.walk(s):
                if isinstance(n, ast.Name) and isinstance(n.ctx, ctx) and n.id not in out:
                    out.append(n.id)
        return out

    def method(self, cls, fn):
        if any(isinstance(d, (ast.Name, ast.Attribute)) and ast.unparse(d).split('.')[-1] in ('staticmethod', 'classmethod', 'contextmanager', 'property')
               or isinstance(d, ast.Attribute) for d in fn.decorator_list):
            return None
        if not fn.args.args or fn.args.args[0].arg != 'self':
            return None
        if any(isinstance(n, (ast.Yield, ast.YieldFrom)) for n in ast.walk(fn)):
            return None
        # a function whose locals are captured by nested functions is left alone (closures see later rebinding)
        nested = [n for n in ast.walk(fn) if n is not fn and isinstance(n, (ast.FunctionDef, ast.Lambda))]
        captured = set(self._names(nested, ast.Load))
        body = fn.body
        start0 = 1 if body and isinstance(body[0], ast.Expr) and isinstance(getattr(body[0], 'value', None), ast.Constant) else 0
        params = {a.arg for a in fn.args.args + fn.args.kwonlyargs} | ({fn.args.vararg.arg} if fn.args.vararg else set()) | \
            ({fn.args.kwarg.arg} if fn.args.kwarg else set())
        local_names = params | set(self._names(body, ast.Store))
        for n in ast.walk(fn):
            if isinstance(n, ast.ExceptHandler) and n.name:
                local_names.add(n.name)
        best = None
        for i in range(start0, len(body)):
            for j in range(min(len(body), i + 3), i, -1):
                run = body[i:j]
                if len(body) - (j - i) - start0 < 1:
                    continue
                if any(isinstance(n, self.FORBIDDEN) for s in run for n in ast.walk(s)):
                    continue
                if all(isinstance(s, (ast.Expr, ast.Pass, ast.Assert)) and not any(isinstance(n, ast.Call) for n in ast.walk(s)) for s in run):
                    continue
                reads = [n for n in self._names(run, ast.Load) if n in local_names]
                writes = self._names(run, ast.Store)
                if set(writes) & captured or any(isinstance(n, ast.NamedExpr) for s in run for n in ast.walk(s)):
                    continue
                if 'self' in writes:
                    continue
                after = self._names(body[j:], ast.Load)
                out = [w for w in writes if w in after]
                defined_before = params | set(self._names(body[:i], ast.Store))
                top_assigned = {t.id for s in run if isinstance(s, ast.Assign) for t in s.targets if isinstance(t, ast.Name)}
                ok = True
                ins = [r for r in reads if r in defined_before]
                for w in out:
                    if w in top_assigned:
                        continue
                    if w in defined_before:
                        if w not in ins:
                            ins.append(w)
                    else:
                        ok = False
                # a name read in the run before being written there must be defined before the run
                if any(r not in defined_before and r not in top_assigned for r in reads):
                    ok = False
                # conditionally-defined names before the run (possible UnboundLocalError moves): require plain definitions
                if not ok or len(ins) > 6 or len(out) > 3:
                    continue
                size = sum(1 for s in run for _ in ast.walk(s))
                if size < 12:
                    continue
                best = (i, j, ins, out)
                break
            if best:
                break
        if not best:
            return None
        i, j, ins, out = best
        run = body[i:j]
        ins = [x for x in ins if x != 'self']
        name = '_vx_%s_part' % fn.name.strip('_')
        call = ast.Call(func=ast.Attribute(value=ast.Name(id='self', ctx=ast.Load()), attr=name, ctx=ast.Load()),
                        args=[ast.Name(id=x, ctx=ast.Load()) for x in ins], keywords=[])
        if out:
            tgt = ast.Name(id=out[0], ctx=ast.Store()) if len(out) == 1 else ast.Tuple(elts=[ast.Name(id=x, ctx=ast.Store()) for x in out], ctx=ast.Store())
            stmt = ast.Assign(targets=[tgt], value=call)
            ret = ast.Return(value=ast.Name(id=out[0], ctx=ast.Load()) if len(out) == 1 else
                             ast.Tuple(elts=[ast.Name(id=x, ctx=ast.Load()) for x in out], ctx=ast.Load()))
            newbody = list(run) + [ret]
        else:
            stmt = ast.Expr(value=call)
            newbody = list(run)
        helper = ast.FunctionDef(name=name, args=ast.arguments(posonlyargs=[], args=[ast.arg(arg='self')] + [ast.arg(arg=x) for x in ins],
                                                               kwonlyargs=[], kw_defaults=[], defaults=[]),
                                 body=newbody, decorator_list=[], returns=None, type_comment=None)
        fn.body = body[:i] + [stmt] + body[j:]
        self.count += 1
        return helper

    def module(self, tree):
        for c in [n for n in ast.walk(tree) if isinstance(n, ast.ClassDef)]:
            new = []
            for m in list(c.body):
                new.append(m)
                if isinstance(m, ast.FunctionDef) and m.name != '__init__':
                    h = self.method(c, m)
                    if h is not None:
                        new.append(h)
            c.body = new
        return tree


def extract_method(root):
    """one run of statements per method moved into a new private method (parameters in, written-and-live names out)"""
    n = 0
    for p in _py_files(root):
        src = open(p).read()
        if not src.strip():
            continue
        tree = ast.parse(src)
        ex = _Extract()
        tree = ex.module(tree)
        if ex.count:
            open(p, 'w').write(ast.unparse(ast.fix_missing_locations(tree)) + '\n')
            n += 1
    return n


def _apply(root, make_transformer):
    n = 0
    for p in _py_files(root):
        src = open(p).read()
        if not src.strip():
            continue
        tree = ast.parse(src)
        tr = make_transformer()
        tree = tr.visit(tree)
        if getattr(tr, 'count', 0):
            open(p, 'w').write(ast.unparse(ast.fix_missing_locations(tree)) + '\n')
            n += 1
    return n


def _neg(test):
    if isinstance(test, ast.UnaryOp) and isinstance(test.op, ast.Not):
        return test.operand
    if isinstance(test, ast.Compare) and len(test.ops) == 1:
        inv = {ast.Is: ast.IsNot, ast.IsNot: ast.Is, ast.In: ast.NotIn, ast.NotIn: ast.In}
        for a, b in inv.items():
            if isinstance(test.ops[0], a):
                return ast.Compare(left=test.left, ops=[b()], comparators=test.comparators)
    return ast.UnaryOp(op=ast.Not(), operand=test)


class _SwapBranches(ast.NodeTransformer):
    """`if c: A else: B` -> `if not c: B else: A` (both branches present, no elif chain on either side)"""
    count = 0

    def visit_If(self, node):
        self.generic_visit(node)
        if node.orelse and not (len(node.orelse) == 1 and isinstance(node.orelse[0], ast.If)) and \
                not (len(node.body) == 1 and isinstance(node.body[0], ast.If)):
            self.count += 1
            return ast.copy_location(ast.If(test=_neg(node.test), body=node.orelse, orelse=node.body), node)
        return node


def swap_if_branches(root):
    """every two-armed if statement with its test negated and its arms exchanged"""
    return _apply(root, _SwapBranches)


class _WhileTrue(ast.NodeTransformer):
    """`while c: B` (no else clause) -> `while True: if not c: break; B`"""
    count = 0

    def visit_While(self, node):
        self.generic_visit(node)
        if node.orelse or (isinstance(node.test, ast.Constant) and node.test.value is True):
            return node
        self.count += 1
        guard = ast.If(test=_neg(node.test), body=[ast.Break()], orelse=[])
        return ast.copy_location(ast.While(test=ast.Constant(value=True), body=[guard] + node.body, orelse=[]), node)


def while_true_break(root):
    """loop conditions moved into a leading `if not c: break` (a `continue` in the body re-tests the condition in both forms)"""
    return _apply(root, _WhileTrue)


class _CondExprToIf(ast.NodeTransformer):
    """`T = a if c else b` / `return a if c else b` -> the if / else statement"""
    count = 0

    def _stmt(self, node, mk):
        v = node.value
        if isinstance(v, ast.IfExp):
            self.count += 1
            return ast.copy_location(ast.If(test=v.test, body=[mk(v.body)], orelse=[mk(v.orelse)]), node)
        return node

    def visit_Assign(self, node):
        if len(node.targets) == 1 and isinstance(node.targets[0], ast.Name):
            return self._stmt(node, lambda e: ast.Assign(targets=[ast.Name(id=node.targets[0].id, ctx=ast.Store())], value=e))
        return node

    def visit_Return(self, node):
        if node.value is not None:
            return self._stmt(node, lambda e: ast.Return(value=e))
        return node

    def visit_Lambda(self, node):
        return node


def conditional_expression_to_statement(root):
    """conditional expressions in plain assignments and returns written as if / else statements"""
    return _apply(root, _CondExprToIf)


class _DictCalls(ast.NodeTransformer):
    """`dict(a=x, b=y)` -> `{'a': x, 'b': y}` (keyword-only calls of the builtin; evaluation order is the same)"""
    count = 0

    def visit_Call(self, node):
        self.generic_visit(node)
        if isinstance(node.func, ast.Name) and node.func.id == 'dict' and not node.args and node.keywords and all(k.arg for k in node.keywords):
            self.count += 1
            return ast.copy_location(ast.Dict(keys=[ast.Constant(value=k.arg) for k in node.keywords], values=[k.value for k in node.keywords]), node)
        return node


def dict_calls_to_literals(root):
    """dict(k=v, ...) written as a dict display"""
    return _apply(root, _DictCalls)


class _KeywordArgs(ast.NodeTransformer):
    """positional arguments of calls `self._m(...)` to private methods defined exactly once in the package become keyword arguments
    (callee without *args, call without starred arguments; order of evaluation unchanged)"""
    count = 0

    def __init__(self, sigs):
        self.sigs = sigs

    def visit_Call(self, node):
        self.generic_visit(node)
        f = node.func
        if isinstance(f, ast.Attribute) and isinstance(f.value, ast.Name) and f.value.id == 'self' and f.attr in self.sigs and node.args and \
                not any(isinstance(a, ast.Starred) for a in node.args) and not any(k.arg is None for k in node.keywords):
            params = self.sigs[f.attr]
            if len(node.args) <= len(params) and not (set(params[:len(node.args)]) & {k.arg for k in node.keywords}):
                kws = [ast.keyword(arg=p, value=a) for p, a in zip(params, node.args)]
                self.count += 1
                return ast.copy_location(ast.Call(func=f, args=[], keywords=kws + node.keywords), node)
        return node


def keyword_arguments_for_private_calls(root):
    """self._helper(a, b) -> self._helper(x=a, y=b) for private methods with one definition and a plain parameter list"""
    defs = {}
    for p in _py_files(root):
        src = open(p).read()
        if not src.strip():
            continue
        for c in [n for n in ast.walk(ast.parse(src)) if isinstance(n, ast.ClassDef)]:
            for m in c.body:
                if isinstance(m, ast.FunctionDef) and m.name.startswith('_') and not m.name.startswith('__'):
                    defs.setdefault(m.name, []).append(m)
    sigs = {}
    for nm, ms in defs.items():
        if len(ms) != 1:
            continue
        m = ms[0]
        a = m.args
        static = any(isinstance(d, ast.Name) and d.id == 'staticmethod' for d in m.decorator_list)
        if a.vararg or a.kwarg or a.posonlyargs or any(not isinstance(d, ast.Name) or d.id != 'staticmethod' for d in m.decorator_list):
            continue
        sigs[nm] = [x.arg for x in a.args][0 if static else 1:]
    return _apply(root, lambda: _KeywordArgs(sigs))


class _ReverseMethods(ast.NodeTransformer):
    """methods of a class re-ordered (plainly decorated ones moved to the end in reverse order): definition order inside a class body
    has no effect once every name used at class-definition time (decorators, defaults, class-level expressions) is defined before its use"""
    count = 0

    def visit_ClassDef(self, node):
        self.generic_visit(node)
        plain = ('staticmethod', 'classmethod', 'property', 'abstractmethod', 'contextmanager')
        movable = [m for m in node.body if isinstance(m, ast.FunctionDef) and all(
            (isinstance(d, ast.Name) and d.id in plain) for d in m.decorator_list)]
        # names used by class-level statements / decorators / defaults must not be moved
        used = set()
        for st in node.body:
            if st in movable:
                for d in st.args.defaults + st.args.kw_defaults:
                    if d is not None:
                        used |= {x.id for x in ast.walk(d) if isinstance(x, ast.Name)}
                continue
            used |= {x.id for x in ast.walk(st) if isinstance(x, ast.Name)}
            if isinstance(st, ast.FunctionDef):
                used |= {x.value.id for d in st.decorator_list for x in ast.walk(d) if isinstance(x, ast.Attribute) and isinstance(x.value, ast.Name)}
        movable = [m for m in movable if m.name not in used]
        if len(movable) < 2:
            return node
        rest = [st for st in node.body if st not in movable]
        node.body = rest + list(reversed(movable))
        self.count += 1
        return node


def reverse_method_order(root):
    """methods of every class defined in the opposite order"""
    return _apply(root, _ReverseMethods)


VARIANTS = [('reformat', reformat), ('rename-locals', rename_locals), ('add-logging', add_logging),
            ('format-to-fstring', format_to_fstring), ('early-return-to-nested', early_return_to_nested),
            ('inline-single-use-locals', inline_single_use_locals), ('rename-private-methods', rename_private_methods),
            ('extract-method', extract_method), ('swap-if-branches', swap_if_branches), ('while-true-break', while_true_break),
            ('conditional-expression-to-statement', conditional_expression_to_statement), ('dict-calls-to-literals', dict_calls_to_literals),
            ('keyword-arguments-for-private-calls', keyword_arguments_for_private_calls), ('reverse-method-order', reverse_method_order)]
