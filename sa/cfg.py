"""Statement-level control-flow graphs with exceptional edges, built in continuation-passing style.

* every `ast.Call` (and property read / property write that resolves to a repo getter / setter) is hoisted to
  its own node, in evaluation order; calls the policy wants inlined are replaced by an instance of the callee's
  graph in a fresh frame (parameters bound to the argument expressions of the call site);
* calls in *test position* are inlined so that each `return <expr>` of the callee becomes a conditional jump to
  the caller's true / false targets: guards hidden in property getters and helper predicates are seen through;
* `try/finally` bodies are instantiated once per continuation kind (fall-through, return, break, continue, each
  exception atom) so that "what happens after the finally" is never merged;
* `@contextmanager` generators are inlined at the `with` site as pre-yield ; body ; post-yield;
* exceptions are atoms of `exc.ExcModel`.
"""
import ast
import copy
import itertools

from .loader import AnalysisError, norm


class Frame(object):
    _ids = itertools.count(1)

    def __init__(self, func, parent=None, call=None, binding=None, self_cls=None, lexical=None, fid=None):
        self.id = fid if fid is not None else next(Frame._ids)
        self.func = func
        self.parent = parent          # caller frame
        self.call = call
        self.binding = binding or {}  # param -> (expr ast, caller frame) | ('const', value)
        self.self_cls = self_cls
        self.lexical = lexical        # frame in which this function object was created (closures), if inlined
        self.depth = 0 if parent is None else parent.depth + 1

    def chain(self):
        f = self
        while f is not None:
            yield f
            f = f.parent

    def __repr__(self):
        return '<Frame %d %s>' % (self.id, self.func.qualname)


class Node(object):
    __slots__ = ('id', 'kind', 'ast', 'frame', 'info', 'succ')

    def __init__(self, nid, kind, a, frame, info):
        self.id = nid
        self.kind = kind
        self.ast = a
        self.frame = frame
        self.info = info
        self.succ = []

    def edge(self, label, dst):
        assert dst is not None, (self.kind, label, self.info)
        self.succ.append((label, dst))
        return self

    @property
    def line(self):
        return getattr(self.ast, 'lineno', None)

    @property
    def file(self):
        return self.frame.func.file if self.frame is not None else None

    def where(self):
        return '%s:%s' % (self.file, self.line)

    def __repr__(self):
        return '<N%d %s %s %s>' % (self.id, self.kind, self.where(), self.info.get('what', ''))


class Target(object):
    """What a call site resolves to."""

    def __init__(self, kind, label, func=None, raises=frozenset(), reentry=(), self_cls=None, role=None, lexical=None,
                 extra_binding=None):
        self.kind = kind          # 'inline' | 'opaque'
        self.label = label        # display / classification label, e.g. 'user-body:func', 'lib:jsonpickle.encode'
        self.func = func
        self.raises = frozenset(raises)
        self.reentry = tuple(reentry)   # FuncInfos (methods on the same object) the callee may call back, any number of times
        self.self_cls = self_cls
        self.role = role
        self.lexical = lexical
        self.extra_binding = extra_binding or {}


class Policy(object):
    """Default policy: nothing is inlined, nothing raises. Rules subclass this."""
    max_depth = 7

    def call_target(self, call, frame):
        return Target('opaque', 'unknown:' + norm(call.func))

    def attr_target(self, attr, frame):
        return None

    def setter_target(self, attr, frame):
        return None

    def with_target(self, cm, frame):
        return None

    def iter_raises(self, node, frame):
        return frozenset()

    def yield_raises(self, node, frame):
        return frozenset()

    def subscript_raises(self, node, frame):
        return frozenset()

    def compare_raises(self, node, frame):
        return frozenset()

    def call_binding_raises(self, call, target, frame):
        """atoms that binding the arguments of `call` to its (resolved) callee may raise"""
        return frozenset()

    def subscript_store_raises(self, target, frame):
        """atoms a subscript store `obj[k] = v` may raise (the container's __setitem__)"""
        return frozenset()

    def truth_raises(self, test, frame):
        """atoms the truth test of expression `test` may raise (user objects with a raising __bool__ / __len__)"""
        return frozenset()


class LazyMap(object):
    """atom -> node, built on demand and memoised"""

    def __init__(self, make):
        self.make = make
        self.memo = {}

    def __getitem__(self, a):
        if a not in self.memo:
            self.memo[a] = self.make(a)
        return self.memo[a]


class Ctx(object):
    __slots__ = ('next', 'ret', 'exc', 'brk', 'cont', 'cur_exc', 'cur_exc_name', 'cur_handler')

    def __init__(self, next, ret, exc, brk=None, cont=None, cur_exc=None, cur_exc_name=None, cur_handler=None):
        self.next, self.ret, self.exc, self.brk, self.cont = next, ret, exc, brk, cont
        self.cur_exc, self.cur_exc_name, self.cur_handler = cur_exc, cur_exc_name, cur_handler

    def w(self, **kw):
        d = dict(next=self.next, ret=self.ret, exc=self.exc, brk=self.brk, cont=self.cont, cur_exc=self.cur_exc,
                 cur_exc_name=self.cur_exc_name, cur_handler=self.cur_handler)
        d.update(kw)
        return Ctx(**d)


class _IfExpSplitter(ast.NodeTransformer):
    """Replace the first (pre-order) IfExp / value-position BoolOp-with-calls by one of its arms."""

    def __init__(self, arm):
        self.arm = arm
        self.done = False
        self.test = None

    def visit_Lambda(self, n):
        return n

    def visit_ListComp(self, n):
        return n
    visit_SetComp = visit_DictComp = visit_GeneratorExp = visit_ListComp

    def visit_IfExp(self, n):
        if self.done:
            return n
        self.done = True
        self.test = n.test
        return n.body if self.arm else n.orelse


def _find_ifexp(e):
    """first IfExp in e, not inside lambda / comprehension"""
    stack = [e]
    while stack:
        n = stack.pop(0)
        if isinstance(n, ast.IfExp):
            return n
        if isinstance(n, (ast.Lambda, ast.ListComp, ast.SetComp, ast.DictComp, ast.GeneratorExp)):
            continue
        stack = list(ast.iter_child_nodes(n)) + stack
    return None


def _contains_call(e):
    for n in ast.walk(e):
        if isinstance(n, ast.Call):
            return True
    return False


class _BoolOpRewriter(ast.NodeTransformer):
    """value-position `a and f()` / `f() or b` -> conditional expression, so that short-circuited calls sit on a
    conditional path.  When the first operand itself contains a call it is evaluated once (in the test) and the
    short-circuit result is approximated by the constant False / True (same truthiness)."""

    def visit_Lambda(self, n):
        return n

    def visit_BoolOp(self, n):
        self.generic_visit(n)
        if len(n.values) >= 2 and any(_contains_call(v) for v in n.values):
            first = n.values[0]
            rest = n.values[1] if len(n.values) == 2 else ast.BoolOp(op=n.op, values=n.values[1:])
            if isinstance(rest, ast.BoolOp):
                rest = self.visit_BoolOp(rest)
            again = copy.deepcopy(first) if not _contains_call(first) else None
            if isinstance(n.op, ast.Or):
                new = ast.IfExp(test=first, body=again if again is not None else ast.Constant(value=True), orelse=rest)
            else:
                new = ast.IfExp(test=first, body=rest, orelse=again if again is not None else ast.Constant(value=False))
            return ast.fix_missing_locations(ast.copy_location(new, n))
        return n


class Graph(object):
    def __init__(self, root_frame):
        self.nodes = []
        self.entry = None
        self.root = root_frame
        self.exits = {}          # 'return' | 'raise:<atom>' -> node
        self.frames = {root_frame.id: root_frame}

    def exit_nodes(self):
        return [n for n in self.nodes if n.kind == 'exit']

    def to_networkx(self):
        import networkx as nx
        g = nx.DiGraph()
        for n in self.nodes:
            g.add_node(n.id)
            for lab, d in n.succ:
                g.add_edge(n.id, d.id)
        return g


class Builder(object):
    def __init__(self, repo, excm, policy):
        self.repo = repo
        self.excm = excm
        self.policy = policy
        self.ids = itertools.count()
        self.graph = None
        self._frame_ids = itertools.count(1)
        self.unresolved = []
        self.call_sites = []      # (node, target) for every call node created

    # ------------------------------------------------------------------ helpers
    def node(self, kind, a, frame, **info):
        n = Node(next(self.ids), kind, a, frame, info)
        self.graph.nodes.append(n)
        return n

    def new_frame(self, func, parent=None, call=None, binding=None, self_cls=None, lexical=None):
        f = Frame(func, parent, call, binding, self_cls, lexical, fid=next(self._frame_ids))
        if self.graph is not None:
            self.graph.frames[f.id] = f
        return f

    # ------------------------------------------------------------------ roots
    def build_root(self, func, self_cls=None, binding=None, lexical=None, generator_close=False):
        root = self.new_frame(func, None, None, binding or {}, self_cls or func.cls, lexical)
        g = Graph(root)
        self.graph = g
        ex_ret = self.node('exit', func.node, root, exit='return', what='exit:return')
        g.exits['return'] = ex_ret

        def mk(a):
            n = self.node('exit', func.node, root, exit='raise:' + a, what='exit:raise:' + a)
            g.exits['raise:' + a] = n
            return n
        exc = LazyMap(mk)
        ctx = Ctx(next=ex_ret, ret=ex_ret, exc=exc)
        g.entry = self.block(func.node.body if not isinstance(func.node, ast.Lambda) else [ast.Return(value=func.node.body)],
                             ctx, root)
        return g

    # ------------------------------------------------------------------ expressions
    def hoistable(self, e, frame):
        """calls / property reads in e in evaluation order (post-order: arguments before the call)"""
        out = []
        pol = self.policy

        def visit(n):
            if isinstance(n, ast.Lambda):
                return
            if isinstance(n, (ast.ListComp, ast.SetComp, ast.DictComp, ast.GeneratorExp)):
                out.append(n)
                return
            if isinstance(n, ast.Call):
                if isinstance(n.func, ast.Attribute):
                    visit(n.func.value)
                elif not isinstance(n.func, ast.Name):
                    visit(n.func)
                for ch in n.args:
                    visit(ch)
                for kw in n.keywords:
                    visit(kw.value)
                out.append(n)
                return
            if isinstance(n, ast.Attribute) and isinstance(n.ctx, ast.Load):
                visit(n.value)
                if pol.attr_target(n, frame) is not None:
                    out.append(n)
                return
            if isinstance(n, ast.Subscript) and isinstance(n.ctx, ast.Load):
                visit(n.value)
                visit(n.slice)
                if pol.subscript_raises(n, frame):
                    out.append(n)
                return
            if isinstance(n, ast.Compare):
                visit(n.left)
                for c_ in n.comparators:
                    visit(c_)
                if pol.compare_raises(n, frame):
                    out.append(n)
                return
            for ch in ast.iter_child_nodes(n):
                visit(ch)
        if e is not None:
            visit(e)
        return out

    def expr(self, e, ctx, frame):
        """entry node of a chain evaluating the calls of e, ending at ctx.next"""
        if e is None:
            return ctx.next
        nxt = ctx.next
        for c in reversed(self.hoistable(e, frame)):
            if isinstance(c, ast.Call):
                nxt = self.call(c, ctx.w(next=nxt), frame)
            elif isinstance(c, ast.Attribute):
                nxt = self.prop_read(c, ctx.w(next=nxt), frame)
            elif isinstance(c, ast.Subscript):
                n = self.node('subscript', c, frame, what='subscript ' + norm(c))
                n.edge('next', nxt)
                for a in sorted(self.policy.subscript_raises(c, frame)):
                    n.edge('exc:' + a, ctx.exc[a])
                nxt = n
            elif isinstance(c, ast.Compare):
                n = self.node('compare', c, frame, what='compare ' + norm(c))
                n.edge('next', nxt)
                for a in sorted(self.policy.compare_raises(c, frame)):
                    n.edge('exc:' + a, ctx.exc[a])
                nxt = n
            else:
                nxt = self.comprehension(c, ctx.w(next=nxt), frame)
        return nxt

    def comprehension(self, c, ctx, frame):
        """[elt for x in it if cond] as a loop executing the hoisted calls of elt / conditions 0..n times"""
        gens = c.generators
        done = self.node('stmt', c, frame, what='comp-done', comp=True)
        done.edge('next', ctx.next)
        head = self.node('branch', c, frame, what='comp-next', test=None, loop=True)
        parts = []
        for g in gens[1:]:
            parts.append(g.iter)
        for g in gens:
            parts.extend(g.ifs)
        if isinstance(c, ast.DictComp):
            parts.extend([c.key, c.value])
        else:
            parts.append(c.elt)
        body = head
        for p in reversed(parts):
            body = self.expr(p, ctx.w(next=body), frame)
        bind = self.node('stmt', c, frame, what='comp-target', target=gens[0].target)
        bind.edge('next', body)
        head.edge('true', bind)
        head.edge('false', done)
        for a in sorted(self.policy.iter_raises(c, frame)):
            head.edge('exc:' + a, ctx.exc[a])
        return self.expr(gens[0].iter, ctx.w(next=head), frame)

    # ------------------------------------------------------------------ calls
    def call(self, c, ctx, frame, target=None):
        t = target or self.policy.call_target(c, frame)
        br = self.policy.call_binding_raises(c, t, frame) if target is None else frozenset()
        if br:
            # binding the arguments can fail before the callee runs (a caller-supplied **kwargs name equal to one of the callee's own
            # parameters: "got multiple values for argument")
            inner = self.call(c, ctx, frame, target=t)
            n = self.node('truth', c, frame, what='argument binding of ' + norm(c.func))
            n.edge('next', inner)
            for a in sorted(br):
                n.edge('exc:' + a, ctx.exc[a])
            return n
        if t.kind == 'inline' and self._can_inline(t.func, frame):
            return self.inline_value(c, t, ctx, frame)
        n = self.node('call', c, frame, target=t, what='call ' + t.label)
        self.call_sites.append((n, t))
        if t.label.startswith('unknown:'):
            self.unresolved.append(n)
        n.edge('next', ctx.next)
        for a in sorted(t.raises):
            n.edge('exc:' + a, ctx.exc[a])
        entry = n
        if t.reentry:
            # the callee may call back into the listed methods any number of times before it returns / raises
            choice = self.node('branch', c, frame, what='reentry-choice', test=None, reentry=True)
            choice.edge('false', n)
            for k, rf in enumerate(t.reentry):
                synth = ast.copy_location(ast.Call(func=ast.Attribute(value=ast.Name(id='self', ctx=ast.Load()),
                                                                       attr=rf.name, ctx=ast.Load()),
                                                   args=[], keywords=[]), c)
                ast.fix_missing_locations(synth)
                rt = Target('inline', 'reentry:' + rf.qualname, func=rf, self_cls=rf.cls)
                if self._can_inline(rf, frame):
                    e = self.inline_value(synth, rt, ctx.w(next=choice), frame, reentry=True)
                    choice.edge('reenter:%s' % rf.name, e)
            entry = choice
        return entry

    def _can_inline(self, func, frame):
        if frame.depth >= self.policy.max_depth:
            return False
        for f in frame.chain():
            if f.func is func and not f.func.is_property:
                # direct recursion: the policy must supply a summary instead
                return False
        return True

    def _binding(self, call, func, frame, extra=None):
        """param name -> (expr, caller frame); *args/**kwargs pass-through recorded under '*name' / '**name'"""
        b = {}
        a = func.node.args
        params = [x.arg for x in getattr(a, 'posonlyargs', [])] + [x.arg for x in a.args]
        if isinstance(call, ast.Attribute):
            # property read: only the receiver is bound
            if params:
                b[params[0]] = ('recv', call.value, frame)
            return b
        skip_self = (func.cls is not None and not func.is_static and func.parent is None and params and
                     not isinstance(func.node, ast.Lambda))
        pos = params[1:] if skip_self else params
        if skip_self and isinstance(call.func, ast.Attribute):
            b[params[0]] = ('recv', call.func.value, frame)
        i = 0
        star = []
        for arg in call.args:
            if isinstance(arg, ast.Starred):
                star.append(arg.value)
                continue
            if i < len(pos):
                b[pos[i]] = ('expr', arg, frame)
                i += 1
            else:
                star.append(arg)
        if a.vararg is not None:
            b['*' + a.vararg.arg] = ('star', star, frame)
        dstar = []
        for kw in call.keywords:
            if kw.arg is None:
                dstar.append(kw.value)
            elif kw.arg in params or kw.arg in [x.arg for x in a.kwonlyargs]:
                b[kw.arg] = ('expr', kw.value, frame)
            else:
                dstar.append(kw)
        if a.kwarg is not None:
            b['**' + a.kwarg.arg] = ('dstar', dstar, frame)
        for p in params + [x.arg for x in a.kwonlyargs]:
            if p not in b:
                d = func.param_default(p)
                if d is not None:
                    b[p] = ('default', d, None)
        if extra:
            b.update(extra)
        return b

    def inline_value(self, c, t, ctx, frame, reentry=False):
        func = t.func
        callee = self.new_frame(func, frame, c, self._binding(c, func, frame, t.extra_binding), t.self_cls or func.cls,
                                t.lexical)
        leave = self.node('leave', c, frame, what='return-from ' + func.qualname, callee=callee, mode='value')
        leave.edge('next', ctx.next)
        memo = {}

        def mk_exc(a):
            if a not in memo:
                p = self.node('leave', c, frame, what='raise-from %s (%s)' % (func.qualname, a), callee=callee, mode='exc')
                p.edge('exc:' + a, ctx.exc[a])
                memo[a] = p
            return memo[a]
        inner = Ctx(next=leave, ret=leave, exc=LazyMap(mk_exc))
        enter = self.node('enter', c, frame, what='inline ' + func.qualname, callee=callee, reentry=reentry)
        body = func.node.body if not isinstance(func.node, ast.Lambda) else [ast.copy_location(ast.Return(value=func.node.body), func.node)]
        enter.edge('next', self.block(body, inner, callee))
        return enter

    def inline_test(self, c, t, tnode, fnode, ctx, frame):
        """inline callee in test position: `return e` jumps to tnode / fnode according to e"""
        func = t.func
        callee = self.new_frame(func, frame, c if isinstance(c, ast.Call) else None,
                                self._binding(c, func, frame) if isinstance(c, ast.Call) else {}, t.self_cls or func.cls,
                                t.lexical)
        lt = self.node('leave', c, frame, what='true-from ' + func.qualname, callee=callee, mode='test')
        lt.edge('next', tnode)
        lf = self.node('leave', c, frame, what='false-from ' + func.qualname, callee=callee, mode='test')
        lf.edge('next', fnode)
        memo = {}

        def mk_exc(a):
            if a not in memo:
                p = self.node('leave', c, frame, what='raise-from %s (%s)' % (func.qualname, a), callee=callee, mode='exc')
                p.edge('exc:' + a, ctx.exc[a])
                memo[a] = p
            return memo[a]
        # falling off the end returns None -> false
        inner = Ctx(next=lf, ret=None, exc=LazyMap(mk_exc))
        enter = self.node('enter', c, frame, what='inline-test ' + func.qualname, callee=callee)
        self._test_targets = getattr(self, '_test_targets', {})
        self._test_targets[callee.id] = (lt, lf)
        enter.edge('next', self.block(func.node.body, inner, callee))
        return enter

    def prop_read(self, attr, ctx, frame):
        func = self.policy.attr_target(attr, frame)
        t = Target('inline', 'property:' + func.qualname, func=func, self_cls=func.cls)
        if self._can_inline(func, frame):
            return self.inline_value(attr, t, ctx, frame)
        n = self.node('call', attr, frame, target=Target('opaque', 'property:' + func.qualname), what='prop ' + func.qualname)
        n.edge('next', ctx.next)
        return n

    # ------------------------------------------------------------------ conditions
    def cond(self, test, t, f, ctx, frame):
        if isinstance(test, ast.BoolOp):
            if isinstance(test.op, ast.And):
                nxt = t
                for v in reversed(test.values):
                    nxt = self.cond(v, nxt, f, ctx, frame)
                return nxt
            nxt = f
            for v in reversed(test.values):
                nxt = self.cond(v, t, nxt, ctx, frame)
            return nxt
        if isinstance(test, ast.UnaryOp) and isinstance(test.op, ast.Not):
            return self.cond(test.operand, f, t, ctx, frame)
        if isinstance(test, ast.IfExp):
            a = self.cond(test.body, t, f, ctx, frame)
            b = self.cond(test.orelse, t, f, ctx, frame)
            return self.cond(test.test, a, b, ctx, frame)
        if isinstance(test, ast.Constant):
            return t if test.value else f
        # property read / call in test position that the policy inlines
        if isinstance(test, ast.Attribute):
            func = self.policy.attr_target(test, frame)
            if func is not None and self._can_inline(func, frame):
                tg = Target('inline', 'property:' + func.qualname, func=func, self_cls=func.cls)
                inner = self.inline_test(test, tg, t, f, ctx, frame)
                return self.expr(test.value, ctx.w(next=inner), frame)
        if isinstance(test, ast.Call):
            tg = self.policy.call_target(test, frame)
            if tg.kind == 'inline' and self._can_inline(tg.func, frame) and not tg.func.is_generator:
                inner = self.inline_test(test, tg, t, f, ctx, frame)
                nxt = inner
                pre = []
                if isinstance(test.func, ast.Attribute):
                    pre.append(test.func.value)
                pre.extend(test.args)
                pre.extend(k.value for k in test.keywords)
                for p in reversed(pre):
                    nxt = self.expr(p, ctx.w(next=nxt), frame)
                return nxt
        b = self.node('branch', test, frame, test=test, what='if ' + norm(test))
        b.edge('true', t)
        b.edge('false', f)
        ra = self.policy.truth_raises(test, frame)
        if ra:
            tn = self.node('truth', test, frame, what='truth value of ' + norm(test))
            tn.edge('next', b)
            for a in sorted(ra):
                tn.edge('exc:' + a, ctx.exc[a])
            b = tn
        return self.expr(test, ctx.w(next=b), frame)

    # ------------------------------------------------------------------ statements
    def block(self, stmts, ctx, frame):
        nxt = ctx.next
        for s in reversed(stmts):
            nxt = self.stmt(s, ctx.w(next=nxt), frame)
        return nxt

    def stmt(self, s, ctx, frame):
        m = getattr(self, 's_' + type(s).__name__, None)
        if m is None:
            raise AnalysisError('statement kind not modelled: %s at %s:%s' % (type(s).__name__, frame.func.file, s.lineno))
        return m(s, ctx, frame)

    def _split(self, s, ctx, frame, rebuild):
        """if statement s contains an IfExp (or a BoolOp whose later operands call), branch on it"""
        s2 = _BoolOpRewriter().visit(copy.deepcopy(s)) if any(
            isinstance(n, ast.BoolOp) and any(_contains_call(v) for v in n.values) for n in ast.walk(s)) else s
        if _find_ifexp(s2) is None:
            return None
        sp_t = _IfExpSplitter(True)
        st = sp_t.visit(copy.deepcopy(s2))
        sp_f = _IfExpSplitter(False)
        sf = sp_f.visit(copy.deepcopy(s2))
        ast.fix_missing_locations(st)
        ast.fix_missing_locations(sf)
        for x in (st, sf):
            x._split_of = getattr(s, '_split_of', s)
        a = rebuild(st, ctx, frame)
        b = rebuild(sf, ctx, frame)
        return self.cond(sp_t.test, a, b, ctx, frame)

    def simple(self, s, ctx, frame, exprs, **info):
        n = self.node('stmt', s, frame, **info)
        n.edge('next', ctx.next)
        nxt = n
        for e in reversed(exprs):
            nxt = self.expr(e, ctx.w(next=nxt), frame)
        return nxt

    def s_Expr(self, s, ctx, frame):
        if isinstance(s.value, ast.Constant):
            return ctx.next
        if isinstance(s.value, ast.Yield):
            return self.s_yield(s, s.value, ctx, frame)
        r = self._split(s, ctx, frame, self.s_Expr)
        if r is not None:
            return r
        return self.simple(s, ctx, frame, [s.value], what='expr')

    def s_Assign(self, s, ctx, frame):
        if isinstance(s.value, ast.Yield):
            return self.s_yield(s, s.value, ctx, frame)
        r = self._split(s, ctx, frame, self.s_Assign)
        if r is not None:
            return r
        # property setter
        if len(s.targets) == 1 and isinstance(s.targets[0], ast.Attribute):
            st = self.policy.setter_target(s.targets[0], frame)
            if st is not None and self._can_inline(st, frame):
                synth = ast.copy_location(ast.Call(func=ast.Attribute(value=s.targets[0].value, attr=st.name, ctx=ast.Load()),
                                                   args=[s.value], keywords=[]), s)
                tg = Target('inline', 'setter:' + st.qualname, func=st, self_cls=st.cls)
                inner = self.inline_value(synth, tg, ctx, frame)
                return self.expr(s.value, ctx.w(next=inner), frame)
        tg_exprs = []
        store_raises = set()
        for t in s.targets:
            if isinstance(t, ast.Subscript):
                tg_exprs.extend([t.value, t.slice])
                store_raises |= set(self.policy.subscript_store_raises(t, frame))
            elif isinstance(t, ast.Attribute):
                tg_exprs.append(t.value)
        if store_raises:
            # the store itself is a call into the container's __setitem__ with an effect: the statement runs on the normal edge only
            inner = self.simple(s, ctx, frame, [], what='assign')
            n = self.node('truth', s, frame, what='subscript store ' + norm(s.targets[0]))
            n.edge('next', inner)
            for a in sorted(store_raises):
                n.edge('exc:' + a, ctx.exc[a])
            nxt = n
            for e in reversed([s.value] + tg_exprs):
                nxt = self.expr(e, ctx.w(next=nxt), frame)
            return nxt
        return self.simple(s, ctx, frame, [s.value] + tg_exprs, what='assign')

    def s_AugAssign(self, s, ctx, frame):
        ex = [s.value]
        if isinstance(s.target, ast.Subscript):
            ex.extend([s.target.value, s.target.slice])
        return self.simple(s, ctx, frame, ex, what='augassign')

    def s_AnnAssign(self, s, ctx, frame):
        return self.simple(s, ctx, frame, [s.value] if s.value else [], what='assign')

    def s_Pass(self, s, ctx, frame):
        return ctx.next

    def s_Global(self, s, ctx, frame):
        return ctx.next
    s_Nonlocal = s_Global

    def s_Import(self, s, ctx, frame):
        return ctx.next
    s_ImportFrom = s_Import

    def s_Delete(self, s, ctx, frame):
        return self.simple(s, ctx, frame, [], what='delete')

    def s_FunctionDef(self, s, ctx, frame):
        n = self.node('stmt', s, frame, what='def ' + s.name)
        n.edge('next', ctx.next)
        return n

    def s_ClassDef(self, s, ctx, frame):
        n = self.node('stmt', s, frame, what='class ' + s.name)
        n.edge('next', ctx.next)
        return n

    def s_Return(self, s, ctx, frame):
        tt = getattr(self, '_test_targets', {}).get(frame.id)
        if tt is not None:
            lt, lf = tt
            if s.value is None:
                return lf
            return self.cond(s.value, lt, lf, ctx, frame)
        r = self._split(s, ctx, frame, self.s_Return)
        if r is not None:
            return r
        n = self.node('stmt', s, frame, what='return')
        n.edge('return', ctx.ret)
        return self.expr(s.value, ctx.w(next=n), frame)

    def s_Raise(self, s, ctx, frame):
        if s.exc is None:
            a = ctx.cur_exc
            if a is None:
                raise AnalysisError('bare raise outside handler at %s:%s' % (frame.func.file, s.lineno))
            n = self.node('raise', s, frame, atoms=(a,), what='re-raise', reraise=True, handler=ctx.cur_handler)
            n.edge('exc:' + a, ctx.exc[a])
            return n
        from .exc import last_name
        name = last_name(s.exc)
        reraise = False
        if isinstance(s.exc, ast.Name) and ctx.cur_exc_name and s.exc.id == ctx.cur_exc_name:
            atoms = [ctx.cur_exc]
            reraise = True
        elif name and (name in self.excm.parents or self.excm._is_exception_class(name)) and \
                (isinstance(s.exc, ast.Call) or name in self.excm.parents):
            atoms = [self.excm.atom_of(name)]
        else:
            # raise <value of unknown class> (e.g. a recorded exception object)
            atoms = sorted(self.excm.under_exception)
        n = self.node('raise', s, frame, atoms=tuple(atoms), what='raise ' + norm(s.exc), reraise=reraise,
                      handler=ctx.cur_handler if reraise else None)
        for a in atoms:
            n.edge('exc:' + a, ctx.exc[a])
        return self.expr(s.exc, ctx.w(next=n), frame)

    def s_Assert(self, s, ctx, frame):
        a = self.excm.atom_of('AssertionError')
        fl = self.node('raise', s, frame, atoms=(a,), what='assert-fails', assertion=True)
        fl.edge('exc:' + a, ctx.exc[a])
        return self.cond(s.test, ctx.next, fl, ctx, frame)

    def s_If(self, s, ctx, frame):
        t = self.block(s.body, ctx, frame)
        f = self.block(s.orelse, ctx, frame)
        return self.cond(s.test, t, f, ctx, frame)

    def s_While(self, s, ctx, frame):
        head = self.node('join', s, frame, what='while-head', loop=True)
        after = self.block(s.orelse, ctx, frame)
        body = self.block(s.body, ctx.w(next=head, brk=ctx.next, cont=head), frame)
        head.edge('next', self.cond(s.test, body, after, ctx, frame))
        return head

    def s_For(self, s, ctx, frame):
        head = self.node('branch', s, frame, what='for-next', test=None, loop=True, for_stmt=s)
        after = self.block(s.orelse, ctx, frame)
        body = self.block(s.body, ctx.w(next=head, brk=ctx.next, cont=head), frame)
        bind = self.node('stmt', s, frame, what='for-target', target=s.target)
        bind.edge('next', body)
        head.edge('true', bind)
        head.edge('false', after)
        for a in sorted(self.policy.iter_raises(s, frame)):
            head.edge('exc:' + a, ctx.exc[a])
        return self.expr(s.iter, ctx.w(next=head), frame)

    def s_Break(self, s, ctx, frame):
        return ctx.brk

    def s_Continue(self, s, ctx, frame):
        return ctx.cont

    def s_Try(self, s, ctx, frame):
        outer = ctx
        if s.finalbody:
            memo = {}

            def fin(cont_node, tag, reraise_atom=None):
                if cont_node is None:
                    return None
                if tag not in memo:
                    fkey = (frame.id, id(s), tag)
                    mark = self.node('join', s, frame, what='finally(%s)' % tag, finally_tag=tag, fkey=fkey)
                    end = self.node('join', s, frame, what='end-finally(%s)' % tag, finally_end=tag, fkey=fkey)
                    end.edge(tag if tag.startswith('exc:') else 'next', cont_node)
                    mark.edge('next', self.block(s.finalbody, outer.w(next=end), frame))
                    memo[tag] = mark
                return memo[tag]
            exc = LazyMap(lambda a: fin(outer.exc[a], 'exc:' + a))
            ctx = outer.w(next=fin(outer.next, 'next'), ret=fin(outer.ret, 'ret'), exc=exc,
                          brk=fin(outer.brk, 'brk'), cont=fin(outer.cont, 'cont'))
        if s.handlers:
            hctx = ctx
            caught = []
            for h in s.handlers:
                caught.append(self.excm.handler_atoms(h.type))
            hmemo = {}

            def dispatch(a):
                for h, cs in zip(s.handlers, caught):
                    if a in cs:
                        key = (id(h), a)
                        if key not in hmemo:
                            hn = self.node('join', h, frame, what='handler', atom=a, handler=h, binds=h.name,
                                           hkey=(frame.id, id(h), h.lineno))
                            hn.edge('next', self.block(h.body, hctx.w(cur_exc=a, cur_exc_name=h.name,
                                                                      cur_handler=(frame.id, id(h), h.lineno)), frame))
                            hmemo[key] = hn
                        return hmemo[key]
                return hctx.exc[a]
            body_next = self.block(s.orelse, ctx, frame) if s.orelse else ctx.next
            body_ctx = ctx.w(next=body_next, exc=LazyMap(dispatch))
        else:
            body_ctx = ctx
        return self.block(s.body, body_ctx, frame)

    def s_With(self, s, ctx, frame):
        if len(s.items) != 1:
            # nest
            inner = ast.copy_location(ast.With(items=s.items[1:], body=s.body), s)
            outer_w = ast.copy_location(ast.With(items=s.items[:1], body=[inner]), s)
            return self.s_With(outer_w, ctx, frame)
        item = s.items[0]
        cm = item.context_expr
        gen = self.policy.with_target(cm, frame)
        if gen is None:
            # plain context manager: __exit__ runs on every exit and never swallows
            memo = {}

            def ex(cont_node, tag):
                if cont_node is None:
                    return None
                if tag not in memo:
                    n = self.node('with-exit', s, frame, what='with-exit(%s) %s' % (tag, norm(cm)), cm=cm, tag=tag)
                    n.edge('next' if not tag.startswith('exc:') else tag, cont_node)
                    memo[tag] = n
                return memo[tag]
            wctx = ctx.w(next=ex(ctx.next, 'next'), ret=ex(ctx.ret, 'ret'),
                         exc=LazyMap(lambda a: ex(ctx.exc[a], 'exc:' + a)),
                         brk=ex(ctx.brk, 'brk'), cont=ex(ctx.cont, 'cont'))
            body = self.block(s.body, wctx, frame)
            enter = self.node('with-enter', s, frame, what='with-enter ' + norm(cm), cm=cm, asname=item.optional_vars)
            enter.edge('next', body)
            return self.expr(cm, ctx.w(next=enter), frame)
        return self._with_generator(s, cm, gen, ctx, frame)

    def _with_generator(self, s, cm, gen, ctx, frame):
        """inline a @contextmanager generator: pre-yield ; body ; post-yield.
        One instance of the generator graph per way the body can be left (normal / return / break / continue);
        exceptions of the body are thrown in at the yield of the 'normal' instance."""
        call = cm
        binding = self._binding(call, gen, frame) if isinstance(call, ast.Call) else {}
        callee = self.new_frame(gen, frame, call, binding, gen.cls, None)

        def build(final, tag):
            hook = {}
            prev = getattr(self, '_yield_hook', None)
            self._yield_hook = (callee.id, hook)
            leave = self.node('leave', s, frame, what='cm-exit(%s) %s' % (tag, gen.qualname), callee=callee, mode='cm')
            leave.edge('next', final)
            memo = {}

            def mk_exc(a):
                if a not in memo:
                    p = self.node('leave', s, frame, what='cm-raise %s (%s)' % (gen.qualname, a), callee=callee, mode='exc')
                    p.edge('exc:' + a, ctx.exc[a])
                    memo[a] = p
                return memo[a]
            gctx = Ctx(next=leave, ret=leave, exc=LazyMap(mk_exc))
            entry = self.block(gen.node.body, gctx, callee)
            self._yield_hook = prev
            if 'yield' not in hook:
                raise AnalysisError('contextmanager without yield: %s' % gen.qualname)
            return entry, hook

        # instance 1: entered from the with statement; body leaves normally or by exception
        e1, h1 = build(ctx.next, 'next')
        ynode = h1['yield']
        body_exc = LazyMap(lambda a: self._throw_in(h1, a, s, frame))

        def alt(final, tag):
            if final is None:
                return None
            # the body left by return / break / continue: the generator is resumed normally, then control goes to `final`
            e, h = build(final, tag)
            j = self.node('join', s, frame, what='with-body-%s' % tag)
            j.edge('next', h['after'])
            return j
        after_normal = self.node('join', s, frame, what='with-body-normal')
        after_normal.edge('next', h1['after'])
        bctx = ctx.w(next=after_normal, ret=alt(ctx.ret, 'ret'), exc=body_exc, brk=alt(ctx.brk, 'brk'),
                     cont=alt(ctx.cont, 'cont'))
        body = self.block(s.body, bctx, frame)
        ynode.edge('body', body)
        enter = self.node('enter', s, frame, what='enter-cm ' + gen.qualname, callee=callee)
        enter.edge('next', e1)
        pre = []
        if isinstance(cm, ast.Call):
            if isinstance(cm.func, ast.Attribute):
                pre.append(cm.func.value)
            pre.extend(cm.args)
            pre.extend(k.value for k in cm.keywords)
        nxt = enter
        for p in reversed(pre):
            nxt = self.expr(p, ctx.w(next=nxt), frame)
        return nxt

    def _throw_in(self, hook, a, s, frame):
        j = self.node('join', s, frame, what='with-body-exc', atom=a)
        j.edge('exc:' + a, hook['exc'][a])
        return j

    def s_yield(self, s, y, ctx, frame):
        hk = getattr(self, '_yield_hook', None)
        if hk is not None and hk[0] == frame.id and 'yield' not in hk[1]:
            n = self.node('yield', s, frame, what='cm-yield', cm=True)
            hk[1]['yield'] = n
            hk[1]['after'] = ctx.next
            hk[1]['exc'] = ctx.exc
            return n
        n = self.node('yield', s, frame, what='yield', value=y.value)
        n.edge('next', ctx.next)
        for a in sorted(self.policy.yield_raises(y, frame)):
            n.edge('exc:' + a, ctx.exc[a])
        return self.expr(y.value, ctx.w(next=n), frame)
