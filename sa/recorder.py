"""Model of the TapeRecorder: role discovery (anchors by role, not by private name), the resolution policy
(which callables are user bodies / plug-ins, what the cassette interface does) and the abstract domain
(events counted along paths, nullable dereferences) shared by C01-C05, C09, C17, C18.
"""
import ast

from .cfg import Builder, Target
from .flow import Domain, State, V, NONE, TRUE, FALSE, EMPTY, sym, const
from .loader import AnalysisError, walk_own, norm
from .resolve import RepoPolicy
from .summaries import Summaries


def _self_attr(e):
    """'x' for `self.x`"""
    if isinstance(e, ast.Attribute) and isinstance(e.value, ast.Name) and e.value.id == 'self':
        return e.attr
    return None



class StructuralFinding(AnalysisError):
    """a role is held by a construct whose place alone breaks a property (e.g. per-recorder state kept in a module-level object):
    the rules that own the property report it as a violation; for the others the anchor is lost"""
    def __init__(self, what, cls):
        AnalysisError.__init__(self, 'anchor-lost role=%s (held by module-level `%s`)' % (what[0], what[1]))
        self.what = what
        self.cls = cls

class RecorderRoles(object):
    """Discovers the recorder class and the role of its fields / functions structurally."""

    def __init__(self, repo):
        self.repo = repo
        cands = [c for c in repo.all_classes() if 'start_recording' in c.methods and 'play' in c.methods]
        if len(cands) != 1:
            raise AnalysisError('anchor-lost role=recorder-class (candidates: %s)' % [c.name for c in cands])
        self.cls = c = cands[0]
        self.init = self._m('__init__')
        self.start = self._m('start_recording')
        self.play = self._m('play')
        self.discard = self._m('discard_recording')
        self.force = self._m('force_sample_recording')
        # ---- fields
        self.active = self._one('active-recording-field', [
            _self_attr(n.targets[0]) for n in ast.walk(self.start.node)
            if isinstance(n, ast.Assign) and len(n.targets) == 1 and _self_attr(n.targets[0]) and
            isinstance(n.value, ast.Call) and isinstance(n.value.func, ast.Attribute) and
            n.value.func.attr == 'create_new_recording'])
        self.cassette = self._one('cassette-field', [
            _self_attr(n.func.value) for n in ast.walk(self.start.node)
            if isinstance(n, ast.Call) and isinstance(n.func, ast.Attribute) and n.func.attr == 'create_new_recording'
            and _self_attr(n.func.value)])
        # parameters field: the other self field assigned in start_recording before the try
        pre = []
        typed = []
        for s in self.start.node.body:
            if isinstance(s, ast.Try):
                break
            if isinstance(s, ast.Assign) and len(s.targets) == 1 and _self_attr(s.targets[0]) and \
                    _self_attr(s.targets[0]) != self.active:
                pre.append(_self_attr(s.targets[0]))
                if any(isinstance(x, ast.Name) and x.id == 'RecordingParameters' for x in ast.walk(s.value)):
                    typed.append(_self_attr(s.targets[0]))
        typed_any = {_self_attr(n.targets[0]) for n in walk_own(self.start.node)
                     if isinstance(n, ast.Assign) and len(n.targets) == 1 and _self_attr(n.targets[0]) and _self_attr(n.targets[0]) != self.active and
                     any(isinstance(x, ast.Name) and x.id == 'RecordingParameters' for x in ast.walk(n.value))}
        if len(typed_any) == 1:
            pre = sorted(typed_any)     # wherever in the scope opener it is installed: the field built from RecordingParameters
        elif len(set(pre)) > 1 and len(set(typed)) == 1:
            pre = typed        # further per-run fields may be set there: the parameters field is the one built from RecordingParameters
        self.params = self._one('recording-parameters-field', pre)
        # playback field: assigned in play from (a local holding) the result of get_recording
        got = set()
        pf = []
        for n in ast.walk(self.play.node):
            if isinstance(n, ast.Assign) and len(n.targets) == 1:
                v = n.value
                is_get = isinstance(v, ast.Call) and isinstance(v.func, ast.Attribute) and v.func.attr == 'get_recording'
                if isinstance(n.targets[0], ast.Name) and is_get:
                    got.add(n.targets[0].id)
        for n in ast.walk(self.play.node):
            if isinstance(n, ast.Assign) and len(n.targets) == 1 and _self_attr(n.targets[0]):
                v = n.value
                is_get = isinstance(v, ast.Call) and isinstance(v.func, ast.Attribute) and v.func.attr == 'get_recording'
                if is_get or (isinstance(v, ast.Name) and v.id in got):
                    pf.append(_self_attr(n.targets[0]))
        # the public property in_playback_mode names the field when it exists (robust against further fields set from the fetch)
        ipm = c.lookup('in_playback_mode')
        if ipm is not None:
            named = sorted({_self_attr(x) for n in ast.walk(ipm.node) if isinstance(n, ast.Return) and n.value is not None
                            for x in ast.walk(n.value) if _self_attr(x)})
            if len(named) == 1 and any(isinstance(n, ast.Assign) and any(_self_attr(t) == named[0] for t in n.targets)
                                       for n in ast.walk(self.play.node)):
                pf = named
        self.playback = self._one('playback-recording-field', pf)
        # fields initialised in __init__
        self.init_values = {}
        for n in ast.walk(self.init.node):
            if isinstance(n, ast.Assign) and len(n.targets) == 1 and _self_attr(n.targets[0]):
                self.init_values[_self_attr(n.targets[0])] = n.value
        counters = [f for f, v in self.init_values.items() if isinstance(v, ast.Call) and isinstance(v.func, ast.Name) and v.func.id == 'Counter']
        if len(counters) > 1:
            # several counting fields: the output ordinal is the one incremented and read back as the ordinal handed to the output recorder
            # inside the per-call wrapper of a decorator (a function taking *args, **kwargs) - a counter kept by a helper method is something else
            per_call = [fn_ for fn_ in ast.walk(c.node) if isinstance(fn_, ast.FunctionDef) and fn_.args.vararg is not None and fn_.args.kwarg is not None]
            ordinal = [f for f in counters if any(
                isinstance(n, ast.AugAssign) and isinstance(n.target, ast.Subscript) and _self_attr(n.target.value) == f for fn_ in per_call for n in ast.walk(fn_))]
            if len(ordinal) != 1:
                # ... and the one a replay restarts when it ends
                in_play = [f for f in (ordinal or counters) if any(isinstance(n, ast.Assign) and any(_self_attr(t) == f for t in n.targets)
                                                                   for n in ast.walk(self.play.node))]
                ordinal = in_play if len(in_play) == 1 else ordinal
            if len(ordinal) == 1:
                counters = ordinal
        self.counter = self._one('invocation-counter-field', counters)
        tl_fields = [f for f, v in self.init_values.items() if isinstance(v, ast.Call) and norm(v.func) in ('threading.local', 'local')]
        self.structural = []     # constructs that break a property by their place alone (reported by the owning rule before anything is interpreted)
        tl_globals = [(g, v) for g, v in c.module.globals.items() if isinstance(v, ast.Call) and norm(v.func) in ('threading.local', 'local') and
                      any(isinstance(n, ast.Name) and n.id == g for m_ in c.methods.values() for n in ast.walk(m_.node))] if not tl_fields else []
        if tl_globals:
            g, v = tl_globals[0]
            self.structural.append(('shared-thread-local', g, getattr(v, 'lineno', 1)))
            raise StructuralFinding(self.structural[0], c)
        self.thread_local = self._one('thread-local-field', tl_fields)
        rnd = sorted(f for f, v in self.init_values.items() if isinstance(v, ast.Call) and isinstance(v.func, ast.Name) and
                     v.func.id == 'Random')
        if len(rnd) > 1:
            raise AnalysisError('anchor-lost role=seeded-generator-field (candidates: %s)' % rnd)
        self.random = rnd[0] if rnd else None       # None: no generator built in the constructor (C17.b reports the draw's source)
        # outputs field: list field appended with Output(...)
        outs = []
        for m in c.methods.values():
            for n in ast.walk(m.node):
                if isinstance(n, ast.Call) and isinstance(n.func, ast.Attribute) and n.func.attr == 'append' and \
                        _self_attr(n.func.value) and n.args and isinstance(n.args[0], ast.Call) and \
                        isinstance(n.args[0].func, ast.Name) and n.args[0].func.id == 'Output':
                    outs.append(_self_attr(n.func.value))
        self.outputs = self._one('playback-outputs-field', outs)
        # force flag: field returned by the property is_recording_sample_forced
        fp = c.lookup('is_recording_sample_forced')
        if fp is None:
            raise AnalysisError('anchor-lost role=force-flag-property')
        self.force_flag = self._one('force-flag-field', [
            _self_attr(n.value) for n in ast.walk(fp.node) if isinstance(n, ast.Return) and _self_attr(n.value)])
        en = self._m('enable_recording')
        en_fields = [_self_attr(n.targets[0]) for n in ast.walk(en.node) if isinstance(n, ast.Assign) and _self_attr(n.targets[0])]
        en_true = [_self_attr(n.targets[0]) for n in ast.walk(en.node) if isinstance(n, ast.Assign) and _self_attr(n.targets[0]) and
                   isinstance(n.value, ast.Constant) and n.value.value is True]
        if len(set(en_fields)) > 1 and len(set(en_true)) == 1:
            en_fields = en_true       # the switch is the field set to True; anything else written there is not the switch
        self.enabled = self._one('enabled-field', en_fields)
        def table_reads(fn):
            return [_self_attr(n.func.value) for n in ast.walk(fn.node)
                    if isinstance(n, ast.Call) and isinstance(n.func, ast.Attribute) and n.func.attr == 'get' and _self_attr(n.func.value)] + \
                   [_self_attr(n.value) for n in ast.walk(fn.node) if isinstance(n, ast.Subscript) and _self_attr(n.value) and
                    isinstance(self.init_values.get(_self_attr(n.value)), (ast.Dict, ast.Call))]
        tr = table_reads(self.start)
        if not tr:
            # the lookup written as a helper of the recorder: the table is what that helper reads
            for n in ast.walk(self.start.node):
                if isinstance(n, ast.Call) and _self_attr(n.func) and c.lookup(n.func.attr) is not None:
                    tr += [f for f in table_reads(c.lookup(n.func.attr)) if isinstance(self.init_values.get(f), ast.Dict)]
        self.class_params = self._one('class-parameters-table', tr)
        self.per_run_fields = [self.active, self.params, self.force_flag, self.counter, self.playback, self.outputs]
        # ---- reset routine: the method (not __init__) that assigns None to the active field and is called by discard
        resets = [m for m in c.methods.values() if m is not self.init and any(
            isinstance(n, ast.Assign) and _self_attr(n.targets[0]) == self.active and isinstance(n.value, ast.Constant)
            and n.value.value is None for n in walk_own(m.node) if isinstance(n, ast.Assign) and len(n.targets) == 1)]
        called = {n.func.attr for n in ast.walk(self.discard.node) if isinstance(n, ast.Call) and
                  isinstance(n.func, ast.Attribute) and _self_attr(n.func) is not None}
        called |= {n.func.attr for n in ast.walk(self.start.node) if isinstance(n, ast.Call) and
                   isinstance(n.func, ast.Attribute) and _self_attr(n.func) is not None}
        resets = [m for m in resets if m.name in called and m is not self.discard] or [m for m in resets if m is self.discard]
        self.reset = self._onef('reset-routine', resets)
        # ---- decorator factories and closures
        self.closures = {}      # 'operation' | 'input' | 'output' -> (factory FuncInfo, decorator FuncInfo, closure FuncInfo)
        for m in c.methods.values():
            for d in m.nested.values():
                if isinstance(d, list):
                    continue
                if len(d.params) == 1:
                    for cl in d.nested.values():
                        if isinstance(cl, list):
                            continue
                        a = cl.node.args
                        if a.vararg is not None and a.kwarg is not None:
                            kind = self._closure_kind(cl)
                            if kind:
                                if kind in self.closures:
                                    raise AnalysisError('anchor-lost role=%s-closure (ambiguous)' % kind)
                                self.closures[kind] = (m, d, cl)
        for k in ('operation', 'input', 'output'):
            if k not in self.closures:
                raise AnalysisError('anchor-lost role=%s-closure' % k)
        # ---- executor: the method called from both the input and the output closure that invokes one of its
        #      parameters as a callable (the wrapped function)
        def called_methods(fn):
            return {n.func.attr for n in ast.walk(fn.node) if isinstance(n, ast.Call) and _self_attr(n.func)}
        common = called_methods(self.closures['input'][2]) & called_methods(self.closures['output'][2])
        def calls_own_param(m):
            return any(isinstance(n, ast.Call) and isinstance(n.func, ast.Name) and n.func.id in m.params[1:] for n in walk_own(m.node))

        def innermost(m, depth=0):
            # the method that finally invokes the wrapped function: m itself, or the method m hands its parameter to
            if calls_own_param(m):
                return m
            if depth < 3:
                for n in walk_own(m.node):
                    if isinstance(n, ast.Call) and _self_attr(n.func) and c.lookup(n.func.attr) is not None and \
                            any(isinstance(a, ast.Name) and a.id in m.params[1:] for a in n.args):
                        r = innermost(c.lookup(n.func.attr), depth + 1)
                        if r is not None:
                            return r
            return None
        self.calls_wrapped = innermost
        execs = []
        for nm in sorted(common):
            m = c.lookup(nm)
            if m is None or m.is_property:
                continue
            r = innermost(m)
            if r is not None and r not in execs:
                execs.append(r)
        self.executor = self._onef('interception-executor', execs)
        self.interception_cm = None
        for w in [n for n in walk_own(self.executor.node) if isinstance(n, ast.With)]:
            cm = w.items[0].context_expr
            if isinstance(cm, ast.Call) and _self_attr(cm.func) and c.lookup(cm.func.attr) is not None and \
                    c.lookup(cm.func.attr).is_contextmanager:
                self.interception_cm = c.lookup(cm.func.attr)
        # ---- replay reader: method reading the playback field and raising / returning envelope entries
        readers = [c.lookup(nm) for nm in sorted(common) if c.lookup(nm) is not None and c.lookup(nm) is not self.executor and
                   not c.lookup(nm).is_property and any(_self_attr(n) == self.playback for n in ast.walk(c.lookup(nm).node))]
        self.reader = self._onef('replay-reader', readers)
        # ---- operation executor: method calling its first non-self parameter and recording the operation alias
        op_called = called_methods(self.closures['operation'][2])
        opx = [m for m in c.methods.values() if m is not self.executor and m.name in op_called and len(m.params) >= 2 and any(
            isinstance(n, ast.Call) and isinstance(n.func, ast.Name) and n.func.id == m.params[1]
            for n in walk_own(m.node)) and any(isinstance(n, ast.Try) for n in walk_own(m.node))]
        self.op_executor = self._onef('operation-executor', opx)
        # ---- key builders: functions whose return value formats a literal starting 'input:' / 'output:'
        self.key_builders = {}
        for m in c.methods.values():
            for n in walk_own(m.node):
                if isinstance(n, ast.Return) and n.value is not None:
                    for k in ast.walk(n.value):
                        if isinstance(k, ast.Constant) and isinstance(k.value, str):
                            for pre in ('input:', 'output:'):
                                if k.value.startswith(pre):
                                    self.key_builders[pre[:-1]] = m
        for k in ('input', 'output'):
            if k not in self.key_builders:
                raise AnalysisError('anchor-lost role=%s-key-builder' % k)
        # ---- record helpers
        rds = [m for m in c.methods.values() if any(
            isinstance(n, ast.Assign) and isinstance(n.targets[0], ast.Subscript) and _self_attr(n.targets[0].value) == self.active
            for n in walk_own(m.node))]
        self.record_data = self._onef('record-data (stores into the active recording)', rds)
        ros = [m for m in c.methods.values() if any(isinstance(n, ast.Call) and isinstance(n.func, ast.Attribute) and n.func.attr == 'append' and
                                                     _self_attr(n.func.value) == self.outputs for n in ast.walk(m.node))]
        if len(ros) != 1:
            raise AnalysisError('anchor-lost role=record-output (candidates: %s)' % [m.qualname for m in ros])
        self.record_output = ros[0]
        self.sampler = None
        for m in c.methods.values():
            if any(isinstance(n, ast.Call) and isinstance(n.func, ast.Attribute) and n.func.attr == 'random' and
                   _self_attr(n.func.value) and (self.random is None or _self_attr(n.func.value) == self.random) for n in ast.walk(m.node)):
                self.sampler = m
        if self.sampler is None:
            raise AnalysisError('anchor-lost role=sampling-decision')
        self.post_metadata = None
        for m in c.methods.values():
            if any(isinstance(n, ast.Call) and isinstance(n.func, ast.Attribute) and n.func.attr == 'add_metadata'
                   for n in ast.walk(m.node)):
                self.post_metadata = m
        self.extractor = c.lookup('_extract_recorded_output')
        if self.extractor is None:
            raise AnalysisError('anchor-lost role=output-extractor')
        # public re-entrant API: parameterless public methods that write recorder state
        self.reentrant = []
        for m in c.methods.values():
            if m.name.startswith('_') or m.is_property or m.is_generator or len(m.params) != 1 or m.nested.get('<lambdas>') or \
                    any(not isinstance(v, list) for v in m.nested.values()):
                continue
            writes = any(isinstance(n, ast.Assign) and any(_self_attr(t) for t in n.targets) for n in ast.walk(m.node))
            calls_reset = any(isinstance(n, ast.Call) and _self_attr(n.func) == self.reset.name for n in ast.walk(m.node))
            if writes or calls_reset:
                self.reentrant.append(m)
        self.reentrant.sort(key=lambda m: m.name)

    def _closure_kind(self, cl):
        names = {n.func.attr for n in ast.walk(cl.node) if isinstance(n, ast.Call) and isinstance(n.func, ast.Attribute)
                 and _self_attr(n.func)}
        if 'start_recording' in names:
            return 'operation'
        subs = {_self_attr(n.value) for n in ast.walk(cl.node) if isinstance(n, ast.Subscript)}
        if self.counter in subs:
            return 'output'
        kb = set()
        # calls made by helper functions defined beside the closure (in its decorator) and called by it count as the closure's own
        par = cl.parent
        if par is not None:
            local_called = {n.func.id for n in ast.walk(cl.node) if isinstance(n, ast.Call) and isinstance(n.func, ast.Name)}
            for nm_, sib in par.nested.items():
                if not isinstance(sib, list) and sib is not cl and nm_ in local_called:
                    names |= {n.func.attr for n in ast.walk(sib.node) if isinstance(n, ast.Call) and isinstance(n.func, ast.Attribute) and _self_attr(n.func)}
        for nm in names:
            m = self.cls.lookup(nm)
            if m is not None:
                for n in walk_own(m.node):
                    if isinstance(n, ast.Return) and n.value is not None and any(
                            isinstance(k, ast.Constant) and isinstance(k.value, str) and k.value.startswith('input:')
                            for k in ast.walk(n.value)):
                        kb.add(nm)
        if kb:
            return 'input'
        return None

    def _m(self, name):
        m = self.cls.lookup(name)
        if m is None:
            raise AnalysisError('anchor-lost method=%s.%s' % (self.cls.name, name))
        return m

    def _one(self, role, cands):
        cands = sorted({c for c in cands if c})
        if len(cands) != 1:
            raise AnalysisError('anchor-lost role=%s (candidates: %s)' % (role, cands))
        return cands[0]

    def _onef(self, role, cands):
        if len(cands) != 1:
            raise AnalysisError('anchor-lost role=%s (candidates: %s)' % (role, [c.qualname for c in cands]))
        return cands[0]

    def describe(self):
        d = {k: getattr(self, k) for k in ('active', 'params', 'playback', 'outputs', 'counter', 'force_flag', 'enabled',
                                           'thread_local', 'random', 'cassette', 'class_params')}
        d.update({'class': self.cls.name, 'reset': self.reset.qualname, 'executor': self.executor.qualname,
                  'reader': self.reader.qualname, 'op_executor': self.op_executor.qualname,
                  'record_output': self.record_output.qualname, 'sampler': self.sampler.qualname,
                  'closures': {k: v[2].qualname for k, v in self.closures.items()},
                  'reentrant_api': [m.name for m in self.reentrant],
                  'key_builders': {k: v.qualname for k, v in self.key_builders.items()}})
        return d


CASSETTE_MUTATORS = ('create_new_recording', 'save_recording', 'abort_recording')


class RecorderPolicy(RepoPolicy):
    def __init__(self, repo, excm, roles, summaries=None, reentry=True, body_raises=None, framework_faults=False):
        RepoPolicy.__init__(self, repo, excm)
        self.roles = roles
        # framework_faults: additionally let every cassette call fail with an ordinary exception (third-party cassette) and every
        # plug-in be interrupted (BaseException) - the fault model of C09 ("a failure inside the framework")
        self.framework_faults = framework_faults
        self.summaries = summaries or Summaries(repo, excm)
        self.reentry = reentry
        self.body_params = set()
        for kind, (fac, deco, cl) in roles.closures.items():
            self.body_params.add((id(deco), deco.params[0]))
        self.body_params.add((id(roles.play), roles.play.params[2] if len(roles.play.params) > 2 else None))
        self.iface_cache = {}
        self._pure_cache = {}

    def param_iface(self, owner, param):
        if owner is self.roles.init and self.field_types.get((self.roles.cls.name, self.roles.cassette)) == ('param', param):
            return 'TapeCassette'
        return None

    def user_role(self, owner, param):
        if (id(owner), param) in self.body_params:
            return 'body'
        # the executors receive the wrapped function as a parameter: resolved through bindings when inlined;
        # when analysed on their own their callable parameter is the body
        if owner in (self.roles.executor, self.roles.op_executor) and len(owner.params) > 1 and param == owner.params[1]:
            return 'body'
        if owner.cls is self.roles.cls:
            return 'plugin'
        return None

    def plugin_method(self, owner, param, meth):
        return False

    def user_target(self, owner, param, meth, call, frame):
        t = RepoPolicy.user_target(self, owner, param, meth, call, frame)
        if self.framework_faults and t.role == 'plugin':
            return Target('opaque', t.label, raises=self.excm.all, role='plugin')
        return t

    def call_target(self, call, frame, for_with=False):
        # turning the caller's own arguments into text runs their __repr__ / __str__ / __format__: user code that may raise
        f = call.func
        fmt = (isinstance(f, ast.Attribute) and f.attr == 'format' and isinstance(f.value, ast.Constant) and isinstance(f.value.value, str)) or \
            (isinstance(f, ast.Name) and f.id in ('repr', 'str', 'format', 'unicode'))
        if fmt:
            star = set()
            fn = frame.func
            while fn is not None:
                a = fn.node.args
                star |= {x.arg for x in (a.vararg, a.kwarg) if x is not None}
                fn = getattr(fn, 'parent', None)
            used = [x for x in list(call.args) + [k.value for k in call.keywords] if isinstance(x, ast.Name) and x.id in star]
            if used:
                return Target('opaque', 'format-user-arguments:' + norm(call)[:60], raises=self.excm.ordinary, role='lib')
            # ... and so does turning into text the exception the wrapped function itself raised (its __str__ is user code)
            # (repr() of an exception is taken not to raise: BaseException.__repr__ is rarely redefined, and the recorder's own fallback
            # form of an unserialisable exception relies on it)
            names = {x.id for x in list(call.args) + [k.value for k in call.keywords] if isinstance(x, ast.Name)}
            if names and not (isinstance(f, ast.Name) and f.id == 'repr'):
                for t_ in [n for n in walk_own(frame.func.node) if isinstance(n, ast.Try)]:
                    for h_ in t_.handlers:
                        if h_.name in names and any(x is call for x in ast.walk(h_)):
                            body_calls = [c_ for b_ in t_.body for c_ in ast.walk(b_) if isinstance(c_, ast.Call) and c_ is not call and
                                          not (isinstance(c_.func, ast.Attribute) and c_.func.attr == 'format')]
                            if any(RepoPolicy.call_target(self, c_, frame).role == 'body' for c_ in body_calls):
                                return Target('opaque', 'format-user-exception:' + norm(call)[:60], raises=self.excm.ordinary, role='lib')
        return RepoPolicy.call_target(self, call, frame, for_with=for_with)

    def unknown_receiver(self, recv, meth, call, frame):
        # consuming a value produced by user code with an operation that has type requirements may raise
        # (dict.update / list.extend of a junk extractor result): a tolerated fault that must be contained
        if meth in ('update', 'extend') and isinstance(call, ast.Call) and call.args and \
                self._from_user_call(call.args[0], frame):
            return Target('opaque', 'consume-user-value:' + meth, raises=self.excm.ordinary, role='lib')
        return RepoPolicy.unknown_receiver(self, recv, meth, call, frame)

    def _from_user_call(self, arg, frame, depth=0):
        if isinstance(arg, ast.Call):
            t = self.call_target(arg, frame)
            if t.kind == 'inline':
                # a local wrapper around user code
                return any(isinstance(n, ast.Call) and self.call_target(n, frame_for(frame, t)).role in ('plugin', 'body', 'dynamic')
                           for n in ast.walk(t.func.node)) if False else True
            return t.role in ('plugin', 'body', 'dynamic')
        if isinstance(arg, ast.Name) and depth < 2:
            for n in walk_own(frame.func.node):
                if isinstance(n, ast.Assign) and any(isinstance(t, ast.Name) and t.id == arg.id for t in n.targets):
                    if self._from_user_call(n.value, frame, depth + 1):
                        return True
        return False

    def decide_inline(self, func, call, frame):
        """helpers that cannot touch recorder / recording / cassette state are summarised (may-raise set and
        None-ness of the result derived from their own graph) instead of inlined: static methods of the recorder and
        module-level utilities that call no interface method and store into no object other than their locals"""
        if func.cls is self.roles.cls and not func.is_static:
            return True
        key = id(func)
        if key not in self._pure_cache:
            pure = func.is_static or func.cls is None
            if pure:
                for n in ast.walk(func.node):
                    if isinstance(n, ast.Call) and isinstance(n.func, ast.Attribute):
                        if self.interface_of_method(n.func.attr) is not None:
                            pure = False
                    if isinstance(n, ast.Call) and isinstance(n.func, ast.IfExp):
                        pure = False
            self._pure_cache[key] = pure
        return not self._pure_cache[key]

    def summary_target(self, fi, call, frame):
        return Target('opaque', 'repo-summary:' + fi.qualname, raises=self.summaries.may_raise(fi, fi.cls), role='summary',
                      func=fi)

    def reentry_methods(self, frame):
        return tuple(self.roles.reentrant) if self.reentry else ()

    def iface_target(self, iface, meth, call, frame):
        key = (iface, meth)
        if key not in self.iface_cache:
            self.iface_cache[key] = self.summaries.iface_raises(iface, meth)
        raises = self.iface_cache[key]
        if self.framework_faults and iface == 'TapeCassette':
            raises = frozenset(raises) | self.excm.ordinary
        if iface == 'Recording' and meth in ('get_data', 'get_data_direct', '__getitem__') and \
                self.key_from_own_keys(call, frame):
            # idiom: the key ranges over the recording's own get_all_keys(): the missing-key error cannot occur
            raises = raises - self.excm.under('RecordingKeyError') if 'RecordingKeyError' in self.excm.parents else raises
        return Target('opaque', 'iface:%s.%s' % (iface, meth), raises=raises, role='iface')

    def key_from_own_keys(self, call, frame):
        if not (isinstance(call, ast.Call) and len(call.args) == 1 and isinstance(call.args[0], ast.Name)):
            return False
        f = call.func
        while isinstance(f, ast.IfExp):
            f = f.body
        if not (isinstance(f, ast.Attribute) and isinstance(f.value, ast.Name)):
            return False
        recv = f.value.id
        k = call.args[0].id
        fn = frame.func.node

        def keys_of(e, depth=0):
            # e evaluates to (a filtered copy of) recv.get_all_keys()
            if isinstance(e, ast.Call) and isinstance(e.func, ast.Attribute) and e.func.attr == 'get_all_keys' and \
                    isinstance(e.func.value, ast.Name) and e.func.value.id == recv and not e.args:
                return True
            if isinstance(e, ast.Call) and isinstance(e.func, ast.Name) and e.func.id in ('list', 'sorted', 'tuple') and e.args:
                return keys_of(e.args[0], depth)
            if isinstance(e, (ast.ListComp, ast.GeneratorExp)) and len(e.generators) == 1 and \
                    isinstance(e.elt, ast.Name) and isinstance(e.generators[0].target, ast.Name) and \
                    e.elt.id == e.generators[0].target.id:
                return keys_of(e.generators[0].iter, depth)
            if isinstance(e, ast.Name) and depth < 3:
                assigns = [n for n in walk_own(fn) if isinstance(n, ast.Assign) and
                           any(isinstance(t, ast.Name) and t.id == e.id for t in n.targets)]
                return len(assigns) == 1 and keys_of(assigns[0].value, depth + 1)
            return False
        for n in ast.walk(fn):
            if isinstance(n, ast.comprehension) and isinstance(n.target, ast.Name) and n.target.id == k:
                if keys_of(n.iter):
                    return True
            if isinstance(n, ast.For) and isinstance(n.target, ast.Name) and n.target.id == k and keys_of(n.iter):
                return True
        return False

    def subscript_raises(self, node, frame):
        # an entry of a recording's metadata may be missing (recording stored through the cassette API, older version, ...)
        v = node.value
        if isinstance(v, ast.Call) and isinstance(v.func, ast.Attribute) and v.func.attr == 'get_metadata':
            return frozenset({self.excm.atom_of('KeyError')})
        return frozenset()

    def iter_raises(self, node, frame):
        return frozenset()

    def call_binding_raises(self, call, target, frame):
        # the intercepted call's own **kwargs splatted into a framework function that has named parameters of its own: a keyword of the
        # service call that happens to be called like one of them is a TypeError raised by the framework
        fn = frame.func.node
        kw = fn.args.kwarg.arg if getattr(fn, 'args', None) is not None and fn.args.kwarg is not None else None
        if kw is None or frame.parent is not None:
            return frozenset()
        if not any(k.arg is None and isinstance(k.value, ast.Name) and k.value.id == kw for k in call.keywords):
            return frozenset()
        callee = getattr(target, 'func', None)
        if callee is None or target.role == 'body':
            return frozenset()
        named = [p for p in callee.params if p != 'self']
        if not named:
            return frozenset()
        return frozenset({self.excm.atom_of('TypeError')})

    def subscript_store_raises(self, target, frame):
        # a store into the active recording is Recording.__setitem__ of the shipped recording classes
        if _self_attr(target.value) == self.roles.active:
            key = ('Recording', '__setitem__')
            if key not in self.iface_cache:
                self.iface_cache[key] = self.summaries.iface_raises('Recording', '__setitem__')
            return self.iface_cache[key]
        return frozenset()

    def truth_raises(self, test, frame):
        # the truth value of what the wrapped function returned is computed by user code (__bool__ / __len__: numpy arrays
        # and data frames raise ValueError); any other tested value is the framework's own or a plain container
        if not isinstance(test, ast.Name):
            return frozenset()
        return self.excm.ordinary if test.id in self._user_value_names(frame) else frozenset()

    def _user_value_names(self, frame):
        """locals of frame.func that may hold what a wrapped body / plug-in returned (directly, through a conditional
        expression, a plain copy `a = b`, or a module-level helper of the package applied to it)"""
        key = ('uvn', frame.func.qualname)
        memo = self.__dict__.setdefault('_uvn_memo', {})
        if key in memo:
            return memo[key]
        memo[key] = set()
        assigns = [(n.targets[0].id, n.value) for n in walk_own(frame.func.node)
                   if isinstance(n, ast.Assign) and len(n.targets) == 1 and isinstance(n.targets[0], ast.Name)]
        names = set()

        def user(e):
            if isinstance(e, ast.Name):
                return e.id in names
            if isinstance(e, ast.IfExp):
                return user(e.body) or user(e.orelse)
            if isinstance(e, ast.Call):
                if self.call_target(e, frame).role in ('body', 'plugin'):
                    return True
                m = frame.func.module
                if isinstance(e.func, ast.Name) and (e.func.id in m.functions or m.imports.get(e.func.id, '').startswith('playback.')):
                    return any(user(a) for a in e.args)
            return False
        changed = True
        while changed:
            changed = False
            for nm, v in assigns:
                if nm not in names and user(v):
                    names.add(nm)
                    changed = True
        memo[key] = names
        return names


class RecorderDomain(Domain):
    """Abstract semantics of the recorder: counts the events rules ask for, tracks None-ness of per-run fields."""

    COUNT_PREFIXES = ('iface:TapeCassette.', 'user-body:', 'user-plugin:', 'iface:Recording.add_metadata', 'libobj:threading.')

    def __init__(self, graph, repo, excm, policy, roles, init=None, count=None, track_free=()):
        Domain.__init__(self, graph, repo, excm, policy)
        self.roles = roles
        self.track_free = set(track_free)
        self.track_attrs = set()
        self.init = init or {}
        self.count = count
        self.exits = []
        self.derefs = {}       # (node id, expr text) -> (node, state, expr)
        self.deref_sites = set()
        self._cur = None
        self.events = []

    # ---- initial valuation: idle recorder, flags free
    def initial_states(self):
        r = self.roles
        st = State()
        env = st.env
        env[('F', 'self', r.active)] = NONE
        env[('F', 'self', r.params)] = NONE
        env[('F', 'self', r.playback)] = NONE
        env[('F', 'self', r.force_flag)] = FALSE
        env[('F', 'self', r.counter)] = V('obj', ('init', 'Counter'), EMPTY)
        env[('F', 'self', r.outputs)] = V('obj', ('init', 'list'), EMPTY)
        for k, v in self.init.items():
            env[('F', 'self', k)] = v
        return [st]

    def transfer(self, node, state):
        self._cur = node
        return Domain.transfer(self, node, state)

    def track_fact(self, name):
        """facts are kept only for the atoms the recorder rules reason about (fields of the recorder, the
        thread-local flag, fetched recording, and the free options a rule lists); tests on anything else branch
        both ways without refinement (sound over-approximation)"""
        if not isinstance(name, tuple) or not name:
            return False
        if name[0] == 'field':
            return True
        if name[0] == 'attr' and isinstance(name[1], tuple) and name[1][:1] == ('field',):
            return True
        if name[0] == 'attr' and name[2] in self.track_attrs:
            return True
        if name[0] == 'pure' and name[1] in ('builtin:hasattr', 'builtin:callable'):
            return True
        if name[0] == 'fetched-recording-or-none':
            return True
        if name[0] == 'free':
            return name[2] in self.track_free
        return False

    # ---- events
    def counted(self, label):
        if self.count is not None:
            return self.count(label)
        return label.startswith(self.COUNT_PREFIXES)

    def on_call_attempt(self, node, t, state):
        if self.counted(t.label):
            return state.bump(('n', t.label))
        return state

    def on_call(self, node, t, args, state):
        st = state
        if self.counted(t.label):
            st = st.bump(('ok', t.label))
        if t.role == 'dead':
            return None     # a call through a callee that is None on this path cannot be reached
        return self.on_call_event(node, t, args, st)

    def on_call_event(self, node, t, args, state):
        return state

    def call_result(self, node, t, args, kwargs, state):
        r = self._call_result(node, t, args, kwargs, state)
        if r is not None and not r.deps and r.kind == 'obj':
            deps = {'call:' + t.label}
            for a in list(args) + list(kwargs.values()):
                deps |= set(a.deps)
            r = r._replace(deps=frozenset(deps))
        return r

    def _call_result(self, node, t, args, kwargs, state):
        lab = t.label
        c = node.ast
        if lab == 'iface:TapeCassette.create_new_recording':
            return V('obj', ('created-recording',), frozenset({'created'}))
        if lab == 'iface:TapeCassette.get_recording':
            if self.policy.summaries.iface_may_return_none('TapeCassette', 'get_recording'):
                return sym(('fetched-recording-or-none',), {'fetched'})
            return V('obj', ('fetched-recording',), frozenset({'fetched'}))
        if lab.startswith('ctor:') or lab in ('lib:collections.Counter', 'lib:collections.OrderedDict'):
            return V('obj', ('new', lab.split(':')[1].split('.')[-1], self.site(c)), EMPTY)
        if lab.startswith('repo-summary:') and t.func is not None:
            if not self.policy.summaries.may_return_none(t.func):
                return V('obj', ('value', lab, self.site(c)), EMPTY)
        if lab == 'builtin:hasattr' and len(args) == 2 and args[1].kind == 'const':
            if ('F', args[0].name, args[1].name) in state.env:
                return TRUE
        if lab == 'builtin:getattr' and len(args) >= 2 and args[1].kind == 'const' and isinstance(args[1].name, str) and \
                args[0].kind in ('self', 'sym', 'obj'):
            # getattr(obj, 'name'[, default]): the attribute's value when it was set on this path, otherwise the same symbol a plain read
            # gives (a False / None default agrees with "not set yet" being falsy)
            v = state.env.get(('F', args[0].name, args[1].name))
            if v is not None:
                return v
            return sym(('attr', args[0].name, args[1].name), set(args[0].deps) | {'attr:%s' % args[1].name})
        if lab == 'builtin:type' and len(args) == 1:
            return V('obj', ('type-of', args[0].name), EMPTY)
        if lab.split('@')[0] in ('method:format', 'method:join', 'method:encode', 'builtin:str', 'builtin:repr',
                                 'builtin:list', 'builtin:dict', 'builtin:sorted', 'builtin:tuple', 'builtin:type',
                                 'lib:jsonpickle.encode', 'lib:time.time'):
            return V('obj', ('value', lab, self.site(c)), EMPTY)
        if lab.startswith('method:get') and isinstance(c, ast.Call) and len(c.args) == 2:
            if self.is_none(args[1], state) is False:
                deps = set()
                for a in args:
                    deps |= a.deps
                return V('obj', ('dict-get-default', self.site(c)), frozenset(deps))
        return None

    # ---- nullable dereference of per-run fields
    def e_Attribute(self, e, frame, state):
        self._check_deref(e.value, frame, state, e)
        return Domain.e_Attribute(self, e, frame, state)

    def e_Subscript(self, e, frame, state):
        self._check_deref(e.value, frame, state, e)
        return Domain.e_Subscript(self, e, frame, state)

    def assign(self, target, value, frame, state, node):
        if isinstance(target, (ast.Subscript, ast.Attribute)):
            self._check_deref(target.value, frame, state, target)
        return Domain.assign(self, target, value, frame, state, node)

    def _check_deref(self, base_expr, frame, state, whole):
        fld = _self_attr(base_expr)
        if fld is None:
            return
        if fld not in (self.roles.active, self.roles.params, self.roles.playback):
            return
        # `self` must be the recorder
        v = state.env.get(('F', 'self', fld))
        if v is None:
            return
        if self._cur is not None:
            self.deref_sites.add((self._cur.line, norm(whole)))
        if self.is_none(v, state) is not False and self._cur is not None:
            key = (self._cur.id, norm(whole))
            if key not in self.derefs:
                self.derefs[key] = (self._cur, state, whole)

    def on_exit(self, node, state):
        self.exits.append((node, state))

    # ---- helpers for rules
    def n(self, state, label):
        return state.extra.get(('n', label), 0)

    def field(self, state, name):
        return state.env.get(('F', 'self', name))


def build_closure(repo, excm, roles, kind, policy=None, **polkw):
    pol = policy or RecorderPolicy(repo, excm, roles, **polkw)
    b = Builder(repo, excm, pol)
    fac, deco, cl = roles.closures[kind]
    g = b.build_root(cl, self_cls=roles.cls)
    return b, g, pol


def build_method(repo, excm, roles, func, policy=None, **polkw):
    pol = policy or RecorderPolicy(repo, excm, roles, **polkw)
    b = Builder(repo, excm, pol)
    g = b.build_root(func, self_cls=roles.cls)
    return b, g, pol
