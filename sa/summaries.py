"""Bottom-up summaries computed from callee graphs: which exception atoms may escape a function,
whether it may return None. Used to give interface calls (cassette / recording methods) an effect that is
derived from the shipped implementations on every run, not assumed.
"""
import ast

from .cfg import Builder, Target
from .resolve import RepoPolicy
from .loader import walk_own


class SummaryPolicy(RepoPolicy):
    """inline every repo callee; interface calls resolve to the union over implementations via Summaries"""
    max_depth = 6

    def __init__(self, repo, excm, summaries):
        RepoPolicy.__init__(self, repo, excm)
        self.summaries = summaries

    def iface_target(self, iface, meth, call, frame):
        return Target('opaque', 'iface:%s.%s' % (iface, meth), raises=self.summaries.iface_raises(iface, meth), role='iface')

    def summary_target(self, fi, call, frame):
        return Target('opaque', 'repo-summary:' + fi.qualname, raises=self.summaries.may_raise(fi, fi.cls), role='summary')


class Summaries(object):
    def __init__(self, repo, excm):
        self.repo = repo
        self.excm = excm
        self._raise = {}
        self._active = set()
        self._none = {}

    def may_raise(self, fi, self_cls=None, include_asserts=False):
        """atoms that may escape `fi` (asserts excluded unless asked: they are design preconditions, listed by R-ASSERT)"""
        key = (id(fi), self_cls.name if self_cls else None, include_asserts)
        if key in self._raise:
            return self._raise[key]
        if key in self._active:
            return frozenset()          # recursion: least fixpoint, callers iterate
        self._active.add(key)
        try:
            prev = None
            cur = frozenset()
            for _ in range(4):
                pol = SummaryPolicy(self.repo, self.excm, self)
                b = Builder(self.repo, self.excm, pol)
                g = b.build_root(fi, self_cls=self_cls or fi.cls)
                reach = set()
                stack = [g.entry]
                while stack:
                    n = stack.pop()
                    if n.id in reach:
                        continue
                    reach.add(n.id)
                    if n.info.get('assertion') and not include_asserts:
                        continue
                    for lab, d in n.succ:
                        stack.append(d)
                cur = frozenset(k[6:] for k, n in g.exits.items() if k.startswith('raise:') and n.id in reach)
                if cur == prev:
                    break
                prev = cur
                self._raise[key] = cur
            self._raise[key] = cur
            return cur
        finally:
            self._active.discard(key)

    def implementations(self, iface, meth):
        out = []
        base = self.repo.find_class(iface)
        classes = [base] + self.repo.subclasses(iface) if base is not None else []
        for c in classes:
            if any(m.is_abstract for m in c.methods.values() if m.cls is c) and c is base:
                # the interface itself: only if the method is concrete there and some subclass inherits it
                pass
            m = c.lookup(meth)
            if m is None or m.is_abstract:
                continue
            concrete = not any(mm.is_abstract for nm, mm in self._all_methods(c).items())
            if concrete:
                out.append((c, m))
        return out

    def _all_methods(self, c):
        d = {}
        for k in reversed(c.mro()):
            d.update(k.methods)
        return d

    def iface_raises(self, iface, meth):
        out = set()
        # the subscript store is the framework's own write path into a recording (the public set_data / add_metadata assert that
        # the recording is still open - a precondition of *user* calls); an assertion reachable from the subscript store would be
        # raised into the intercepted call when the recording is closed concurrently, so it counts as an effect there
        asserts = meth == '__setitem__'
        for c, m in self.implementations(iface, meth):
            out |= self.may_raise(m, c, include_asserts=asserts)
        return frozenset(out)

    def may_return_none(self, fi):
        """syntactic: some return statement returns None / nothing, or the end of the body is reachable (approximated
        by: last statement is not a return / raise)."""
        key = id(fi)
        if key in self._none:
            return self._none[key]
        res = False
        for n in walk_own(fi.node):
            if isinstance(n, ast.Return) and (n.value is None or (isinstance(n.value, ast.Constant) and n.value.value is None)):
                res = True
        last = fi.node.body[-1]
        if not isinstance(last, (ast.Return, ast.Raise)):
            if not (isinstance(last, (ast.If, ast.Try, ast.With, ast.For, ast.While))):
                res = True
            else:
                res = res or self._falls_off(last)
        self._none[key] = res
        return res

    def _falls_off(self, s):
        if isinstance(s, (ast.Return, ast.Raise)):
            return False
        if isinstance(s, ast.If):
            return (not s.orelse) or self._falls_off(s.body[-1]) or self._falls_off(s.orelse[-1])
        if isinstance(s, ast.With):
            return self._falls_off(s.body[-1])
        if isinstance(s, ast.Try):
            if s.finalbody and not self._falls_off(s.finalbody[-1]):
                return False
            parts = [s.orelse[-1] if s.orelse else s.body[-1]] + [h.body[-1] for h in s.handlers]
            return any(self._falls_off(p) for p in parts)
        return True

    def iface_may_return_none(self, iface, meth):
        return any(self.may_return_none(m) for c, m in self.implementations(iface, meth))
