"""Findings, known-findings matching, evidence files, VIOLATION / KNOWN-FINDING lines, replay files."""
import json
import os
import time

VERIF = os.path.dirname(os.path.dirname(os.path.abspath(__file__)))


LINE_MAPS = {}      # relpath -> {line in the normalised module: line in the real file} (sa/loader.py, sa/normalise.py)


class Finding(object):
    def __init__(self, prop, clause, kind, file, func, line, construct, message, witness=None, entry=None, exit=None):
        self.prop = prop
        self.clause = clause
        self.kind = kind
        self.file = file
        self.func = func
        self.line = LINE_MAPS.get(file, {}).get(line, line) if file in LINE_MAPS else line
        self.construct = ' '.join((construct or '').split())
        self.message = message
        self.witness = witness
        self.entry = entry
        self.exit = exit

    def key(self):
        """identity of a finding: rule + construct, never a line number"""
        return (self.prop, self.clause, self.file, self.func, self.construct)

    def to_json(self):
        d = dict(property=self.prop, clause=self.clause, rule_kind=self.kind, file=self.file, function=self.func,
                 line=self.line, construct=self.construct, message=self.message)
        if self.entry:
            d['entry'] = self.entry
        if self.exit:
            d['exit'] = self.exit
        if self.witness:
            d['witness_path'] = self.witness
        return d

    def text(self):
        extra = ''
        if self.entry or self.exit:
            extra = ' [entry=%s exit=%s]' % (self.entry, self.exit)
        return '%s:%s: %s %s in %s: %s -- `%s`%s' % (self.file, self.line, self.clause, self.kind, self.func, self.message,
                                                   self.construct, extra)


class Clause(object):
    """one decided clause of a property: the obligations (rule instances) it bound to and how many were discharged"""

    def __init__(self, cid, kind, title, floor=1):
        self.id = cid
        self.kind = kind
        self.title = title
        self.floor = floor
        self.instances = []       # dicts: {construct, where, ok, detail}
        self.evaluations = 0      # paths / states / sites examined
        self.samples = []
        self.notes = []

    def instance(self, construct, where, ok, detail=None, nontrivial=True):
        self.instances.append(dict(construct=' '.join(str(construct).split()), where=where, ok=bool(ok), detail=detail,
                                   nontrivial=nontrivial))

    @property
    def obligations(self):
        return len(self.instances)

    @property
    def discharged(self):
        return sum(1 for i in self.instances if i['ok'])

    def to_json(self):
        return dict(clause=self.id, rule_kind=self.kind, title=self.title, floor=self.floor,
                    obligations=self.obligations, discharged=self.discharged, evaluations=self.evaluations,
                    instances=self.instances[:40], notes=self.notes)


LAST_RESULT = [None]      # the result object under construction (read by sa/check.py when a later clause cannot bind)


class Result(object):
    def __init__(self, prop):
        LAST_RESULT[0] = self
        self.prop = prop
        self.clauses = []
        self.findings = []
        self.assumptions = []
        self.not_decided = []
        self.stats = {}
        self.explanation = ''

    def clause(self, cid, kind, title, floor=1):
        c = Clause(cid, kind, title, floor)
        self.clauses.append(c)
        return c

    def add(self, finding):
        # de-duplicate by key
        if any(f.key() == finding.key() for f in self.findings):
            return
        self.findings.append(finding)


def load_known():
    p = os.path.join(VERIF, 'known_findings.json')
    if not os.path.exists(p):
        return {'known': [], 'fixed': []}
    with open(p) as f:
        return json.load(f)


def match_known(finding, known):
    for k in known.get('known', []):
        if k.get('property') == finding.prop and k.get('clause') == finding.clause and \
                k.get('file') == finding.file and k.get('function') == finding.func and \
                ' '.join(k.get('construct', '').split()) == finding.construct:
            return k
    return None


def emit(result, tier, seed, wall, repo_root, repo_stats, level='other', evidence_dir=None, quiet=False):
    """prints report lines, writes evidence + replay files; returns exit code (0 / 1)"""
    evidence_dir = evidence_dir or os.path.join(VERIF, 'evidence')
    os.makedirs(evidence_dir, exist_ok=True)
    replay_dir = os.path.join(evidence_dir, 'replay')
    os.makedirs(replay_dir, exist_ok=True)
    # stale replay files of this property
    for fn in os.listdir(replay_dir):
        if fn.startswith(result.prop + '-'):
            os.unlink(os.path.join(replay_dir, fn))
    known = load_known()
    violations = []
    known_hits = []
    for f in result.findings:
        k = match_known(f, known)
        if k is not None:
            known_hits.append((f, k))
        else:
            violations.append(f)
    out = []
    for c in result.clauses:
        out.append('  %-7s %-12s %3d/%-3d obligations discharged, %6d evaluations  %s' % (
            c.id, c.kind, c.discharged, c.obligations, c.evaluations, c.title))
    for f, k in known_hits:
        out.append('KNOWN-FINDING: property=%s %s' % (f.prop, f.text()))
    for i, f in enumerate(violations):
        path = os.path.join(replay_dir, '%s-%d.json' % (result.prop, i + 1))
        with open(path, 'w') as fh:
            json.dump(dict(f.to_json(), repo=repo_root, tier=tier), fh, indent=1, default=str)
        out.append(f.text())
        out.append('VIOLATION property=%s replay=%s' % (result.prop, path))
    obligations = sum(c.obligations for c in result.clauses)
    discharged = sum(c.discharged for c in result.clauses)
    evaluations = sum(c.evaluations for c in result.clauses)
    nontrivial = len({(c.id, i['construct'], i['where']) for c in result.clauses for i in c.instances if i['nontrivial']})
    samples = []
    for c in result.clauses:
        for s in c.samples[:2]:
            samples.append(dict(clause=c.id, **s) if isinstance(s, dict) else dict(clause=c.id, sample=s))
        for i in c.instances[:2]:
            samples.append(dict(clause=c.id, obligation=i['construct'], where=i['where'], discharged=i['ok'],
                                detail=i['detail']))
    ev = dict(
        property_id=result.prop, tier=tier, seed=seed, level=level,
        coverage=dict(
            explanation=result.explanation,
            obligations=obligations, discharged=discharged, evaluations=max(evaluations, obligations),
            distinct_nontrivial=nontrivial,
            rule='obligations are rule instances bound to constructs of the current source tree; an instance is '
                 'non-trivial when it bound to at least one construct and examined at least one path / site; '
                 'distinct = distinct (clause, construct, location)',
            samples=samples[:30],
            exhaustive=True,
            checker_cmd='python3-vt sa/check.py %s --tier %s' % (result.prop, tier),
            trusted_base=['CPython ast parser', 'source normalisation sa/normalise.py (exact inlining of private helpers absent from the pinned tree, '
                          'f-string / lambda canonical forms)', 'sa/cfg.py CFG builder (exceptional edges, finally duplication, '
                          'contextmanager inlining)', 'raise policy and library effect table (sa/resolve.py)',
                          'abstract semantics sa/flow.py'],
            clauses=[c.to_json() for c in result.clauses],
            not_decided=result.not_decided,
            analysed=repo_stats,
            known_findings=[f.to_json() for f, k in known_hits],
        ),
        assumptions=result.assumptions,
        wall_s=round(wall, 3),
        violations=len(violations),
    )
    ev['coverage'].update(result.stats)
    with open(os.path.join(evidence_dir, '%s.json' % result.prop), 'w') as fh:
        json.dump(ev, fh, indent=1, default=str)
    if not quiet:
        print('%s tier=%s repo=%s digest=%s: %d clauses, %d/%d obligations discharged, %d known finding(s), %d violation(s), %.2fs' % (
            result.prop, tier, repo_root, repo_stats.get('digest'), len(result.clauses), discharged, obligations,
            len(known_hits), len(violations), wall))
        for line in out:
            print(line)
    return 1 if violations else 0
