"""Thorough tier: the quick rules first (done by the caller), then self-validation of the checker on variants of the
current tree (see DESIGN section 7): every seeded breaking change that still applies must make the property's check
fire, and every neutral variant must leave it silent. A miss in either direction is an ANALYSIS-ERROR (exit 2): it
says the checker cannot be trusted on this tree, not that the repository is wrong."""
import json
import os
import shutil
import subprocess
import sys
import tempfile
import time

VERIF = os.path.dirname(os.path.dirname(os.path.abspath(__file__)))


def _copy_repo(repo, dst):
    shutil.copytree(repo, dst, ignore=shutil.ignore_patterns('.git', '__pycache__', '*.pyc', '.pytest_cache'))


def run(prop, repo_root, seed, evidence_dir=None):
    from sa import neutral
    from sa.check import run_property
    from sa.loader import AnalysisError
    t0 = time.time()
    ev_dir = evidence_dir or os.path.join(VERIF, 'evidence')
    base = tempfile.mkdtemp(prefix='verif-thorough-', dir=os.environ.get('TMPDIR') or None)
    results = {'breaking': [], 'neutral': [], 'skipped': []}
    try:
        from concurrent.futures import ThreadPoolExecutor
        jobs = []
        # ---- breaking variants: seeded changes recorded as detected by this property
        seeds_dir = os.path.join(VERIF, 'seeded')
        if os.path.isdir(seeds_dir):
            for name in sorted(os.listdir(seeds_dir)):
                sd = os.path.join(seeds_dir, name)
                meta_p = os.path.join(sd, 'meta.json')
                if not os.path.exists(meta_p):
                    continue
                meta = json.load(open(meta_p))
                if prop in meta.get('detected_by', []):
                    dst = os.path.join(base, 'b-' + name)
                    _copy_repo(repo_root, dst)
                    r = subprocess.run(['patch', '-p1', '-s', '--no-backup-if-mismatch', '-i', os.path.join(sd, 'patch.diff')], cwd=dst,
                                       capture_output=True, text=True)
                    if r.returncode != 0:
                        results['skipped'].append({'variant': name, 'why': 'patch no longer applies to the current tree'})
                        shutil.rmtree(dst, ignore_errors=True)
                        continue
                    jobs.append(('breaking', name, dst, None))
        # ---- programmatic breaking variants (ast mutations located by role; survive reformatting of the tree)
        from sa import mutants
        for mname, mprops, transform in mutants.MUTANTS:
            if prop not in mprops:
                continue
            dst = os.path.join(base, 'm-' + mname)
            _copy_repo(repo_root, dst)
            try:
                changed = transform(dst)
            except Exception as ex:
                changed = 0
                results['skipped'].append({'variant': mname, 'why': 'mutation failed: %s' % ex})
            if not changed:
                if not any(s_['variant'] == mname for s_ in results['skipped']):
                    results['skipped'].append({'variant': mname, 'why': 'mutation site not found on this tree'})
                shutil.rmtree(dst, ignore_errors=True)
                continue
            jobs.append(('breaking', 'ast:' + mname, dst, None))
        # ---- neutral variants
        for vname, transform in neutral.VARIANTS:
            dst = os.path.join(base, 'n-' + vname)
            _copy_repo(repo_root, dst)
            try:
                changed = transform(dst)
            except Exception as ex:
                results['skipped'].append({'variant': vname, 'why': 'transform failed: %s' % ex})
                shutil.rmtree(dst, ignore_errors=True)
                continue
            if not changed:
                results['skipped'].append({'variant': vname, 'why': 'transform found nothing to change'})
                shutil.rmtree(dst, ignore_errors=True)
                continue
            jobs.append(('neutral', vname, dst, changed))

        # ---- behaviour-preserving refactorings written independently of the checker (neutral_patches/: each passes the existing suite)
        np_dir = os.path.join(VERIF, 'neutral_patches')
        if os.path.isdir(np_dir):
            for name in sorted(os.listdir(np_dir)):
                pf = os.path.join(np_dir, name, 'patch.diff')
                if not os.path.exists(pf):
                    continue
                dst = os.path.join(base, 'p-' + name)
                _copy_repo(repo_root, dst)
                r = subprocess.run(['patch', '-p1', '-s', '--no-backup-if-mismatch', '-i', pf], cwd=dst, capture_output=True, text=True)
                if r.returncode != 0:
                    results['skipped'].append({'variant': 'refactoring:' + name, 'why': 'patch no longer applies to the current tree'})
                    shutil.rmtree(dst, ignore_errors=True)
                    continue
                jobs.append(('neutral', 'refactoring:' + name, dst, 1))

        # ---- inline-method variants: every private function that the exact inliner can inline into its callers (sa/inline_variants.py)
        from sa import inline_variants as iv
        for hname in iv.candidates(repo_root):
            if hname in iv.TEST_PINNED:
                continue
            dst = os.path.join(base, 'i-' + hname)
            try:
                sites, why = iv.make_variant(repo_root, hname, dst)
            except Exception as ex:
                results['skipped'].append({'variant': 'inline:' + hname, 'why': 'inliner failed: %s' % ex})
                continue
            if not sites:
                continue
            jobs.append(('neutral', 'inline:' + hname, dst, len(sites)))

        def job(j):
            kind, name, dst, changed = j
            r = subprocess.run([sys.executable, os.path.join(VERIF, 'sa', 'check.py'), prop, '--repo', dst, '--tier', 'quick',
                                '--evidence-dir', os.path.join(base, 'ev-' + name.replace(':', '_'))], capture_output=True, text=True, cwd=VERIF)
            first = [l for l in r.stdout.splitlines() if l.startswith(('playback/', 'ANALYSIS-ERROR', 'site-packages'))][:1]
            return kind, name, r.returncode, changed, first
        with ThreadPoolExecutor(int(os.environ.get('VERIF_JOBS', '12'))) as ex:
            for kind, name, rc, changed, first in ex.map(job, jobs):
                rec = {'variant': name, 'rc': rc}
                if changed is not None:
                    rec['files_changed'] = changed
                if first:
                    rec['report'] = first[0].replace(base, '')[:240]
                results[kind].append(rec)
    finally:
        shutil.rmtree(base, ignore_errors=True)
    missed = [b for b in results['breaking'] if b['rc'] != 1]
    from sa import inline_variants as _iv
    # a listed inline variant may end in "shape not modelled" (exit 2); it must never produce a violation
    noisy = [n for n in results['neutral'] if n['rc'] != 0 and not (n['rc'] == 2 and n['variant'].startswith('inline:') and n['variant'][7:] in _iv.UNMODELLED)]
    # merge into the evidence file written by the quick pass
    ev_path = os.path.join(ev_dir, '%s.json' % prop)
    ev = json.load(open(ev_path))
    ev['tier'] = 'thorough'
    cov = ev['coverage']
    cov['self_validation'] = results
    cov['evaluations'] = cov.get('evaluations', 0) + len(results['breaking']) + len(results['neutral'])
    cov['programs'] = 1 + len(results['breaking']) + len(results['neutral'])
    cov['explanation'] += (' Thorough tier: the same rules were additionally run on %d breaking variants of the current tree (seeded changes '
                           'recorded as detected by this check; each must fire) and %d behaviour-preserving variants (each must stay silent); '
                           '%d skipped.' % (len(results['breaking']), len(results['neutral']), len(results['skipped'])))
    ev['wall_s'] = round(ev.get('wall_s', 0) + time.time() - t0, 3)
    json.dump(ev, open(ev_path, 'w'), indent=1, default=str)
    print('%s thorough: breaking variants %d/%d detected, neutral variants %d/%d silent, %d skipped, %.1fs' % (
        prop, len(results['breaking']) - len(missed), len(results['breaking']), len(results['neutral']) - len(noisy), len(results['neutral']),
        len(results['skipped']), time.time() - t0))
    if missed or noisy:
        for b in missed:
            print('ANALYSIS-ERROR self-validation: breaking variant %s not detected by %s (rc=%s)' % (b['variant'], prop, b['rc']))
        for n in noisy:
            print('ANALYSIS-ERROR self-validation: neutral variant %s makes %s report (rc=%s)' % (n['variant'], prop, n['rc']))
        return 2
    return 0
