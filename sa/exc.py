"""Exception abstraction: a partition of BaseException into atoms, computed from the classes that
`except` clauses and `raise` statements of the analysed package actually name.

Atom "X" = instances of class X that are not instances of a *named* subclass of X.  A handler for class C
therefore catches exactly the union of the atoms of C and of all named classes below C: the partition is fine
enough that no handler catches "part of" an atom.
"""
import ast
import builtins

from .loader import AnalysisError, walk_own

# library exception classes the package names through attribute chains (last component) -> builtin parent
KNOWN_LIB_EXC = {'Empty': 'Exception', 'Full': 'Exception', 'ClientError': 'Exception'}
ALWAYS = ['BaseException', 'Exception']


def last_name(e):
    if isinstance(e, ast.Call):
        e = e.func
    if isinstance(e, ast.Attribute):
        return e.attr
    if isinstance(e, ast.Name):
        return e.id
    return None


class ExcModel(object):
    def __init__(self, repo, scope=None, extra_names=()):
        """scope: predicate over FuncInfo selecting the functions whose handlers define the partition
        (None = whole package). Classes named only in `raise` statements fall into the atom of their nearest
        handler-named ancestor."""
        self.repo = repo
        names = set(ALWAYS) | set(extra_names)
        self.origin = {}       # last name -> dotted origin resolved through the naming module's imports (standard library only)
        for f in repo.all_functions():
            for n in walk_own(f.node):
                if isinstance(n, ast.ExceptHandler) and n.type is not None:
                    for t in (n.type.elts if isinstance(n.type, ast.Tuple) else [n.type]):
                        self._note_origin(t, f.module)
                        if scope is None or scope(f):
                            names.add(last_name(t))
        names.discard(None)
        self.parents = {}
        for nm in sorted(names):
            self.parents[nm] = self._parents(nm)
        self.names = sorted(self.parents)
        # transitive ancestors restricted to named classes
        self.anc = {}
        for nm in self.names:
            self.anc[nm] = self._ancestors(nm)
        self.atoms = list(self.names)

    # -------------------------------------------------------------- hierarchy
    def _note_origin(self, t, module):
        ln = last_name(t)
        if ln is None or ln in self.origin:
            return
        dotted = None
        if isinstance(t, ast.Name):
            dotted = module.imports.get(t.id)
        elif isinstance(t, ast.Attribute):
            parts = []
            e = t
            while isinstance(e, ast.Attribute):
                parts.append(e.attr)
                e = e.value
            if isinstance(e, ast.Name) and e.id in module.imports:
                dotted = '.'.join([module.imports[e.id]] + list(reversed(parts)))
        if dotted:
            self.origin[ln] = dotted

    def _stdlib_class(self, nm):
        """the exception class `nm` when it was imported from the standard library (hierarchy read from the analyser's own
        interpreter: no code of the analysed package is imported)"""
        import importlib
        import sys
        dotted = self.origin.get(nm)
        if not dotted or '.' not in dotted:
            return None
        top = dotted.split('.')[0]
        if top not in getattr(sys, 'stdlib_module_names', ()):
            return None
        parts = dotted.split('.')
        for i in range(len(parts) - 1, 0, -1):
            try:
                obj = importlib.import_module('.'.join(parts[:i]))
            except Exception:
                continue
            try:
                for p in parts[i:]:
                    obj = getattr(obj, p)
            except AttributeError:
                return None
            return obj if isinstance(obj, type) and issubclass(obj, BaseException) else None
        return None

    def _is_exception_class(self, nm):
        c = self.repo.find_class(nm) if nm in self.repo.classes else None
        if c is not None:
            seen = set()
            stack = [c]
            while stack:
                k = stack.pop()
                if k.name in seen:
                    continue
                seen.add(k.name)
                for b in k.base_names:
                    b = b.split('.')[-1]
                    if b in ('Exception', 'BaseException'):
                        return True
                    bo = getattr(builtins, b, None)
                    if isinstance(bo, type) and issubclass(bo, BaseException):
                        return True
                    bc = self.repo.find_class(b) if b in self.repo.classes else None
                    if bc is not None:
                        stack.append(bc)
            return False
        bo = getattr(builtins, nm, None)
        if isinstance(bo, type) and issubclass(bo, BaseException):
            return True
        return nm in KNOWN_LIB_EXC or self._stdlib_class(nm) is not None

    def _parents(self, nm):
        c = self.repo.find_class(nm) if nm in self.repo.classes else None
        if c is not None:
            return [b.split('.')[-1] for b in c.base_names]
        if nm in KNOWN_LIB_EXC:
            return [KNOWN_LIB_EXC[nm]]
        sc = self._stdlib_class(nm)
        if sc is not None:
            # nearest builtin ancestors: intermediate library classes are skipped (they are not named by the package)
            out = []
            for b in sc.__mro__[1:]:
                if getattr(builtins, b.__name__, None) is b:
                    out.append(b.__name__)
                    break
            return out or ['Exception']
        bo = getattr(builtins, nm, None)
        if isinstance(bo, type) and issubclass(bo, BaseException):
            return [b.__name__ for b in bo.__bases__ if issubclass(b, BaseException)]
        raise AnalysisError('unknown exception class named in the package: %s' % nm)

    def _ancestors(self, nm):
        """all builtin/repo ancestors (by name), including nm"""
        out, stack = set(), [nm]
        while stack:
            k = stack.pop()
            if k in out:
                continue
            out.add(k)
            if k in self.parents:
                ps = self.parents[k]
            else:
                bo = getattr(builtins, k, None)
                ps = [b.__name__ for b in bo.__bases__ if issubclass(b, BaseException)] if isinstance(bo, type) else []
            stack.extend(ps)
        return out

    # -------------------------------------------------------------- queries
    def under(self, cls_name):
        """atoms caught by `except cls_name`"""
        if cls_name not in self.parents and not self._is_exception_class(cls_name):
            raise AnalysisError('unknown exception class in handler: %s' % cls_name)
        return frozenset(a for a in self.atoms if cls_name in self.anc[a])

    def handler_atoms(self, type_ast):
        if type_ast is None:
            return frozenset(self.atoms)
        out = set()
        for t in (type_ast.elts if isinstance(type_ast, ast.Tuple) else [type_ast]):
            out |= self.under(last_name(t))
        return frozenset(out)

    def atom_of(self, cls_name):
        if cls_name in self.parents:
            return cls_name
        # un-named class: falls into the atom of its nearest named ancestor (breadth-first over the bases)
        seen, level = set(), [cls_name]
        while level:
            nxt = []
            for k in level:
                if k in seen:
                    continue
                seen.add(k)
                if k in self.parents:
                    return k
                try:
                    nxt.extend(self._parents(k))
                except AnalysisError:
                    pass
            level = nxt
        raise AnalysisError('cannot place exception class %s' % cls_name)

    @property
    def all(self):
        return frozenset(self.atoms)

    @property
    def ordinary(self):
        """ordinary exceptions: under Exception, outside the framework's own hierarchy (plug-ins, libraries)"""
        fw = self.framework
        return frozenset(a for a in self.under('Exception') if a not in fw)

    @property
    def framework(self):
        if 'TapeRecorderException' in self.parents:
            return self.under('TapeRecorderException')
        return frozenset()

    @property
    def under_exception(self):
        return self.under('Exception')

    @property
    def base_only(self):
        return frozenset(self.atoms) - self.under('Exception')
