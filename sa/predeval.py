"""Evaluator for pure predicates / expressions of the analysed code over analyser-chosen sample values.
No repository code is executed: the AST is interpreted here, only for a whitelisted set of constructs
(string methods, `in`, comparisons, boolean operators, regular expressions with constant patterns, any / all over
generator expressions, attribute access on sample records). Anything else raises Undecidable."""
import ast
import re

from .loader import norm


class Rec(dict):
    """sample record: attributes readable as rec.attr"""
    __getattr__ = dict.__getitem__


class Undecidable(Exception):
    pass


def eval_pred(e, env, module):
    """evaluate a pure string predicate over analyser-chosen sample strings (no repository code is executed)"""
    if isinstance(e, ast.Constant):
        return e.value
    if isinstance(e, ast.Name):
        if e.id in env:
            return env[e.id]
        if e.id in module.globals:
            return eval_pred(module.globals[e.id], env, module)
        raise Undecidable('name %s' % e.id)
    if isinstance(e, ast.IfExp):
        return eval_pred(e.body, env, module) if eval_pred(e.test, env, module) else eval_pred(e.orelse, env, module)
    if isinstance(e, ast.BinOp) and isinstance(e.op, ast.Add):
        return eval_pred(e.left, env, module) + eval_pred(e.right, env, module)
    if isinstance(e, ast.JoinedStr):
        out = ''
        for v in e.values:
            out += str(eval_pred(v.value if isinstance(v, ast.FormattedValue) else v, env, module))
        return out
    if isinstance(e, ast.UnaryOp) and isinstance(e.op, ast.Not):
        return not eval_pred(e.operand, env, module)
    if isinstance(e, ast.BoolOp):
        last = None
        for v in e.values:
            last = eval_pred(v, env, module)
            if isinstance(e.op, ast.And) and not last:
                return last
            if isinstance(e.op, ast.Or) and last:
                return last
        return last
    if isinstance(e, ast.Compare) and len(e.ops) == 1:
        l, r = eval_pred(e.left, env, module), eval_pred(e.comparators[0], env, module)
        op = e.ops[0]
        if isinstance(op, ast.In):
            return l in r
        if isinstance(op, ast.NotIn):
            return l not in r
        if isinstance(op, ast.Eq):
            return l == r
        if isinstance(op, ast.NotEq):
            return l != r
        if isinstance(op, ast.Is):
            return l is r
        if isinstance(op, ast.IsNot):
            return l is not r
        if isinstance(op, ast.Lt):
            return l < r
        if isinstance(op, ast.LtE):
            return l <= r
        if isinstance(op, ast.Gt):
            return l > r
        if isinstance(op, ast.GtE):
            return l >= r
        raise Undecidable('comparison')
    if isinstance(e, ast.Attribute) and isinstance(e.value, ast.Name) and e.value.id in env and isinstance(env[e.value.id], dict):
        return env[e.value.id][e.attr]
    if isinstance(e, ast.Attribute) and isinstance(e.value, ast.Name) and e.value.id == 'self' and 'self' in env:
        return env['self'][e.attr]
    if isinstance(e, ast.Attribute) and isinstance(e.value, ast.Name) and e.value.id not in env and \
            e.value.id in getattr(module, 'classes', {}):
        c = module.classes[e.value.id].lookup_const(e.attr)
        if isinstance(c, ast.Constant):
            return c.value
    if isinstance(e, (ast.GeneratorExp, ast.ListComp)) and len(e.generators) == 1 and isinstance(e.generators[0].target, ast.Name):
        g = e.generators[0]
        out = []
        for item in eval_pred(g.iter, env, module):
            env2 = dict(env)
            env2[g.target.id] = item
            if all(eval_pred(c, env2, module) for c in g.ifs):
                out.append(eval_pred(e.elt, env2, module))
        return out
    if isinstance(e, ast.Call) and isinstance(e.func, ast.Name) and e.func.id in ('any', 'all') and len(e.args) == 1:
        vals = eval_pred(e.args[0], env, module)
        return any(vals) if e.func.id == 'any' else all(vals)
    if isinstance(e, ast.Subscript) and isinstance(e.slice, ast.Constant):
        return eval_pred(e.value, env, module)[e.slice.value]
    if isinstance(e, ast.Subscript) and isinstance(e.slice, ast.Slice):
        lo = eval_pred(e.slice.lower, env, module) if e.slice.lower is not None else None
        hi = eval_pred(e.slice.upper, env, module) if e.slice.upper is not None else None
        return eval_pred(e.value, env, module)[lo:hi]
    if isinstance(e, ast.Subscript):
        return eval_pred(e.value, env, module)[eval_pred(e.slice, env, module)]
    if isinstance(e, ast.UnaryOp) and isinstance(e.op, ast.USub):
        return -eval_pred(e.operand, env, module)
    if isinstance(e, ast.Attribute) and isinstance(e.value, ast.Name) and module.imports.get(e.value.id, '') == 're' and \
            e.attr.isupper():
        return getattr(re, e.attr)
    if isinstance(e, ast.BinOp) and isinstance(e.op, ast.BitOr):
        return eval_pred(e.left, env, module) | eval_pred(e.right, env, module)
    if isinstance(e, ast.Call):
        f = e.func
        args = [eval_pred(a, env, module) for a in e.args]
        if isinstance(f, ast.Attribute):
            if f.attr in ('startswith', 'endswith', 'find', 'count', 'lower', 'upper', 'strip', 'split', 'rsplit', 'rstrip',
                          'lstrip', 'replace', 'format', 'join'):
                recv = eval_pred(f.value, env, module)
                if isinstance(recv, str):
                    kw = {k.arg: eval_pred(k.value, env, module) for k in e.keywords if k.arg}
                    return getattr(recv, f.attr)(*args, **kw)
            if f.attr in ('match', 'search', 'fullmatch', 'compile'):
                base = None
                if isinstance(f.value, ast.Name) and module.imports.get(f.value.id, '') == 're':
                    if f.attr == 'compile':
                        return re.compile(*args)
                    return getattr(re, f.attr)(*args)
                recv = eval_pred(f.value, env, module)
                if isinstance(recv, re.Pattern):
                    return getattr(recv, f.attr)(*args)
        if isinstance(f, ast.Name) and f.id in ('bool', 'len', 'str'):
            return {'bool': bool, 'len': len, 'str': str}[f.id](*args)
        raise Undecidable('call %s' % norm(f))
    raise Undecidable(type(e).__name__)


