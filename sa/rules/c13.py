"""C13 - Comparison runs always finish and leave no worker behind.

  C13.a  R-ABSINT    bounded waits: the parent's wait loop compares elapsed time with the configured timeout, every blocking
                     get has a finite timeout, the worker loop polls with a timeout and reads the terminate event; no unbounded
                     join on a worker that may be hung
  C13.b  R-MUSTPASS  timeout path: ends in raise on every path, kills a still-alive worker with an uncatchable signal
                     (failure to kill contained) and forgets the handle
  C13.c  R-MUSTPASS  death path: an empty poll with a dead worker forgets the handle and raises
  C13.d  R-TYPESTATE the terminate signal is set on every exit of the run (completion, exception, generator closed)
  C13.e  R-ABSINT    recycle bound: age reset exactly where a worker is created, incremented once per dispatch before the
                     task is queued, a worker whose age reached the rate is terminated (set, join, forget, clear) first
  C13.f  R-ORDER     a replacement worker is created only when the handle is None
"""
import ast

from ..report import Result, Finding
from ..loader import walk_own, norm, AnalysisError
from ..cfg import Target
from .. import small
from . import eqmodel as em
from .eqmodel import self_attr


class InlineEq(em.EqPolicy):
    def decide_inline(self, func, call, frame):
        return func.cls is not None and func.cls.name == 'Equalizer' and func.name != '_play_and_compare_recording' and \
            not any(isinstance(n, ast.Call) and self_attr(n.func) == 'player' for n in ast.walk(func.node))

    def summary_target(self, fi, call, frame):
        return Target('opaque', 'repo:' + fi.qualname, raises=frozenset(), role='summary', func=fi)


def run(ctx):
    res = Result('C13')
    repo = ctx.repo
    eq = em.equalizer(repo)
    res.explanation = (
        'Decides the shape that makes comparison runs terminate and reap their worker: boundedness of every wait (timeouts present, '
        'loop condition on elapsed time / terminate event), the timeout and death paths as must-pass / must-raise obligations on the '
        'graph of the dispatch routine with its helpers inlined, the terminate signal on every exit of the generator, and the recycle '
        'arithmetic (reset at creation, one increment per dispatch, `>=` against the rate, ordered termination). Not decided: wall-time '
        'bounds, OS reaping of killed children, a kill that fails.')
    res.not_decided = ['wall-time bounds ("within roughly the timeout")', 'OS reaping of killed children', 'a kill that fails']
    res.assumptions = ['SIGKILL cannot be caught; the worker loop observes the terminate event within its poll interval']
    ca = res.clause('C13.a', 'R-ABSINT', 'bounded waits', floor=4)
    cb = res.clause('C13.b', 'R-MUSTPASS', 'timeout path: raise, kill if alive (contained), forget handle', floor=3)
    cc = res.clause('C13.c', 'R-MUSTPASS', 'death path: forget handle and raise', floor=1)
    cd = res.clause('C13.d', 'R-TYPESTATE', 'terminate signal set on every exit of the run', floor=1)
    ce = res.clause('C13.e', 'R-ABSINT', 'recycle bound', floor=4)
    cf = res.clause('C13.f', 'R-ORDER', 'replacement worker only when the handle is None', floor=1)
    excm = ctx.excm(em.EQ_SCOPE)
    pol = em.EqPolicy(repo, excm)
    er = em.EqRoles(repo)
    ww, th, kill, recyc, create, wt, runc = er.dispatch, er.timeout, er.kill, er.recycle, er.create, er.target, er.run
    for nm, m in (('within_worker', ww), ('timeout handler', th), ('kill', kill), ('recycle', recyc), ('create', create), ('worker target', wt), ('run', runc)):
        if m is None:
            raise AnalysisError('anchor-lost method role=%s' % nm)
    ftypes = {f: t for (c, f), t in pol.field_types.items() if c == eq.name}
    qfields = [f for f, t in ftypes.items() if t == ('lib', 'multiprocessing.Queue')]
    # process handle field and age field
    handle = None
    for n in walk_own(create.node):
        if isinstance(n, ast.Assign) and self_attr(n.targets[0]) and isinstance(n.value, ast.Call) and norm(n.value.func).endswith('Process'):
            handle = self_attr(n.targets[0])
    age = None
    for n in walk_own(create.node):
        if isinstance(n, ast.Assign) and self_attr(n.targets[0]) and isinstance(n.value, ast.Constant) and n.value.value == 0:
            age = self_attr(n.targets[0])
    if handle is None:
        raise AnalysisError('anchor-lost role=worker handle field')

    # ---------------- C13.a bounded waits
    for m in (ww, wt):
        gets = [n for n in ast.walk(m.node) if isinstance(n, ast.Call) and isinstance(n.func, ast.Attribute) and n.func.attr == 'get' and self_attr(n.func.value) in qfields]
        ok = bool(gets)
        for g in gets:
            tmo = g.args[1] if len(g.args) > 1 else None
            for k in g.keywords:
                if k.arg == 'timeout':
                    tmo = k.value
            if not (isinstance(tmo, ast.Constant) and isinstance(tmo.value, (int, float)) and tmo.value > 0):
                ok = False
        ca.instance('%s: every queue get has a finite constant timeout (%d)' % (m.name, len(gets)), m.qualname, ok)
        ca.evaluations += len(gets)
        if not ok:
            res.add(Finding('C13', 'C13.a', 'R-ABSINT', m.file, m.qualname, gets[0].lineno if gets else m.node.lineno, norm(gets[0]) if gets else 'queue get',
                            'a blocking queue get without a finite timeout: a hung or dead worker blocks the run forever'))
    # parent wait loop: elapsed time vs configured timeout
    wl = [n for n in walk_own(ww.node) if isinstance(n, (ast.While, ast.For)) and any(
        isinstance(x, ast.Call) and isinstance(x.func, ast.Attribute) and x.func.attr == 'get' and self_attr(x.func.value) in qfields for x in ast.walk(n))]
    okw = False
    why = 'no wait loop'
    if not wl:
        raise AnalysisError('the dispatch routine has no wait loop: shape not modelled')
    if isinstance(wl[0], ast.For):
        why = 'for %s in %s: the wait is counted in polls, not measured against the clock' % (norm(wl[0].target), norm(wl[0].iter))
    else:
        t = wl[0].test
        has_elapsed = any(isinstance(x, ast.BinOp) and isinstance(x.op, ast.Sub) and isinstance(x.left, ast.Call) and norm(x.left.func).endswith('time') for x in ast.walk(t))
        has_cfg = any(isinstance(x, ast.Attribute) and 'timeout' in x.attr for x in ast.walk(t))
        cmp_ok = isinstance(t, ast.Compare) and isinstance(t.ops[0], (ast.Lt, ast.LtE))
        okw = has_elapsed and has_cfg and cmp_ok
        why = norm(t)
    ca.instance('parent wait loop bounded by elapsed time against the configured timeout', ww.qualname, okw, detail=why)
    if not okw:
        res.add(Finding('C13', 'C13.a', 'R-ABSINT', ww.file, ww.qualname, wl[0].lineno if wl else ww.node.lineno, why,
                        'the loop that waits for a worker\'s answer is not bounded by `time() - start <= configured timeout`'))
    wlw = [n for n in walk_own(wt.node) if isinstance(n, ast.While)]
    okt = bool(wlw) and any(isinstance(x, ast.Call) and isinstance(x.func, ast.Attribute) and x.func.attr == 'is_set' for x in ast.walk(wlw[0].test))
    ca.instance('worker loop condition reads the terminate event', wt.qualname, okt)
    if not okt:
        res.add(Finding('C13', 'C13.a', 'R-ABSINT', wt.file, wt.qualname, wt.node.lineno, 'worker loop condition', 'the worker loop does not observe the terminate event'))
    joins, badj = unbounded_joins(eq, handle, recyc)
    ca.instance('no unbounded join on a worker that may be hung (%d joins)' % len(joins), eq.name, not badj)
    for m, n in badj:
        res.add(Finding('C13', 'C13.a', 'R-ABSINT', m.file, m.qualname, n.lineno, norm(n),
                        'join() without timeout on a worker that was not asked to terminate cooperatively (or that may ignore the request): if the '
                        'worker does not die, the run blocks forever and no further comparison is yielded'))

    # ---------------- C13.b timeout path
    dth = small.analyse(repo, excm, th, policy=InlineEq(repo, excm), domain=em.EqDomain)
    cb.evaluations += dth.visited_pairs
    rets = [(n, s) for n, s in dth.exits if n.info['exit'] == 'return']
    cb.instance('timeout handler: every path ends in raise', th.qualname, not rets)
    if rets:
        n, s = rets[0]
        res.add(Finding('C13', 'C13.b', 'R-MUSTPASS', th.file, th.qualname, th.node.lineno, 'timeout handler returns',
                        'the timeout path can return normally: the timed-out recording would get no failure verdict', witness=dth.path_to(n, s)))
    bad_forget = [(n, s) for n, s in dth.exits if s.extra.get('set:' + handle) != 'None']
    cb.instance('timeout handler: worker handle forgotten on every exit', th.qualname, not bad_forget)
    if bad_forget:
        n, s = bad_forget[0]
        res.add(Finding('C13', 'C13.b', 'R-MUSTPASS', th.file, th.qualname, th.node.lineno, 'handle not forgotten',
                        'after a timeout the worker handle is kept on some path: the next recording is sent to the hung worker', witness=dth.path_to(n, s)))
    esc = [(n, s) for n, s in dth.exits if n.info['exit'] != 'return' and not str(s.extra.get('exc_src', '')).startswith('raise ')]
    cb.instance('timeout handler: failure to kill is contained', th.qualname, not esc)
    if esc:
        n, s = esc[0]
        res.add(Finding('C13', 'C13.b', 'R-MUSTPASS', th.file, th.qualname, th.node.lineno, 'exception from %s escapes' % s.extra.get('exc_src'),
                        'an error while killing the worker escapes the timeout handler', witness=dth.path_to(n, s)))
    # kill: uncatchable
    kills = [n for n in ast.walk(kill.node) if isinstance(n, ast.Call)]
    hard = any((norm(n.func) == 'os.kill' and any('SIGKILL' in norm(a) for a in n.args)) or
               (isinstance(n.func, ast.Attribute) and n.func.attr == 'kill' and self_attr(n.func.value) == handle) for n in kills)
    called = any(isinstance(n, ast.Call) and self_attr(n.func) == kill.name for n in ast.walk(th.node))
    alive_guard = any(isinstance(n, ast.If) and 'is_alive' in norm(n.test) and any(isinstance(x, ast.Call) and self_attr(x.func) == kill.name for x in ast.walk(n)) for n in ast.walk(th.node))
    cb.instance('a still-alive timed-out worker is killed with an uncatchable signal (SIGKILL)', kill.qualname, hard and called and alive_guard)
    if not (hard and called and alive_guard):
        res.add(Finding('C13', 'C13.b', 'R-MUSTPASS', kill.file, kill.qualname, kill.node.lineno, '; '.join(norm(n) for n in kills)[:140] or 'kill',
                        'the timed-out worker is not killed with SIGKILL (called=%s, guarded by is_alive=%s, uncatchable=%s): a replay that handles or '
                        'ignores SIGTERM keeps running after the run completed' % (called, alive_guard, hard)))

    # ---------------- C13.c death path
    okc = False
    from .. import paths as _paths

    def dead_worker(conds):
        return any('is_alive' in norm(t_) and not p_ for t_, p_ in conds) and not any('is_alive' in norm(t_) and p_ for t_, p_ in conds)
    for h in [n for n in ast.walk(ww.node) if isinstance(n, ast.ExceptHandler) and n.type is not None and 'Empty' in norm(n.type)]:
        # on the path of the handler where the worker is found dead: the handle is forgotten and an exception is raised
        forget = [c_ for s_, c_ in _paths.paths_to(h.body, lambda x: isinstance(x, ast.Assign) and self_attr(x.targets[0]) == handle and
                                                   isinstance(x.value, ast.Constant) and x.value.value is None) if dead_worker(c_)]
        raises = [c_ for s_, c_ in _paths.paths_to(h.body, lambda x: isinstance(x, ast.Raise)) if dead_worker(c_)]
        okc = okc or (bool(forget) and bool(raises))
    cc.instance('empty poll + dead worker: handle forgotten, failure raised', ww.qualname, okc)
    cc.evaluations += 1
    if not okc:
        res.add(Finding('C13', 'C13.c', 'R-MUSTPASS', ww.file, ww.qualname, ww.node.lineno, 'death path',
                        'when the worker died while a task is pending the parent does not forget the handle and raise: it keeps waiting / reuses a dead worker'))

    # ---------------- C13.d
    class NoInline(em.EqPolicy):
        def decide_inline(self, func, call, frame):
            return False

        def summary_target(self, fi, call, frame):
            return Target('opaque', 'repo:' + fi.qualname, raises=self.excm.ordinary if not fi.is_static else frozenset(), role='summary', func=fi)
    term = None
    for f, t in ftypes.items():
        if t == ('lib', 'multiprocessing.Event'):
            term = f
    dr = small.analyse(repo, excm, runc, policy=NoInline(repo, excm), domain=em.EqDomain)
    cd.evaluations += dr.visited_pairs
    bad = [(n, s) for n, s in dr.exits if not s.extra.get(('n', '%s.set' % term))]
    kinds = sorted({n.info['exit'] for n, s in dr.exits})
    cd.instance('run_comparison: %s.set() on every exit (%s)' % (term, ', '.join(kinds)), runc.qualname, not bad)
    if bad:
        n, s = bad[0]
        res.add(Finding('C13', 'C13.d', 'R-TYPESTATE', runc.file, runc.qualname, runc.node.lineno, 'exit=%s without terminate signal' % n.info['exit'],
                        'the run can be left (%s) without setting the terminate event: the idle worker polls forever' % n.info['exit'],
                        witness=dr.path_to(n, s), exit=n.info['exit']))

    cd.instance('run_comparison: a GeneratorExit at a yield is never answered by another yield (the finally runs)', runc.qualname, not dr.yield_after_close)
    if dr.yield_after_close:
        node, st = dr.yield_after_close[0]
        res.add(Finding('C13', 'C13.d', 'R-TYPESTATE', runc.file, runc.qualname, node.line, 'yield after GeneratorExit',
                        'a handler of the run swallows the GeneratorExit of an abandoned run and yields again: the terminate signal is never set and the '
                        'worker stays alive', witness=dr.path_to(node, st)))

    # a worker exists only while the generator runs: the entry point itself (executed when the run is requested, before the first
    # next()) creates nothing - a run that is dropped before it is started would otherwise leave its worker behind for ever
    entry = er.entry
    early = []
    if entry is not runc:
        creators = {create.name, recyc.name, ww.name}
        early = [n for n in ast.walk(entry.node) if isinstance(n, ast.Call) and self_attr(n.func) in creators]
    cd.instance('no worker is created outside the generator whose finally stops it (entry point %s)' % entry.qualname, entry.qualname, not early)
    for n in early[:1]:
        res.add(Finding('C13', 'C13.d', 'R-TYPESTATE', entry.file, entry.qualname, n.lineno, norm(n),
                        '%s starts the worker before the generator (%s) is running: a run that is closed or dropped before its first result never '
                        'reaches the finally that stops the worker' % (entry.qualname, runc.qualname)))

    # ---------------- C13.e recycle bound
    if age is None:
        raise AnalysisError('anchor-lost role=worker age field (reset to 0 where the worker is created)')
    ce.instance('age reset to 0 where the worker is created', create.qualname, True)
    resets = [m.qualname for m in eq.methods.values() if m.name != '__init__' for n in ast.walk(m.node)
              if isinstance(n, ast.Assign) and self_attr(n.targets[0]) == age and isinstance(n.value, ast.Constant) and n.value.value == 0]
    ok = resets == [create.qualname]
    ce.instance('age reset nowhere else (%s)' % resets, eq.name, ok)
    if not ok:
        res.add(Finding('C13', 'C13.e', 'R-ABSINT', create.file, eq.name, create.node.lineno, 'age resets %s' % resets, 'the worker age is reset outside worker creation'))
    # one increment per dispatch, before the task is queued
    dw = small.analyse(repo, excm, ww, policy=InlineEq(repo, excm), domain=em.EqDomain)
    ce.evaluations += dw.visited_pairs
    taskq = None
    for n in ast.walk(ww.node):
        if isinstance(n, ast.Call) and isinstance(n.func, ast.Attribute) and n.func.attr == 'put' and self_attr(n.func.value) in qfields:
            taskq = self_attr(n.func.value)
    badi = None
    nput = 0
    for node, t, st, st_in in dw.at:
        c = node.ast
        if isinstance(c.func, ast.Attribute) and c.func.attr == 'put' and self_attr(c.func.value) == taskq:
            nput += 1
            if st_in.extra.get(('n', 'inc:' + age), 0) != 1:
                badi = badi or (node, st_in)
    ce.instance('exactly one age increment before each task is queued (%d dispatch states)' % nput, ww.qualname, badi is None and nput > 0)
    if badi or not nput:
        node, st = badi if badi else (None, None)
        res.add(Finding('C13', 'C13.e', 'R-ABSINT', ww.file, ww.qualname, node.line if node else ww.node.lineno, 'age increments before dispatch',
                        'a task is handed to the worker on a path with %s age increments: the worker can serve more replays than the recycle rate'
                        % (st.extra.get(('n', 'inc:' + age), 0) if st else 'no'), witness=dw.path_to(node, st) if node is not None and (node.id, st.key()) in dw.pred else None))
    # each id is dispatched exactly once per call of the dispatch routine
    badp = [(n, s) for n, s in dw.exits if s.extra.get(('n', '%s.put' % taskq), 0) > 1]
    ce.instance('the dispatch routine queues its task exactly once (no silent re-submission)', ww.qualname, not badp)
    if badp:
        n, s = badp[0]
        res.add(Finding('C13', 'C13.e', 'R-ABSINT', ww.file, ww.qualname, ww.node.lineno, 'task queued more than once',
                        'one call of the dispatch routine can queue the recording more than once: it is replayed twice and its first replay is not counted '
                        'against the worker\'s age / timeout', witness=dw.path_to(n, s)))
    # the terminate event is clear again whenever the dispatch routine is left (a later worker must not start already-terminated)
    bade = [(n, s) for n, s in dw.exits if s.extra.get('ev:' + term) == 'set']
    ce.instance('the terminate event is clear at every exit of the dispatch routine', ww.qualname, not bade)
    if bade:
        n, s = bade[0]
        res.add(Finding('C13', 'C13.e', 'R-ABSINT', ww.file, ww.qualname, ww.node.lineno, 'terminate event left set',
                        'the dispatch routine can be left (%s) with the shared terminate event still set: every worker created afterwards exits '
                        'immediately and all later recordings fail' % n.info['exit'], witness=dw.path_to(n, s), exit=n.info['exit']))
    # the worker handle is known to be set wherever it is dereferenced
    badn = None
    for node, t, st, st_in in dw.at:
        c = node.ast
        if isinstance(c.func, ast.Attribute) and self_attr(c.func.value) == handle:
            v = st_in.env.get(('F', 'self', handle))
            if v is None:
                f = st_in.facts.get(('field', 'self', handle))
                known = f is not None and f[0] is False
            else:
                known = dw.is_none(v, st_in) is False
            if not known:
                badn = badn or (node, st_in)
    cf.instance('the worker handle is known to be set at every call on it', ww.qualname, badn is None)
    if badn:
        node, st = badn
        res.add(Finding('C13', 'C13.f', 'R-ORDER', node.file, node.frame.func.qualname, node.line, ast.unparse(node.ast),
                        'the worker handle may be None here (e.g. forgotten after a timeout / death while the age already reached the rate): the run fails '
                        'for every later recording instead of continuing with a fresh worker',
                        witness=dw.path_to(node, st) if (node.id, st.key()) in dw.pred else None))
    late_inc = [n for m in eq.methods.values() if m not in (recyc, create) for n in ast.walk(m.node)
                if isinstance(n, ast.AugAssign) and self_attr(n.target) == age]
    # recycle test and order
    tests = [n for n in ast.walk(recyc.node) if isinstance(n, ast.Compare) and any(self_attr(x) == age for x in ast.walk(n))]
    okr = False
    why = 'no comparison of the age with the recycle rate'
    if tests:
        t = tests[0]
        op = t.ops[0]
        left_age = self_attr(t.left) == age
        okr = (left_age and isinstance(op, ast.GtE)) or (not left_age and isinstance(op, ast.LtE))
        why = norm(t)
    ce.instance('recycle when age has reached the rate (`>=`)', recyc.qualname, okr, detail=why)
    if not okr:
        res.add(Finding('C13', 'C13.e', 'R-ABSINT', recyc.file, recyc.qualname, tests[0].lineno if tests else recyc.node.lineno, why,
                        'the recycle test lets a worker serve more replays than the configured rate'))
    # order set -> join -> forget -> clear inside the recycle branch
    order = {}
    for n in ast.walk(recyc.node):
        if isinstance(n, ast.Call) and isinstance(n.func, ast.Attribute):
            if n.func.attr == 'set' and self_attr(n.func.value) == term:
                order['set'] = n.lineno
            if n.func.attr == 'join' and self_attr(n.func.value) == handle:
                order['join'] = n.lineno
            if n.func.attr == 'clear' and self_attr(n.func.value) == term:
                order['clear'] = n.lineno
        if isinstance(n, ast.Assign) and self_attr(n.targets[0]) == handle and isinstance(n.value, ast.Constant) and n.value.value is None:
            order['forget'] = n.lineno
    oko = all(k in order for k in ('set', 'join', 'forget', 'clear')) and order['set'] < order['join'] < order['clear'] and order['join'] < order['forget']
    ce.instance('recycle: terminate.set -> join -> forget -> terminate.clear (%s)' % order, recyc.qualname, oko)
    if not oko:
        res.add(Finding('C13', 'C13.e', 'R-ABSINT', recyc.file, recyc.qualname, recyc.node.lineno, 'recycle order %s' % order,
                        'an aged worker is not terminated in the order set, join, forget, clear: clearing before the join lets it keep running'))
    # ---------------- C13.f
    from . import common as _cmn
    ncalls = 0
    unguarded = []
    for m in eq.methods.values():
        for st_, conds in _cmn.guards_of(m.node, lambda x: isinstance(x, ast.Call) and self_attr(x.func) == create.name):
            ncalls += 1
            lits = [l for t_, p_ in conds for l in _cmn.split_literals(t_, p_)]
            if not any(isinstance(t_, ast.Compare) and self_attr(t_.left) == handle and len(t_.ops) == 1 and
                       ((isinstance(t_.ops[0], ast.Is) and p_) or (isinstance(t_.ops[0], ast.IsNot) and not p_)) and
                       isinstance(t_.comparators[0], ast.Constant) and t_.comparators[0].value is None for t_, p_ in lits):
                unguarded.append((m, st_))
    okf = ncalls >= 1 and not unguarded
    cf.instance('worker created only under `handle is None` (%d creation site(s))' % ncalls, recyc.qualname, okf)
    cf.evaluations += 1
    if not okf:
        res.add(Finding('C13', 'C13.f', 'R-ORDER', recyc.file, recyc.qualname, recyc.node.lineno, 'worker creation guard',
                        'a replacement worker can be created while another handle is still held'))
    # ---- C13.g the execution configuration reaches the equalizer as given (a rate / timeout of 0 is a legal value)
    from . import common
    cg = res.clause('C13.g', 'R-PROV', 'recycle rate, timeout and process mode are stored as the caller gave them', floor=3)
    common.ctor_params_clause(ctx, res, cg, 'C13', 'C13.g', 'CompareExecutionConfig')
    common.ctor_calls_agree_clause(ctx, res, cg, 'C13', 'C13.g', 'CompareExecutionConfig')
    # ---- C13.j the worker stays interruptible: it changes no signal disposition (ignoring SIGINT / SIGTERM makes it survive the very
    # interrupt that aborts the parent's run, and nothing else ends a worker that is stuck in a replay)
    cj13 = res.clause('C13.j', 'R-WHOCALLS', 'the worker installs / ignores no signal handlers', floor=1)
    sigs = [(m_, n) for m_ in eq.methods.values() for n in ast.walk(m_.node)
            if isinstance(n, ast.Call) and norm(n.func) in ('signal.signal', 'signal.pthread_sigmask', 'signal.set_wakeup_fd')]
    cj13.instance('no signal disposition is changed by the equalizer / its worker', eq.name, not sigs)
    cj13.evaluations += 1
    for m_, n in sigs[:1]:
        res.add(Finding('C13', 'C13.j', 'R-WHOCALLS', m_.file, m_.qualname, n.lineno, norm(n)[:100],
                        '%s changes a signal disposition (`%s`): a worker that ignores the interrupt which aborts the parent\'s run is left behind, stuck in '
                        'its replay, since the parent never reaches the timeout kill' % (m_.qualname, norm(n)[:60])))
    # ---- C13.h the shutdown of a run lives in the finalisation of its generator: whoever starts runs for the caller hands the generators over
    # and keeps no reference (a kept reference postpones the finalisation - and the worker's shutdown - for as long as that object lives)
    from . import common as _cm13
    st13 = repo.cls('PlaybackStudio')
    ch13 = res.clause('C13.h', 'R-PROV', 'the studio keeps no reference to the comparison generators it returns', floor=1)
    _cm13.stateless_methods_clause(res, ch13, 'C13', 'C13.h', st13, ['play'],
                                   'an abandoned run is shut down when its generator is finalised, which needs the caller to hold the only reference')
    # ---- C13.i the timeout a run is judged by is the configured one: the execution config handed to each equalizer is not rewritten per
    # category (shared with C19.a)
    _cm13.import_clauses(ctx, res, 'C19', ['C19.a'], 'C13', 'C13.i', 'R-PROV', 'equalizer arguments derive from this call (no shared object rewritten per category)', floor=4)
    _cm13.import_clauses(ctx, res, 'C08', ['C08.a'], 'C13', 'C13.k', 'R-TYPESTATE', 'the run goes on after a lost worker: every id still gets its comparison', floor=3)
    return res


def worker_handle(eq):
    create = eq.lookup('_create_new_player_process')
    if create is None:
        raise AnalysisError('anchor-lost method=_create_new_player_process')
    for n in walk_own(create.node):
        if isinstance(n, ast.Assign) and self_attr(n.targets[0]) and isinstance(n.value, ast.Call) and norm(n.value.func).endswith('Process'):
            return self_attr(n.targets[0])
    raise AnalysisError('anchor-lost role=worker handle field')


def unbounded_joins(eq, handle, recyc):
    """join() calls on the worker handle without timeout; allowed only in the recycle path after the cooperative terminate signal"""
    joins = []
    for m in eq.methods.values():
        for n in ast.walk(m.node):
            if isinstance(n, ast.Call) and isinstance(n.func, ast.Attribute) and n.func.attr == 'join' and self_attr(n.func.value) == handle:
                has_tmo = bool(n.args) or any(k.arg == 'timeout' for k in n.keywords)
                joins.append((m, n, has_tmo))
    badj = []
    for m, n, has_tmo in joins:
        if has_tmo:
            continue
        if m is recyc:
            sets = [x.lineno for x in ast.walk(m.node) if isinstance(x, ast.Call) and isinstance(x.func, ast.Attribute) and x.func.attr == 'set']
            if sets and min(sets) < n.lineno:
                continue
        badj.append((m, n))
    return joins, badj


def terminate_event_clause(ctx, res, clause, prop, cid):
    """the shared terminate event is clear whenever the dispatch routine is left"""
    repo = ctx.repo
    eq = em.equalizer(repo)
    excm = ctx.excm(em.EQ_SCOPE)
    pol = em.EqPolicy(repo, excm)
    ww = em.EqRoles(repo).dispatch
    term = None
    for (c, f), t in pol.field_types.items():
        if c == eq.name and t == ('lib', 'multiprocessing.Event'):
            term = f
    if ww is None or term is None:
        raise AnalysisError('anchor-lost role=dispatch routine / terminate event')
    dw = small.analyse(repo, excm, ww, policy=InlineEq(repo, excm), domain=em.EqDomain)
    clause.evaluations += dw.visited_pairs
    bade = [(n, s) for n, s in dw.exits if s.extra.get('ev:' + term) == 'set']
    clause.instance('the terminate event is clear at every exit of the dispatch routine (%d exits)' % len(dw.exits), ww.qualname, not bade)
    if bade:
        n, s = bade[0]
        res.add(Finding(prop, cid, 'R-ABSINT', ww.file, ww.qualname, ww.node.lineno, 'terminate event left set',
                        'the dispatch routine can be left (%s) with the shared terminate event still set: every worker created afterwards exits '
                        'immediately, so all later recordings fail although they are fine' % n.info['exit'], witness=dw.path_to(n, s), exit=n.info['exit']))


def dispatch_once_clause(ctx, res, clause, prop, cid):
    """one call of the dispatch routine hands the recording to a worker at most once (no silent second replay)"""
    repo = ctx.repo
    eq = em.equalizer(repo)
    excm = ctx.excm(em.EQ_SCOPE)
    pol = em.EqPolicy(repo, excm)
    ww = em.EqRoles(repo).dispatch
    qfields = {f for (c, f), t in pol.field_types.items() if c == eq.name and t == ('lib', 'multiprocessing.Queue')}
    taskq = None
    for n in ast.walk(ww.node):
        if isinstance(n, ast.Call) and isinstance(n.func, ast.Attribute) and n.func.attr == 'put' and self_attr(n.func.value) in qfields:
            taskq = self_attr(n.func.value)
    if taskq is None:
        raise AnalysisError('anchor-lost role=task queue of the dispatch routine')
    dw = small.analyse(repo, excm, ww, policy=InlineEq(repo, excm), domain=em.EqDomain)
    clause.evaluations += dw.visited_pairs
    badp = [(n, s) for n, s in dw.exits if s.extra.get(('n', '%s.put' % taskq), 0) > 1]
    clause.instance('the dispatch routine queues its task at most once per call (%d exits)' % len(dw.exits), ww.qualname, not badp)
    if badp:
        n, s = badp[0]
        res.add(Finding(prop, cid, 'R-ABSINT', ww.file, ww.qualname, ww.node.lineno, 'task queued more than once',
                        'one call of the dispatch routine can queue the recording more than once: the recording is replayed twice',
                        witness=dw.path_to(n, s)))


def nullable_handle_clause(ctx, res, clause, prop, cid):
    """the worker handle is known to be set wherever the dispatch routine (helpers inlined) calls a method on it"""
    repo = ctx.repo
    eq = em.equalizer(repo)
    excm = ctx.excm(em.EQ_SCOPE)
    ww = em.EqRoles(repo).dispatch
    handle = worker_handle(eq)
    dw = small.analyse(repo, excm, ww, policy=InlineEq(repo, excm), domain=em.EqDomain)
    clause.evaluations += dw.visited_pairs
    badn = None
    for node, t, st, st_in in dw.at:
        c = node.ast
        if isinstance(c.func, ast.Attribute) and self_attr(c.func.value) == handle:
            v = st_in.env.get(('F', 'self', handle))
            if v is None:
                f = st_in.facts.get(('field', 'self', handle))
                known = f is not None and f[0] is False
            else:
                known = dw.is_none(v, st_in) is False
            if not known:
                badn = badn or (node, st_in)
    clause.instance('the worker handle is known to be set at every call on it', ww.qualname, badn is None)
    if badn:
        node, st = badn
        res.add(Finding(prop, cid, 'R-ORDER', node.file, node.frame.func.qualname, node.line, ast.unparse(node.ast),
                        'the worker handle may be None here (forgotten after a timeout / death of the worker): dispatching the next recording raises '
                        'inside the framework, so every later recording gets a framework failure instead of its own verdict',
                        witness=dw.path_to(node, st) if (node.id, st.key()) in dw.pred else None))
