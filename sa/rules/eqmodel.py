"""Shared analysis of the Equalizer (C08, C13): policy and a domain that counts yields / puts / events per iteration."""
import ast

from ..resolve import RepoPolicy
from ..cfg import Target
from ..loader import walk_own, norm, AnalysisError
from .. import small

EQ_SCOPE = ['playback.studio.equalizer']


def self_attr(e):
    if isinstance(e, ast.Attribute) and isinstance(e.value, ast.Name) and e.value.id == 'self':
        return e.attr
    return None


class EqPolicy(RepoPolicy):
    def user_role(self, owner, param):
        if owner.cls is not None and owner.cls.name == 'Equalizer' and param in ('player', 'result_extractor', 'comparator',
                                                                                'comparison_data_extractor', 'recording_ids'):
            return 'plugin'
        return None

    def unknown_receiver(self, recv, meth, call, frame):
        # the worker handle is a started multiprocessing.Process: join / start / is_alive do not raise
        if meth in ('join', 'start', 'is_alive') and self_attr(recv) is not None and 'process' in self_attr(recv):
            return Target('opaque', 'method:%s' % meth, role='lib')
        return RepoPolicy.unknown_receiver(self, recv, meth, call, frame)

    def iter_raises(self, node, frame):
        # the ids iterator is supplied by the caller: it may raise while being advanced
        it = node.iter if isinstance(node, ast.For) else None
        if it is not None and any(self_attr(x) == 'recording_ids' for x in ast.walk(it)):
            return self.excm.ordinary
        return frozenset()

    def yield_raises(self, node, frame):
        # closing the generator at a yield (GeneratorExit); consumer .throw() is outside the property
        return frozenset({self.excm.atom_of('GeneratorExit')})


class EqDomain(small.SmallDomain):
    """counts, per iteration of the main loop, yields and labelled events"""

    def __init__(self, *a, **kw):
        self.labels = kw.pop('labels', {})       # predicate name -> function(node, target) -> bool
        small.SmallDomain.__init__(self, *a, **kw)
        self.iter_reports = []
        self.iter_escapes = []
        self.yield_after_close = []
        self.at = []

    def on_edge(self, node, label, dst, state):
        if node.kind == 'yield' and label.startswith('exc:'):
            return state.with_extra(closing=True)
        return state

    def on_exit(self, node, state):
        small.SmallDomain.on_exit(self, node, state)
        if node.info['exit'] != 'return' and state.extra.get('iter_open') and not state.extra.get('closing') and \
                node.info['exit'][6:] in self.excm.ordinary and not str(state.extra.get('exc_src', '')).startswith('iterator:'):
            self.iter_escapes.append((node, state))

    def on_stmt(self, node, state):
        if node.kind == 'yield':
            if state.extra.get('closing'):
                self.yield_after_close.append((node, state))
            return state.bump(('n', 'yield'))
        if node.kind == 'stmt' and node.info.get('what') == 'for-target' and node.frame.parent is None:
            return state.with_extra(**{'iter_open': True}).with_extra(**{})._replace_counts({('n', 'yield'): 0}) if False else \
                self._reset(state)
        if node.kind == 'stmt' and isinstance(node.ast, ast.Assign):
            for t in node.ast.targets:
                f = self_attr(t)
                if f:
                    v = node.ast.value
                    tag = 'None' if isinstance(v, ast.Constant) and v.value is None else 'zero' if isinstance(v, ast.Constant) and v.value == 0 else 'other'
                    state = state.with_extra(**{'set:' + f: tag}).bump(('n', 'assign:' + f))
        if node.kind == 'stmt' and isinstance(node.ast, ast.AugAssign) and self_attr(node.ast.target):
            state = state.bump(('n', 'inc:' + self_attr(node.ast.target)))
        return state

    def _reset(self, state):
        st = state.copy()
        st.extra[('n', 'yield')] = 0
        st.extra['iter_open'] = True
        return st

    def on_node(self, node, state):
        # arriving at the loop head again / leaving the loop: the iteration that just ended must have yielded once
        if node.kind == 'branch' and node.info.get('for_stmt') is not None and node.frame.parent is None and state.extra.get('iter_open'):
            if state.extra.get(('n', 'yield'), 0) != 1:
                self.iter_reports.append((node, state, state.extra.get(('n', 'yield'), 0)))

    def on_call_attempt(self, node, t, state):
        st = small.SmallDomain.on_call_attempt(self, node, t, state)
        c = node.ast
        if isinstance(c, ast.Call) and isinstance(c.func, ast.Attribute):
            recv = self_attr(c.func.value)
            if recv:
                st = st.bump(('n', '%s.%s' % (recv, c.func.attr)))
                if c.func.attr in ('set', 'clear'):
                    st = st.with_extra(**{'ev:' + recv: c.func.attr})
                self.at.append((node, t, st, state))
        return st


def equalizer(repo):
    c = repo.find_class('Equalizer')
    if c is None:
        raise AnalysisError('anchor-lost class=Equalizer')
    return c
