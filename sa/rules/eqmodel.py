"""Shared analysis of the Equalizer (C08, C13): policy and a domain that counts yields / puts / events per iteration."""
import ast

from ..resolve import RepoPolicy
from ..cfg import Target
from ..loader import walk_own, norm, AnalysisError
from .. import small

EQ_SCOPE = ['playback.studio.equalizer']


def self_attr(e):
    if isinstance(e, ast.Attribute) and isinstance(e.value, ast.Name) and e.value.id == 'self':
        return e.attr
    return None


class EqPolicy(RepoPolicy):
    def user_role(self, owner, param):
        if owner.cls is not None and owner.cls.name == 'Equalizer' and param in ('player', 'result_extractor', 'comparator',
                                                                                'comparison_data_extractor', 'recording_ids'):
            return 'plugin'
        return None

    def unknown_receiver(self, recv, meth, call, frame):
        # the worker handle is a started multiprocessing.Process: join / start / is_alive do not raise
        if meth in ('join', 'start', 'is_alive') and self_attr(recv) is not None and 'process' in self_attr(recv):
            return Target('opaque', 'method:%s' % meth, role='lib')
        return RepoPolicy.unknown_receiver(self, recv, meth, call, frame)

    def iter_raises(self, node, frame):
        # the ids iterator is supplied by the caller: it may raise while being advanced
        it = node.iter if isinstance(node, ast.For) else None
        if it is not None and any(self_attr(x) == 'recording_ids' for x in ast.walk(it)):
            return self.excm.ordinary
        return frozenset()

    def yield_raises(self, node, frame):
        # closing the generator at a yield (GeneratorExit); consumer .throw() is outside the property
        return frozenset({self.excm.atom_of('GeneratorExit')})


class EqDomain(small.SmallDomain):
    """counts, per iteration of the main loop, yields and labelled events"""

    def __init__(self, *a, **kw):
        self.labels = kw.pop('labels', {})       # predicate name -> function(node, target) -> bool
        small.SmallDomain.__init__(self, *a, **kw)
        self.iter_reports = []
        self.iter_escapes = []
        self.yield_after_close = []
        self.at = []

    def on_edge(self, node, label, dst, state):
        if node.kind == 'yield' and label.startswith('exc:'):
            return state.with_extra(closing=True)
        return state

    def on_exit(self, node, state):
        small.SmallDomain.on_exit(self, node, state)
        if node.info['exit'] != 'return' and state.extra.get('iter_open') and not state.extra.get('closing') and \
                node.info['exit'][6:] in self.excm.ordinary and not str(state.extra.get('exc_src', '')).startswith('iterator:'):
            self.iter_escapes.append((node, state))

    def on_stmt(self, node, state):
        if node.kind == 'yield':
            if state.extra.get('closing'):
                self.yield_after_close.append((node, state))
            return state.bump(('n', 'yield'))
        if node.kind == 'stmt' and node.info.get('what') == 'for-target' and node.frame.parent is None:
            return state.with_extra(**{'iter_open': True}).with_extra(**{})._replace_counts({('n', 'yield'): 0}) if False else \
                self._reset(state)
        if node.kind == 'stmt' and isinstance(node.ast, ast.Assign):
            for t in node.ast.targets:
                f = self_attr(t)
                if f:
                    v = node.ast.value
                    tag = 'None' if isinstance(v, ast.Constant) and v.value is None else 'zero' if isinstance(v, ast.Constant) and v.value == 0 else 'other'
                    state = state.with_extra(**{'set:' + f: tag}).bump(('n', 'assign:' + f))
        if node.kind == 'stmt' and isinstance(node.ast, ast.AugAssign) and self_attr(node.ast.target):
            state = state.bump(('n', 'inc:' + self_attr(node.ast.target)))
        return state

    def _reset(self, state):
        st = state.copy()
        st.extra[('n', 'yield')] = 0
        st.extra['iter_open'] = True
        return st

    def on_node(self, node, state):
        # arriving at the loop head again / leaving the loop: the iteration that just ended must have yielded once
        if node.kind == 'branch' and node.info.get('for_stmt') is not None and node.frame.parent is None and state.extra.get('iter_open'):
            if state.extra.get(('n', 'yield'), 0) != 1:
                self.iter_reports.append((node, state, state.extra.get(('n', 'yield'), 0)))

    def on_call_attempt(self, node, t, state):
        st = small.SmallDomain.on_call_attempt(self, node, t, state)
        c = node.ast
        if isinstance(c, ast.Call) and isinstance(c.func, ast.Attribute):
            recv = self_attr(c.func.value)
            if recv:
                st = st.bump(('n', '%s.%s' % (recv, c.func.attr)))
                if c.func.attr in ('set', 'clear'):
                    st = st.with_extra(**{'ev:' + recv: c.func.attr})
                self.at.append((node, t, st, state))
        return st


def equalizer(repo):
    c = repo.find_class('Equalizer')
    if c is None:
        raise AnalysisError('anchor-lost class=Equalizer')
    return c


class EqRoles(object):
    """anchors of the Equalizer found by structure (public names and names the tests patch are used as is)"""

    def __init__(self, repo):
        eq = equalizer(repo)
        self.eq = eq
        self.run = eq.lookup('run_comparison')
        self.entry = self.run
        # the public entry may hand back a generator written as a separate method: the loop lives there
        if self.run is not None and not self.run.is_generator:
            for n in ast.walk(self.run.node):
                if isinstance(n, ast.Return) and isinstance(n.value, ast.Call) and self_attr(n.value.func) and eq.lookup(n.value.func.attr) is not None and \
                        eq.lookup(n.value.func.attr).is_generator:
                    self.run = eq.lookup(n.value.func.attr)
        self.pac = eq.lookup('_play_and_compare_recording')          # patched by the tests: stable
        self.kill = eq.lookup('_kill_compare_process')               # patched by the tests: stable
        self.create = eq.lookup('_create_new_player_process')        # patched by the tests: stable
        if None in (self.run, self.pac, self.kill, self.create):
            raise AnalysisError('anchor-lost Equalizer public / test-patched methods')

        def calls(m, name):
            return any(isinstance(n, ast.Call) and self_attr(n.func) == name for n in ast.walk(m.node))
        # worker target: the method named as target= of the Process constructor
        self.target = None
        for n in ast.walk(self.create.node):
            if isinstance(n, ast.Call) and norm(n.func).endswith('Process'):
                for k in n.keywords:
                    if k.arg == 'target' and self_attr(k.value):
                        self.target = eq.lookup(self_attr(k.value))
        # dispatch routine: the method the run loop calls with the id
        self.dispatch = None
        for n in ast.walk(self.run.node):
            if isinstance(n, ast.Call) and self_attr(n.func) and eq.lookup(n.func.attr) is not None and n.args and \
                    eq.lookup(n.func.attr) not in (self.pac,) and not eq.lookup(n.func.attr).is_static:
                self.dispatch = eq.lookup(n.func.attr)
        # recycle routine: calls create
        rec = [m for m in eq.methods.values() if m is not self.create and m not in (self.entry, self.run) and calls(m, self.create.name)]
        self.recycle = rec[0] if len(rec) == 1 else None
        # timeout handler: the remaining routine the dispatch routine calls (not the in-process player, not the recycle routine);
        # when the handling is written inline the dispatch routine itself plays the role
        self.timeout = None
        if self.dispatch is not None:
            th = []
            for n in ast.walk(self.dispatch.node):
                if isinstance(n, ast.Call) and self_attr(n.func):
                    m = eq.lookup(n.func.attr)
                    if m is not None and m not in (self.pac, self.recycle, self.kill, self.create) and m not in th:
                        th.append(m)
            self.timeout = th[0] if len(th) == 1 else (self.dispatch if not th else None)
        for nm in ('target', 'dispatch', 'recycle', 'timeout'):
            if getattr(self, nm) is None:
                raise AnalysisError('anchor-lost role=equalizer %s' % nm)
