"""C05 - A recording is persisted whole or not at all, and finalised exactly once.

Decided (structural necessary conditions; see DESIGN.md section 5, C05):
  C05.a  R-TYPESTATE  every exit of the inlined recording scope has exactly one finalisation (save xor abort)
  C05.b/c R-MUSTPASS  in recording mode every executed interception is captured (value or exception envelope)
                      or the recording is dead (discarded) when the decorator returns / lets an Exception escape
  C05.d  R-DOM        save only after a keep decision, scope-level abort only after a drop decision
  C05.e  R-MUSTPASS   the incomplete flag is stored and metadata attached before save on every saving path
"""
import ast

from ..report import Result, Finding
from . import recmodel as rm

SAVE = 'iface:TapeCassette.save_recording'
ABORT = 'iface:TapeCassette.abort_recording'
CREATE = 'iface:TapeCassette.create_new_recording'


def body_label(dom):
    labs = {t.label for n, t in dom.builder.call_sites if t.role == 'body'}
    return sorted(labs)


def run(ctx):
    res = Result('C05')
    from ..recorder import StructuralFinding
    try:
        roles = ctx.roles
    except StructuralFinding as sf:
        if sf.what[0] != 'shared-thread-local':
            raise
        # the per-thread "inside an interception" marker belongs to one recorder: kept in a module-level object it is shared by every
        # recorder of the process, and an interception of one recorder silences the interceptions of all the others on that thread
        c0 = res.clause('C05.c', 'R-MUSTPASS', 'the in-interception marker is per recorder (and per thread)', floor=1)
        c0.instance('marker kept on the recorder instance', sf.cls.name, False)
        res.add(Finding('C05', 'C05.c', 'R-MUSTPASS', sf.cls.module.relpath, sf.cls.name, sf.what[2], '%s = threading.local()' % sf.what[1],
                        'the in-interception marker lives in the module-level `%s`, shared by every TapeRecorder of the process: while one recorder is '
                        'inside an interception on a thread, interceptions of another recorder on that thread are passed through without being '
                        'captured - its recording is saved as complete with those entries missing' % sf.what[1]))
        return res
    res.explanation = (
        'Decides the pairing/typestate skeleton of C05 on the control-flow graph of the operation decorator with '
        'start_recording, the operation executor, discard/force/enable/disable re-entry and all helpers inlined: '
        'on every exit (return and each exception atom, the operation body raising any kind and calling the '
        'public API any number of times) a created recording has exactly one of save/abort; in recording mode an '
        'executed interception is captured or the recording discarded; save follows a keep decision and the '
        'incomplete flag. Not decided: atomicity inside a storage back-end; BaseException swallowed by user code; '
        'value-level completeness of a saved recording.')
    res.not_decided = ['atomicity inside a storage back-end (S3 two-object write is C15)',
                       'BaseException caught and swallowed by user code inside the operation']
    res.assumptions = ['raise policy of DESIGN 3.3: bodies raise any kind and may re-enter the public recorder API; '
                       'plug-ins, serializer and storage raise ordinary exceptions; interface effects derived from the '
                       'shipped cassette / recording implementations on this run',
                       'one recording at a time per recorder (documented precondition asserted by start_recording)']

    # ------------------------------------------------------------------ C05.a
    dom = rm.run_closure(ctx, 'operation', 'idle')
    ca = res.clause('C05.a', 'R-TYPESTATE', 'exactly one finalisation (save xor abort) on every exit of the recording scope', floor=4)
    ca.evaluations = dom.visited_pairs
    by_exit = {}
    for n, s in dom.exits:
        cr, sv, ab = dom.n(s, CREATE), dom.n(s, SAVE), dom.n(s, ABORT)
        ok = (sv + ab == 1) if cr >= 1 else (sv + ab == 0)
        if cr > 1:
            ok = False
        k = (rm.exit_kind(n), cr >= 1)
        e = by_exit.setdefault(k, dict(ok=True, states=0, bad=None))
        e['states'] += 1
        if not ok and e['ok']:
            e['ok'] = False
            e['bad'] = (n, s, cr, sv, ab)
    fac, deco, cl = roles.closures['operation']
    for (ek, created), e in sorted(by_exit.items()):
        ca.instance('exit=%s created=%s' % (ek, created), cl.qualname, e['ok'], detail='%d abstract states' % e['states'])
        if not e['ok']:
            n, s, cr, sv, ab = e['bad']
            res.add(Finding('C05', 'C05.a', 'R-TYPESTATE', roles.start.file, roles.start.qualname, roles.start.node.lineno,
                            'exit=%s created=%d saves=%d aborts=%d' % (ek, cr, sv, ab),
                            'recording scope left with %d save and %d abort attempts for %d created recording(s): '
                            'finalisation must happen exactly once' % (sv, ab, cr),
                            witness=dom.path_to(n, s), entry=cl.qualname, exit=ek))
    if dom.exits:
        n, s = dom.exits[0]
        ca.samples.append(dict(exit=rm.exit_kind(n), state=rm.describe_state(dom, s), path=dom.path_to(n, s, limit=14)))

    # ------------------------------------------------------------------ C05.d  (same propagation, state at the call sites)
    cd = res.clause('C05.d', 'R-DOM', 'save only after a keep decision; scope-level abort only after a drop decision', floor=2)
    seen_sites = {}
    for node, t, st, st_in in dom.at_calls:
        if t.label not in (SAVE, ABORT):
            continue
        in_discard = node.frame.func is roles.discard
        dec = st.extra.get('decision')
        if t.label == SAVE:
            ok = dec in ('keep', 'value')
            want = 'keep'
        elif in_discard:
            ok = True
            want = 'n/a (explicit discard)'
        else:
            ok = dec in ('drop', 'value')
            want = 'drop'
        key = (node.line, t.label, node.frame.func.qualname)
        e = seen_sites.setdefault(key, dict(ok=True, node=node, states=0, want=want, bad=None))
        e['states'] += 1
        cd.evaluations += 1
        if not ok and e['ok']:
            e['ok'] = False
            e['bad'] = (st_in, dec)
    for key, e in sorted(seen_sites.items(), key=lambda kv: (kv[0][0] or 0, kv[0][1])):
        node = e['node']
        cd.instance('%s in %s' % (key[1].split('.')[-1], key[2]), node.where(), e['ok'],
                    detail='required decision: %s; %d states' % (e['want'], e['states']))
        if not e['ok']:
            st, dec = e['bad']
            res.add(Finding('C05', 'C05.d', 'R-DOM', node.file, node.frame.func.qualname, node.line,
                            ast.unparse(node.ast), 'cassette %s reached with sampling decision %r (required: %s)' % (
                                key[1].split('.')[-1], dec, e['want']),
                            witness=dom.path_to(node, st) if (node.id, st.key()) in dom.pred else None))

    badd = None
    nd = 0
    for n, s in dom.exits:
        if s.extra.get('discard_requested'):
            nd += 1
            if dom.n(s, SAVE):
                badd = badd or (n, s)
    cd.instance('after a discard request nothing is saved (%d exits)' % nd, roles.discard.qualname, badd is None and nd > 0)
    if badd:
        n, s = badd
        res.add(Finding('C05', 'C05.d', 'R-DOM', roles.discard.file, roles.discard.qualname, roles.discard.node.lineno, 'discard request not honoured',
                        'discard_recording() was called on the active recording but the scope still saves it', witness=dom.path_to(n, s),
                        exit=rm.exit_kind(n)))

    # ------------------------------------------------------------------ C05.e
    ce = res.clause('C05.e', 'R-MUSTPASS', 'incomplete flag stored and metadata attached before every save', floor=1)
    inc_const = roles.cls.lookup_const('INCOMPLETE_RECORDING')
    if inc_const is None or not isinstance(inc_const, ast.Constant):
        from ..loader import AnalysisError
        raise AnalysisError('anchor-lost role=incomplete-flag-constant')
    inc_key = inc_const.value
    sites = {}
    for node, t, st, st_in in dom.at_calls:
        if t.label != SAVE:
            continue
        ok = inc_key in st.extra.get('stored_keys', frozenset()) and dom.n(st, 'iface:Recording.add_metadata') >= 1
        e = sites.setdefault(node.line, dict(ok=True, node=node, states=0, bad=None))
        e['states'] += 1
        ce.evaluations += 1
        if not ok and e['ok']:
            e['ok'] = False
            e['bad'] = st_in
    for line, e in sorted(sites.items()):
        node = e['node']
        ce.instance('save_recording preceded by metadata[%r] and add_metadata' % inc_key, node.where(), e['ok'],
                    detail='%d states' % e['states'])
        if not e['ok']:
            st = e['bad']
            res.add(Finding('C05', 'C05.e', 'R-MUSTPASS', node.file, node.frame.func.qualname, node.line,
                            ast.unparse(node.ast),
                            'save reachable without the incomplete flag stored / metadata attached on the path',
                            witness=dom.path_to(node, st) if (node.id, st.key()) in dom.pred else None))

    # ------------------------------------------------------------------ C05.f  the flag means "no operation output captured"
    from . import c18
    cfl = res.clause('C05.f', 'R-AGREE', 'incomplete flag = no operation-output entry (so an unflagged recording has its result entry)', floor=2)
    c18.incomplete_flag_clause(ctx, res, cfl, 'C05', 'C05.f')

    rm.interception_flag_clause(ctx, res, 'C05', 'C05.g')
    # ---- C05.j a recording that is running when another operation of the same recorder starts (nested / overlapping call) is not dropped
    cj = res.clause('C05.j', 'R-TYPESTATE', 'an operation entered while a recording is active leaves that recording active or finalises it', floor=1)
    dn = rm.run_closure(ctx, 'operation', 'recording')
    cj.evaluations += dn.visited_pairs
    init_active = dn.initial_states()[0].env.get(('F', 'self', roles.active))
    badn = None
    for n, s in dn.exits:
        a = dn.field(s, roles.active)
        if a is not None and a == init_active:
            continue
        if dn.n(s, SAVE) + dn.n(s, ABORT) >= dn.n(s, CREATE) + 1:
            continue            # one finalisation more than the recordings this scope created itself: the running one was finalised too
        badn = badn or (n, s)
    cj.instance('nested entry: %d exits keep or finalise the running recording' % len(dn.exits), cl.qualname, badn is None and bool(dn.exits))
    if badn:
        n, s = badn
        res.add(Finding('C05', 'C05.j', 'R-TYPESTATE', roles.start.file, roles.start.qualname, roles.start.node.lineno,
                        'running recording dropped by a nested entry (exit %s)' % rm.exit_kind(n),
                        'when an operation starts while another recording of the same recorder is active, that recording is detached from the recorder '
                        'without being saved or aborted: it was created but is never finalised', witness=dn.path_to(n, s), exit=rm.exit_kind(n)))
    from . import common as _ci
    _ci.template_hooks_clause(ctx, res, 'C05', 'C05.l', 'Recording', floor=2)
    _ci.import_clauses(ctx, res, 'C12', ['C12.a', 'C12.c', 'C12.d', 'C12.e', 'C12.f'], 'C05', 'C05.k', 'R-ORDER',
                       'through the asynchronous cassette a recording is stored whole: every buffered write applied once, in order, before its save', floor=4)
    _ci.import_clauses(ctx, res, 'C15', ['C15.e'], 'C05', 'C05.m', 'R-ORDER', 'S3: the object that makes a recording discoverable is written after the object that makes it fetchable', floor=2)
    _ci.import_clauses(ctx, res, 'C10', ['C10.d'], 'C05', 'C05.i', 'R-AGREE', 'a save that fails leaves nothing behind that lookups can find', floor=1)
    # ---- C05.h the ordinal counter is fresh whenever the scope is left (also after a discard): otherwise the next recording's
    # outputs are stored from #2 on and a complete, unflagged recording cannot be replayed (missing key #1)
    from . import c09
    chh = res.clause('C05.h', 'R-TYPESTATE', 'the output ordinals restart with every recording scope (fresh counter at every exit, also after a discard)', floor=2)
    c09.check_idle(res, chh, dom, roles.start, cl.qualname, [roles.counter], tl=False, prop='C05')
    # ------------------------------------------------------------------ C05.b/c  capture-or-dead in recording mode
    cc = res.clause('C05.c', 'R-MUSTPASS', 'in recording mode an executed interception is captured or the recording is dead', floor=4)
    base_atoms = recmodel_base_atoms(ctx)
    for kind, expected in (('input', 1), ('output', 2)):
        d2 = rm.run_closure(ctx, kind, 'recording')
        cc.evaluations += d2.visited_pairs
        fac, deco, cl = roles.closures[kind]
        groups = {}
        for n, s in d2.exits:
            ek = rm.exit_kind(n)
            if ek.startswith('raise:') and ek[6:] in base_atoms:
                continue        # interrupt-style termination: the recording is flagged incomplete instead (C18)
            # only paths on which interception was due: recording enabled and not nested in another interception
            if not rm.interception_due(d2, s):
                continue
            body = sum(d2.n(s, lab) for lab in body_label(d2))
            a = d2.field(s, roles.active)
            dead = a is not None and a.kind == 'none'
            if body == 0:
                # the interception was not executed: fine unless a step of the capture itself failed (an exception that is not the
                # body's own leaves the decorator) while the recording stays alive - that recording misses this call and is saved
                src = str(s.extra.get('exc_src', ''))
                if ek.startswith('raise:') and src and not src.startswith(('user-body:', 'raise ')) and not dead:
                    gf = groups.setdefault(ek + ' (capture step failed)', dict(ok=True, states=0, bad=None))
                    gf['states'] += 1
                    if gf['ok']:
                        gf['ok'] = False
                        gf['bad'] = (n, s, 0)
                continue
            stores = d2.n(s, 'store:active-recording')
            ok = dead or stores >= expected
            g = groups.setdefault(ek, dict(ok=True, states=0, bad=None))
            g['states'] += 1
            if not ok and g['ok']:
                g['ok'] = False
                g['bad'] = (n, s, stores)
        for ek, g in sorted(groups.items()):
            cc.instance('%s interception, exit=%s: stores>=%d or recording discarded' % (kind, ek, expected), cl.qualname,
                        g['ok'], detail='%d abstract states' % g['states'])
            if not g['ok']:
                n, s, stores = g['bad']
                res.add(Finding('C05', 'C05.c', 'R-MUSTPASS', cl.file, cl.qualname, cl.node.lineno,
                                '%s interception exit=%s stores=%d expected=%d recording still active' % (kind, ek, stores, expected),
                                'an interception executed while recording left the decorator without its data captured '
                                '(%d of %d entries) and without discarding the recording: an incomplete recording would be '
                                'saved unflagged' % (stores, expected),
                                witness=d2.path_to(n, s), entry=cl.qualname, exit=ek))
    _ci.import_clauses(ctx, res, 'C03', ['C03.k'], 'C05', 'C05.n', 'R-DOM', 'ordinals are drawn for captured output calls only (recording and replay count alike)', floor=1)
    return res


def recmodel_base_atoms(ctx):
    return set(rm.recorder_excm(ctx).base_only)


