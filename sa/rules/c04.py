"""C04 - Recording is transparent to the recorded service.

For each decorator closure, from the idle valuation (recording disabled or no scope: pass-through) and from the
recording valuation, on every path - the wrapped body returning, raising any kind, or calling discard / force /
enable / disable any number of times; plug-ins, serializer and storage raising ordinary exceptions:

  C04.b  R-TYPESTATE  the wrapped function is called exactly once, with the decorator's own *args / **kwargs
  C04.c  R-PROV       the value returned to the caller is the wrapped call's result object
  C04.d/e R-CONTAIN   the only exception that can leave the decorator is the one the wrapped body raised (re-raised
                      as is); every tolerated fault of the recording machinery is contained
  C04.f  R-NULLABLE   no dereference of the active recording / its parameters where they may be None
  C04.a  R-DOM        with no scope open the decorators touch neither the cassette nor the recorder state
  C04.g  R-ASSERT     no assert of the recorder can fail on these paths (covered by C04.d: an assertion failure would be an
                      exception that is not the body's)
"""
import ast

from ..report import Result, Finding
from ..loader import norm, AnalysisError, walk_own
from . import recmodel as rm


def body_calls(dom, s):
    return sum(v for k, v in s.extra.items() if isinstance(k, tuple) and k[0] == 'n' and k[1].startswith('user-body:'))


def run(ctx):
    res = Result('C04')
    roles = ctx.roles
    res.explanation = (
        'Decides transparency as path properties of the three decorator closures with every helper of the recorder '
        'inlined (executor, interception context manager, record helpers, discard, start_recording): exactly one '
        'call of the wrapped function with unmodified arguments, the returned value is that call\'s result, the only '
        'escaping exception is the wrapped body\'s own (so every fault of key building, data handlers, copying, '
        'metadata extraction and saving is contained), and no nullable per-run field is dereferenced after a point '
        'where the body may have discarded the recording. Not decided: thread interleavings (check-then-act windows), '
        'object identity beyond variable provenance.')
    res.not_decided = ['interleavings of worker threads (a discard between a guard and a dereference on another thread)',
                       'object identity beyond "returned value is the wrapped call\'s result value"']
    res.assumptions = ['raise policy of DESIGN 3.3: bodies raise any kind and may re-enter discard/force/enable/disable; '
                       'plug-ins, serializer, storage raise ordinary exceptions; logging / str.format / container '
                       'operations on framework-owned values do not raise']
    cb = res.clause('C04.b', 'R-TYPESTATE', 'wrapped function called exactly once with unmodified *args/**kwargs', floor=5)
    cc = res.clause('C04.c', 'R-PROV', 'returned value is the wrapped call\'s result', floor=5)
    cd = res.clause('C04.d', 'R-CONTAIN', 'only the wrapped body\'s own exception escapes (tolerated faults contained)', floor=5)
    cf = res.clause('C04.f', 'R-NULLABLE', 'no dereference of a possibly-None per-run field', floor=5)
    ca = res.clause('C04.a', 'R-DOM', 'without an open scope the decorators do not touch cassette or recorder state', floor=3)
    runs = [('operation', 'idle'), ('input', 'idle'), ('input', 'recording'), ('output', 'idle'), ('output', 'recording')]
    for kind, variant in runs:
        fac, deco, cl = roles.closures[kind]
        dom = rm.run_closure(ctx, kind, variant)
        tag = '%s decorator (%s)' % (kind, variant)
        nb = {'ok': True}
        badb = badc = badd = None
        nret = nraise = 0
        for n, s in dom.exits:
            ek = rm.exit_kind(n)
            bc = body_calls(dom, s)
            if (bc != 1 or s.extra.get('body_args_modified')) and badb is None:
                badb = (n, s, bc)
            if ek == 'return':
                nret += 1
                rv = s.env.get(('RV', dom.g.root.id))
                if (rv is None or rv.name != s.extra.get('body_result')) and badc is None:
                    badc = (n, s, rv)
            else:
                nraise += 1
                src = s.extra.get('exc_src', '?')
                if not str(src).startswith('user-body:') and badd is None:
                    badd = (n, s, src)
        for c in (cb, cc, cd):
            c.evaluations += dom.visited_pairs
        cb.instance('%s: body calls == 1 on %d exits' % (tag, len(dom.exits)), cl.qualname, badb is None)
        cc.instance('%s: return value provenance on %d return exits' % (tag, nret), cl.qualname, badc is None)
        cd.instance('%s: exception provenance on %d raise exits' % (tag, nraise), cl.qualname, badd is None)
        if badb:
            n, s, bc = badb
            mod = s.extra.get('body_args_modified')
            res.add(Finding('C04', 'C04.b', 'R-TYPESTATE', cl.file, cl.qualname, cl.node.lineno,
                            '%s: wrapped function called %s%s' % (tag, '>=2 times' if bc >= 2 else '%d times' % bc,
                                                                 ' with modified arguments %s' % sorted(mod) if mod else ''),
                            'on some path the wrapped function is not called exactly once with the caller\'s arguments',
                            witness=dom.path_to(n, s), entry=cl.qualname, exit=rm.exit_kind(n)))
        if badc:
            n, s, rv = badc
            res.add(Finding('C04', 'C04.c', 'R-PROV', cl.file, cl.qualname, cl.node.lineno,
                            '%s: returned value is not the wrapped call\'s result' % tag,
                            'the decorator returns %s instead of the object the wrapped function returned' % (
                                (rv.kind + ':' + str(rv.name)) if rv is not None else 'nothing'),
                            witness=dom.path_to(n, s), entry=cl.qualname, exit='return'))
        if badd:
            n, s, src = badd
            res.add(Finding('C04', 'C04.d', 'R-CONTAIN', cl.file, cl.qualname, cl.node.lineno,
                            '%s: exception from %s escapes' % (tag, src),
                            'an exception that is not the wrapped body\'s own reaches the service (source: %s, kind %s)' % (
                                src, rm.exit_kind(n)),
                            witness=dom.path_to(n, s), entry=cl.qualname, exit=rm.exit_kind(n)))
        # nullable dereferences
        cf.evaluations += dom.visited_pairs
        cf.instance('%s: %d dereference sites of per-run fields examined' % (tag, len(dom.deref_sites)), cl.qualname,
                    not dom.derefs)
        for key, (node, st, expr) in sorted(dom.derefs.items(), key=lambda kv: kv[0][1]):
            res.add(Finding('C04', 'C04.f', 'R-NULLABLE', node.file, node.frame.func.qualname, node.line, ast.unparse(expr),
                            'per-run field may be None here (the wrapped body may have discarded the recording): '
                            'AttributeError / AssertionError would reach the service',
                            witness=dom.path_to(node, st) if (node.id, st.key()) in dom.pred else None, entry=cl.qualname))
        if variant == 'idle' and kind != 'operation':
            bad = None
            for n, s in dom.exits:
                touched = [k[1] for k, v in s.extra.items() if isinstance(k, tuple) and k[0] == 'n' and
                           (k[1].startswith('iface:') or k[1] in ('store:active-recording', 'counter-inc', 'outputs-append'))]
                if touched and bad is None:
                    bad = (n, s, touched)
            ca.evaluations += dom.visited_pairs
            ca.instance('%s: no cassette / recording / counter access' % tag, cl.qualname, bad is None)
            if bad:
                n, s, touched = bad
                res.add(Finding('C04', 'C04.a', 'R-DOM', cl.file, cl.qualname, cl.node.lineno,
                                '%s touches %s' % (tag, ','.join(sorted(touched))),
                                'with no recording or replay scope open the decorator must be pure pass-through',
                                witness=dom.path_to(n, s), entry=cl.qualname, exit=rm.exit_kind(n)))
    # ---- C04.h no lock of the recorder is held while user code runs (a body that waits for worker threads which call other
    #      interceptions would deadlock)
    chh = res.clause('C04.h', 'R-LOCKSET', 'no recorder lock held while a wrapped body / plug-in runs', floor=1)
    lock_fields = {f for (c, f), t in rm.RecorderPolicy(ctx.repo, rm.recorder_excm(ctx), roles).field_types.items()
                   if c == roles.cls.name and t[0] == 'lib' and t[1] in ('threading.Lock', 'threading.RLock', 'threading.Condition', 'threading.Semaphore')}
    held_sites = []
    for m in roles.cls.methods.values():
        for w in [n for n in ast.walk(m.node) if isinstance(n, ast.With)]:
            for it in w.items:
                e = it.context_expr
                fld = e.attr if isinstance(e, ast.Attribute) and isinstance(e.value, ast.Name) and e.value.id == 'self' else None
                if fld in lock_fields:
                    # any call inside that is not a call on the lock itself / logging
                    for x in ast.walk(w):
                        if isinstance(x, ast.Call) and isinstance(x.func, ast.Name) and x.func.id in m.all_param_names:
                            held_sites.append((m, x, fld))
                        if isinstance(x, ast.Call) and isinstance(x.func, ast.Attribute) and isinstance(x.func.value, ast.Name) and x.func.value.id == 'self' and \
                                roles.cls.lookup(x.func.attr) is not None and roles.calls_wrapped(roles.cls.lookup(x.func.attr)) is not None and \
                                any(isinstance(a, ast.Name) and a.id in m.all_param_names for a in x.args):
                            held_sites.append((m, x, fld))
                        if isinstance(x, ast.With) and x is not w:
                            for it2 in x.items:
                                c2 = it2.context_expr
                                if isinstance(c2, ast.Call) and isinstance(c2.func, ast.Attribute) and roles.cls.lookup(c2.func.attr) is roles.interception_cm:
                                    held_sites.append((m, c2, fld))
    chh.instance('%d lock field(s) on the recorder; no wrapped function is called inside a `with <lock>` region' % len(lock_fields), roles.cls.name, not held_sites)
    chh.evaluations += 1
    for m, x, fld in held_sites[:2]:
        res.add(Finding('C04', 'C04.h', 'R-LOCKSET', m.file, m.qualname, x.lineno, 'call of %s under self.%s' % (ast.unparse(x)[:60], fld),
                        'the wrapped function runs while the recorder-wide lock %s is held: a body that fans out to worker threads which call other '
                        'interceptions (or discard) waits for them for ever' % fld))
    # operation decorator with recording disabled: pass-through (subset of the idle run: paths on which E is false)
    dom = rm.run_closure(ctx, 'operation', 'idle')
    fac, deco, cl = roles.closures['operation']
    bad = None
    cnt = 0
    for n, s in dom.exits:
        e, i = rm.initial_flags(dom, s)
        if e is False:
            cnt += 1
            touched = [k[1] for k, v in s.extra.items() if isinstance(k, tuple) and k[0] == 'n' and k[1].startswith('iface:')]
            if s.extra.get('argtouch'):
                touched.append('the call\'s own arguments (args[i] / kwargs[k] is evaluated)')
            if touched and bad is None:
                bad = (n, s, touched)
    ca.instance('operation decorator, recording disabled: no cassette access on %d exits' % cnt, cl.qualname, bad is None)
    if bad:
        n, s, touched = bad
        res.add(Finding('C04', 'C04.a', 'R-DOM', cl.file, cl.qualname, cl.node.lineno,
                        'operation decorator with recording disabled touches %s' % ','.join(sorted(touched)),
                        'with recording disabled the operation decorator must be a pure pass-through: it must neither touch the cassette nor '
                        'evaluate the call\'s arguments (a call without positional arguments would fail in the decorator instead of running)',
                        witness=dom.path_to(n, s), entry=cl.qualname, exit=rm.exit_kind(n)))
    # ---- C04.j a decorated property is called through the descriptor protocol (`prop.__get__`), which is what an attribute access does:
    # calling the raw getter (`fget`) bypasses a property subclass that overrides __get__ (compute-once / lazy properties)
    cj4 = res.clause('C04.j', 'R-AGREE', 'decorated properties are invoked through __get__ (the attribute-access protocol), not through fget', floor=1)
    unwraps = []
    for m_ in roles.cls.methods.values():
        for fn_ in [x for x in ast.walk(m_.node) if isinstance(x, ast.FunctionDef)]:
            tests_property = any(isinstance(x, ast.Call) and isinstance(x.func, ast.Name) and x.func.id == 'isinstance' and len(x.args) == 2 and
                                 isinstance(x.args[1], ast.Name) and x.args[1].id == 'property' for x in walk_own(fn_))
            if not tests_property:
                continue
            for n in walk_own(fn_):
                if isinstance(n, ast.Assign) and len(n.targets) == 1 and isinstance(n.targets[0], ast.Name) and isinstance(n.value, ast.Attribute) and \
                        isinstance(n.value.value, ast.Name) and n.value.value.id == n.targets[0].id:
                    unwraps.append((m_, n.value))
    badu = [(m_, a) for m_, a in unwraps if a.attr != '__get__']
    cj4.instance('%d property unwrap(s) in the decorators, all through __get__' % len(unwraps), roles.cls.name, bool(unwraps) and not badu)
    cj4.evaluations += len(unwraps)
    for m_, a in badu[:1]:
        res.add(Finding('C04', 'C04.j', 'R-AGREE', m_.file, m_.qualname, a.lineno, norm(a),
                        'a decorated property is invoked as `%s`: a property subclass that overrides __get__ (lazy / cached property) no longer gets to '
                        'act, so with the decorator in place the getter body runs on every access and hands out a different object than the undecorated '
                        'attribute would' % norm(a)))
    # ---- C04.i the user's own post-operation callback runs with the recording detached: a fault of the recorder inside it (a discard
    # triggered by a call the callback makes) cannot hit the recording that is being finished and surface in the operation
    rm.extractor_runs_idle_clause(ctx, res, 'C04', 'C04.i')
    from . import common as _r7
    _r7.import_clauses(ctx, res, 'C07', ['C07.h'], 'C04', 'C04.k', 'R-DECISION', 'a recorded None (a function that returned None, a result entry) is found again: presence is decided by the key', floor=1)
    return res
