"""C15 - S3 cassette writes are confined: read-only, own prefix, complete-before-visible.

  C15.a  R-WHOCALLS  only the facade touches boto; only the S3 cassette calls the facade's mutators
  C15.b  R-DOM       every path from a public cassette method to a bucket mutation has established read_only false
  C15.c  R-PROV      every mutated key is a class key template formatted with this cassette's own prefix; a non-empty
                     prefix is stored with its trailing delimiter; deletes use the templates with an empty id
  C15.d  R-DOM       deletes only under transient and not read_only
  C15.e  R-ORDER     save puts the full object before the discoverable (listed) metadata object, on every path
"""
import ast

from ..report import Result, Finding
from ..loader import walk_own, norm, AnalysisError
from ..resolve import RepoPolicy
from ..predeval import eval_pred, Undecidable
from .. import small

BOTO_MUTATORS = {'put_object', 'delete', 'delete_object', 'delete_objects', 'copy_object', 'copy', 'copy_from', 'upload_file',
                 'upload_fileobj', 'put', 'create_bucket', 'delete_bucket', 'put_bucket_policy', 'restore_object'}


def self_attr(e):
    if isinstance(e, ast.Attribute) and isinstance(e.value, ast.Name) and e.value.id == 'self':
        return e.attr
    return None


class S3Policy(RepoPolicy):
    def user_role(self, owner, param):
        return 'plugin' if param == 'sampling_calculator' else None


class S3Domain(small.SmallDomain):
    def __init__(self, *a, **kw):
        self.mutators = kw.pop('mutators')
        small.SmallDomain.__init__(self, *a, **kw)
        self.events = []

    def track_fact(self, name):
        return isinstance(name, tuple) and name[:2] in (('field', 'self'),) or (isinstance(name, tuple) and name and name[0] in ('not',))

    def on_raise(self, node, target, state):
        if any(target.label.endswith('.' + m) for m in BOTO_MUTATORS):
            return state.with_extra(boto_failed=True)
        return state

    def on_call(self, node, t, args, state):
        if any(t.label.endswith('.' + m) for m in BOTO_MUTATORS) and state.extra.get('boto_failed'):
            state = state.with_extra(boto_failed=False)
        return small.SmallDomain.on_call(self, node, t, args, state)

    def on_stmt(self, node, state):
        if node.kind == 'enter' and node.info['callee'].func in self.mutators:
            callee = node.info['callee']
            ro = state.facts.get(('field', 'self', 'read_only'), (None, None))[1]
            tr = state.facts.get(('field', 'self', 'transient'), (None, None))[1]
            key_expr = None
            b = callee.binding.get(callee.func.params[1]) if len(callee.func.params) > 1 else None
            if b is not None and b[0] == 'expr':
                key_expr = b[1]
            self.events.append(dict(node=node, state=state, func=callee.func, read_only=ro, transient=tr, key=key_expr,
                                    frame=node.frame))
            seq = state.extra.get('muts', ())
            if len(seq) >= 3:
                return state         # saturate: longer sequences (mutations in a loop) add nothing to the order rule
            return state.with_extra(muts=seq + ((callee.func.name, norm(key_expr) if key_expr is not None else '?'),))
        return state


def run(ctx):
    res = Result('C15')
    repo = ctx.repo
    res.explanation = (
        'Decides confinement of the S3 cassette structurally: the set of bucket mutators is computed from the facade (boto '
        'calls that write or delete), their call sites are enumerated over the whole package, every public method of the '
        'cassette (own and inherited) is propagated with the facade inlined and read_only / transient as free atoms - at each '
        'mutation the path must have established read_only false (and transient true for deletes) - the mutated keys are '
        'traced to the class key templates formatted with the cassette\'s own prefix, the prefix normalisation in __init__ is '
        'evaluated on sample prefixes, and the order of the two puts of a save is compared with the template the listing uses. '
        'Not decided: boto\'s per-object atomicity; python -O stripping the assert that implements the guard.')
    res.not_decided = ['atomicity of a single put_object in boto', 'python -O (asserts stripped)']
    res.assumptions = ['read_only / transient / key_prefix are only assigned in __init__ (checked)']
    ca = res.clause('C15.a', 'R-WHOCALLS', 'only the facade touches boto; only the S3 cassette calls facade mutators', floor=3)
    cb = res.clause('C15.b', 'R-DOM', 'read_only false established before every bucket mutation', floor=4)
    cc = res.clause('C15.c', 'R-PROV', 'mutated keys are own-prefix class templates; prefix stored with trailing delimiter', floor=5)
    cd = res.clause('C15.d', 'R-DOM', 'deletes only under transient and not read_only', floor=2)
    ce = res.clause('C15.e', 'R-ORDER', 'full object put before the discoverable metadata object', floor=2)
    cas = repo.cls('S3TapeCassette')
    fac = repo.cls('S3BasicFacade')
    # ---- facade mutators (computed)
    mutators = []
    for m in fac.methods.values():
        for n in ast.walk(m.node):
            if isinstance(n, ast.Call) and isinstance(n.func, ast.Attribute) and n.func.attr in BOTO_MUTATORS:
                if m not in mutators:
                    mutators.append(m)
    if len(mutators) < 2:
        raise AnalysisError('anchor-lost role=facade bucket mutators (found %s)' % [m.name for m in mutators])
    mut_names = {m.name for m in mutators}
    # boto only in the facade module
    boto_users = [m for m in repo.modules.values() if any(v.split('.')[0] in ('boto3', 'botocore', 'boto') for v in m.imports.values())]
    okb = all(m is fac.module for m in boto_users) and boto_users
    ca.instance('boto imported only by the facade module', fac.module.relpath, okb, detail=str([m.relpath for m in boto_users]))
    if not okb:
        for m in boto_users:
            if m is not fac.module:
                res.add(Finding('C15', 'C15.a', 'R-WHOCALLS', m.relpath, '<module>', 1, 'import boto3',
                                'a module other than the facade talks to boto directly: bucket writes would bypass the read-only guard'))
    # call sites of facade mutators / direct boto mutators anywhere
    sites = []
    for f in repo.all_functions():
        if f.parent is not None:
            continue
        for n in ast.walk(f.node):
            if isinstance(n, ast.Call) and isinstance(n.func, ast.Attribute):
                if n.func.attr in mut_names and f.cls is not fac:
                    sites.append((f, n))
            # passing a mutator as a value (executor.submit(self._s3_facade.put_string, ...))
            if isinstance(n, ast.Call):
                for a in list(n.args) + [k.value for k in n.keywords]:
                    if isinstance(a, ast.Attribute) and a.attr in mut_names and f.cls is not fac:
                        sites.append((f, n))
    bad_sites = [(f, n) for f, n in sites if f.cls is not cas]
    ca.instance('%d facade mutator call sites, all in %s' % (len(sites), cas.name), cas.module.relpath, not bad_sites and len(sites) >= 4)
    ca.evaluations += len(sites)
    for f, n in bad_sites:
        res.add(Finding('C15', 'C15.a', 'R-WHOCALLS', f.file, f.qualname, n.lineno, norm(n),
                        'a bucket mutator of the facade is called outside the S3 cassette'))
    indirect = [(f, n) for f, n in sites if not (isinstance(n.func, ast.Attribute) and n.func.attr in mut_names)]
    ca.instance('facade mutators are called directly (not handed to another executor)', cas.module.relpath, not indirect)
    for f, n in indirect:
        res.add(Finding('C15', 'C15.a', 'R-WHOCALLS', f.file, f.qualname, n.lineno, norm(n),
                        'a bucket mutator is passed as a value to be called elsewhere: ordering and guard dominance are lost'))
    # config fields assigned only in __init__
    for fld in ('read_only', 'transient', 'key_prefix'):
        writers = [m for m in cas.methods.values() if m.name != '__init__' and any(
            isinstance(n, (ast.Assign, ast.AugAssign)) and any(self_attr(t) == fld for t in (n.targets if isinstance(n, ast.Assign) else [n.target]))
            for n in ast.walk(m.node))]
        ca.instance('self.%s assigned only in __init__' % fld, cas.name, not writers)
        for m in writers:
            res.add(Finding('C15', 'C15.a', 'R-WHOCALLS', m.file, m.qualname, m.node.lineno, 'self.%s' % fld,
                            'configuration field %s is re-assigned outside __init__' % fld))

    # ---- propagate every public method (own + inherited)
    excm = ctx.excm(['playback.tape_cassettes.s3.s3_tape_cassette', 'playback.tape_cassettes.s3.s3_basic_facade', 'playback.tape_cassette'])
    pol = S3Policy(repo, excm)
    publics = {}
    for c in reversed(cas.mro()):
        for nm, m in c.methods.items():
            if nm.startswith('_') and nm not in ('__exit__', '__enter__'):
                continue
            if m.is_abstract or nm == '__init__':
                continue
            publics[nm] = m
    # generators are roots too (iter_recording_ids ...)
    events = []
    reached = {}
    for nm, m in sorted(publics.items()):
        dom = small.analyse(repo, excm, m, policy=pol, self_cls=cas, domain=S3Domain, mutators=mutators)
        cb.evaluations += dom.visited_pairs
        for ev in dom.events:
            ev['root'] = m
            ev['dom'] = dom
            events.append(ev)
        reached[nm] = len(dom.events)
    by_site = {}
    for ev in events:
        k = (ev['root'].name, ev['func'].name, ev['node'].line)
        e = by_site.setdefault(k, dict(ok_ro=True, ok_tr=True, n=0, bad=None, ev=ev))
        e['n'] += 1
        if ev['read_only'] is not False and e['ok_ro']:
            e['ok_ro'] = False
            e['bad'] = ev
        if ev['func'].name.startswith('delete') and ev['transient'] is not True and e['ok_tr']:
            e['ok_tr'] = False
            e['bad_tr'] = ev
    if not by_site:
        raise AnalysisError('no bucket mutation reachable from any public method: anchors lost')
    for k, e in sorted(by_site.items()):
        ev = e['ev']
        cb.instance('%s -> %s at line %s: read_only known false' % k, ev['node'].where(), e['ok_ro'], detail='%d states' % e['n'])
        if not e['ok_ro']:
            b = e['bad']
            res.add(Finding('C15', 'C15.b', 'R-DOM', b['node'].file, b['node'].frame.func.qualname, b['node'].line, ast.unparse(b['node'].ast),
                            'bucket mutation reachable from public method %s on a path that never established read_only is false: a '
                            'read-only cassette would write / delete' % k[0],
                            witness=b['dom'].path_to(b['node'], b['state']) if (b['node'].id, b['state'].key()) in b['dom'].pred else None,
                            entry=ev['root'].qualname))
        if ev['func'].name.startswith('delete'):
            cd.instance('%s -> %s at line %s: transient known true and read_only known false' % k, ev['node'].where(),
                        e['ok_tr'] and e['ok_ro'], detail='%d states' % e['n'])
            cd.evaluations += e['n']
            if not e['ok_tr']:
                b = e['bad_tr']
                res.add(Finding('C15', 'C15.d', 'R-DOM', b['node'].file, b['node'].frame.func.qualname, b['node'].line, ast.unparse(b['node'].ast),
                                'delete reachable from %s on a path that never established transient is true' % k[0],
                                witness=b['dom'].path_to(b['node'], b['state']) if (b['node'].id, b['state'].key()) in b['dom'].pred else None))
    cb.instance('public methods analysed: %s' % ', '.join('%s(%d)' % kv for kv in sorted(reached.items())), cas.name, True, nontrivial=False)

    # ---- C15.c key provenance
    templates = {k: v.value for k, v in cas.consts.items() if isinstance(v, ast.Constant) and isinstance(v.value, str) and '{key_prefix}' in v.value}
    if len(templates) < 2:
        raise AnalysisError('anchor-lost role=key templates with {key_prefix}')
    seen_keys = {}
    for ev in events:
        fr = ev['frame']
        fn = fr.func
        ke = ev['key']
        tname, okp, idv = resolve_key_frame(fr, ke)
        k = (fn.qualname, ev['func'].name, norm(ke) if ke is not None else '?')
        seen_keys[k] = (tname, okp, idv, ev)
    for k, (tname, okp, idv, ev) in sorted(seen_keys.items()):
        is_del = ev['func'].name.startswith('delete')
        ok = tname in templates and okp and (not is_del or idv == '')
        cc.instance('%s: key `%s` = %s.format(key_prefix=self.key_prefix, id=%s)' % (k[0], k[2], tname, idv if idv is not None else '<id>'),
                    ev['node'].where(), ok)
        cc.evaluations += 1
        if not ok:
            res.add(Finding('C15', 'C15.c', 'R-PROV', ev['node'].file, k[0], ev['node'].line, ast.unparse(ev['node'].ast),
                            'the key handed to the bucket mutator %s is not a class key template formatted with this cassette\'s own '
                            'prefix%s: the mutation is not confined to the cassette\'s own keys' % (
                                ev['func'].name, ' and an empty id' if is_del else '')))
    # template shape: fixed segment between {key_prefix} and {id}
    for tn, tv in sorted(templates.items()):
        i, j = tv.find('{key_prefix}'), tv.find('{id}')
        mid = tv[i + len('{key_prefix}'):j] if i >= 0 and j > i else ''
        ok = bool(mid) and mid.endswith('/') and i > 0
        cc.instance('template %s = %r has a fixed segment between prefix and id' % (tn, tv), cas.name, ok)
        if not ok:
            res.add(Finding('C15', 'C15.c', 'R-PROV', cas.module.relpath, cas.name, cas.node.lineno, '%s = %r' % (tn, tv),
                            'key template lacks a fixed, delimiter-terminated segment between {key_prefix} and {id}'))
    # prefix normalisation in __init__
    init = cas.methods['__init__']
    asg = [n for n in walk_own(init.node) if isinstance(n, ast.Assign) and self_attr(n.targets[0]) == 'key_prefix']
    if len(asg) != 1:
        raise AnalysisError('anchor-lost role=key_prefix assignment')
    okn = True
    why = norm(asg[0].value)
    try:
        for p in ('', 'a', 'team', 'team/sub', 'x/'):
            v = eval_pred(asg[0].value, {'key_prefix': p}, init.module)
            if not (v == '' and p == '' or (v.endswith('/') and v.startswith(p.rstrip('/')) and p != '')):
                okn = False
                why = 'key_prefix=%r stored as %r' % (p, v)
    except Undecidable as u:
        raise AnalysisError('key_prefix normalisation uses a construct the evaluator does not model: %s' % u)
    cc.instance('non-empty prefix stored with trailing delimiter (5 sample prefixes)', init.qualname, okn, detail=why)
    if not okn:
        res.add(Finding('C15', 'C15.c', 'R-PROV', init.file, init.qualname, asg[0].lineno, norm(asg[0]),
                        'the key prefix is not stored with its trailing delimiter (%s): own-prefix strings of two cassettes could be '
                        'string prefixes of one another' % why))

    # ---- a failed bucket mutation leaves the facade as an exception (never swallowed: the caller must not go on to the next object)
    for m in mutators:
        dm = small.analyse(repo, excm, m, policy=pol, self_cls=fac, domain=S3Domain, mutators=[])
        ce.evaluations += dm.visited_pairs
        sw = [(n, s) for n, s in dm.exits if n.info['exit'] == 'return' and s.extra.get('boto_failed')]
        ce.instance('facade.%s: a failing boto mutation propagates (not swallowed)' % m.name, m.qualname, not sw)
        if sw:
            n, s = sw[0]
            res.add(Finding('C15', 'C15.e', 'R-ORDER', m.file, m.qualname, m.node.lineno, 'failed mutation swallowed',
                            'facade.%s can return normally after its boto mutation failed: save would go on and write the discoverable metadata object '
                            'although the full object is missing' % m.name, witness=dm.path_to(n, s)))
        unp = [n for n in ast.walk(m.node) if isinstance(n, ast.Call) and isinstance(n.func, ast.Attribute) and n.func.attr in ('list_objects', 'list_objects_v2')
               and not any(isinstance(l, (ast.While, ast.For)) and any(x is n for x in ast.walk(l)) for l in ast.walk(m.node))]
        cc.instance('facade.%s: objects to delete are enumerated completely (collection / paginator, no single-page listing)' % m.name, m.qualname, not unp)
        for n in unp:
            res.add(Finding('C15', 'C15.c', 'R-PROV', m.file, m.qualname, n.lineno, norm(n)[:100],
                            'a single %s call returns at most one page (1000 keys): a transient cassette with more recordings is not emptied on close' % n.func.attr))

    # ---- C15.e order in save, vs the template the listing uses
    listing_t = set()
    for m in cas.methods.values():
        for n in ast.walk(m.node):
            if isinstance(n, ast.Call) and isinstance(n.func, ast.Attribute) and n.func.attr == 'iter_keys':
                for k in n.keywords:
                    if k.arg == 'prefix':
                        t, okp, idv = resolve_key(m, k.value)
                        listing_t.add(t)
    if len(listing_t) != 1:
        raise AnalysisError('anchor-lost role=listing template (found %s)' % listing_t)
    disc = listing_t.pop()
    save = cas.lookup('_save_recording')
    dsave = small.analyse(repo, excm, save, policy=pol, self_cls=cas, domain=S3Domain, mutators=mutators)
    ce.evaluations += dsave.visited_pairs
    seqs = {}
    for n, s in dsave.exits:
        seq = tuple(resolve_key(save, parse_expr(k))[0] for f, k in s.extra.get('muts', ()))
        seqs.setdefault((n.info['exit'] == 'return', seq), (n, s))
    others = sorted(t for t in templates if t != disc)
    bad = None
    full_done = False
    for (is_ret, seq), (n, s) in seqs.items():
        if disc in seq:
            i = seq.index(disc)
            if not any(t in others for t in seq[:i]):
                bad = bad or (n, s, seq)
        if is_ret and seq and seq != tuple(others + [disc])[:len(seq)] and len(seq) != 0:
            pass
        if is_ret and len(seq) == len(templates):
            full_done = True
    ce.instance('save: the listed template %s is put only after %s on every path' % (disc, others), save.qualname, bad is None,
                detail='sequences: %s' % sorted({k[1] for k in seqs}))
    partial = [(n, s, seq) for (is_ret, seq), (n, s) in seqs.items() if is_ret and 0 < len(seq) < len(templates)]
    ce.instance('save: a normal completion that samples the recording writes both objects', save.qualname, full_done)
    ce.instance('save: no returning path writes the full object without the listed object', save.qualname, not partial)
    if partial:
        n, s, seq = partial[0]
        res.add(Finding('C15', 'C15.e', 'R-ORDER', save.file, save.qualname, save.node.lineno, 'returning path with puts %s only' % (seq,),
                        'save can return after writing %s without writing the object that lookup lists (%s): the recording is stored but can never be '
                        'discovered' % (list(seq), disc), witness=dsave.path_to(n, s)))
    if bad:
        n, s, seq = bad
        res.add(Finding('C15', 'C15.e', 'R-ORDER', save.file, save.qualname, save.node.lineno, 'put order %s' % (seq,),
                        'the discoverable object (%s, the template lookup lists) can be written before the full object: a crash or '
                        'lookup in between finds a recording that cannot be fetched' % disc, witness=dsave.path_to(n, s)))
    if not full_done:
        res.add(Finding('C15', 'C15.e', 'R-ORDER', save.file, save.qualname, save.node.lineno, 'save writes both objects',
                        'no normal path of save performs both puts directly and in order (full object, then %s)' % disc))
    # ---- C15.c (facade) the key / prefix the cassette computed is the one the bucket is asked to act on: the facade does not rewrite it
    fac_ = repo.find_class('S3BasicFacade')
    if fac_ is None:
        raise AnalysisError('anchor-lost class=S3BasicFacade')
    for mname, pname, kw in (('delete_by_prefix', 'prefix', 'Prefix'), ('put_string', 'key', 'Key'), ('get_string', 'key', 'Key'), ('iter_keys', 'prefix', 'Prefix')):
        fm = fac_.lookup(mname)
        if fm is None or pname not in fm.params:
            raise AnalysisError('anchor-lost facade method %s(%s)' % (mname, pname))
        rebinds = [n for n in walk_own(fm.node) if isinstance(n, (ast.Assign, ast.AugAssign)) and any(
            isinstance(t, ast.Name) and t.id == pname for t in (n.targets if isinstance(n, ast.Assign) else [n.target]))]
        uses = [k for n in ast.walk(fm.node) if isinstance(n, (ast.Call, ast.Dict)) for k in (
            n.keywords if isinstance(n, ast.Call) else [ast.keyword(arg=kk.value if isinstance(kk, ast.Constant) else None, value=vv)
                                                        for kk, vv in zip(n.keys, n.values) if kk is not None]) if k.arg == kw]
        as_given = bool(uses) and all(isinstance(k.value, ast.Name) and k.value.id == pname for k in uses)
        okf_ = as_given and not rebinds
        cc.instance('facade %s: `%s` handed to the bucket as given' % (mname, pname), fm.qualname, okf_)
        cc.evaluations += 1
        if not okf_:
            n0 = rebinds[0] if rebinds else (uses[0].value if uses else fm.node)
            res.add(Finding('C15', 'C15.c', 'R-PROV', fm.file, fm.qualname, getattr(n0, 'lineno', fm.node.lineno), norm(n0)[:100],
                            'the facade changes the %s it was given before acting on the bucket (`%s`): the cassette\'s confinement to its own keys '
                            '(fixed, delimiter-terminated prefix) no longer holds for what is actually listed / deleted / written' % (pname, norm(n0)[:80])))
    # ---- C15.h closing a writable transient cassette always cleans up: the two switches are the only conditions
    from .. import paths as _paths
    # ---- C15.i what the cassette asks of the bucket happens: a call whose callee is a generator function does nothing until it is consumed
    from . import common as _cm15
    ci15 = res.clause('C15.i', 'R-MUSTPASS', 'bucket operations requested by the S3 cassette are executed, not left as unconsumed generators', floor=1)
    lazy = [x for x in _cm15.discarded_lazy_calls(ctx) if x[0].cls is not None and x[0].cls.name in ('S3TapeCassette', 'S3BasicFacade')]
    ci15.instance('no statement of the S3 cassette / facade calls a generator function and drops the result', 'S3TapeCassette', not lazy)
    ci15.evaluations += 1
    for f_, n_, callee in lazy[:2]:
        res.add(Finding('C15', 'C15.i', 'R-MUSTPASS', f_.file, f_.qualname, n_.lineno, norm(n_)[:100],
                        '`%s` calls the generator function %s and drops the result: none of its body runs, so the deletion / write it stands for '
                        'never happens (e.g. the metadata objects of a transient cassette survive close())' % (norm(n_)[:70], callee)))
    _cm15.complete_listing_clause(ctx, res, 'C15', 'C15.j', floor=2)
    _cm15.exit_never_swallows_clause(ctx, res, 'C15', 'C15.k', floor=1)
    ch = res.clause('C15.h', 'R-DECISION', 'close(): the clean-up depends on read_only / transient only, and removes both key families', floor=1)
    close_m = cas.lookup('close')
    if close_m is None:
        raise AnalysisError('anchor-lost method=S3TapeCassette.close')
    dels = _paths.paths_to(close_m.node.body, lambda x: isinstance(x, ast.Call) and isinstance(x.func, ast.Attribute) and x.func.attr == 'delete_by_prefix')
    extra_c = []
    for st_, conds in dels:
        for t_, p_ in conds:
            flds = {n.attr for n in ast.walk(t_) if isinstance(n, ast.Attribute) and isinstance(n.value, ast.Name) and n.value.id == 'self'}
            others = {x.id for x in ast.walk(t_) if isinstance(x, ast.Name)} - {'self'}
            if (flds - {'read_only', 'transient'}) or others or not flds:
                extra_c.append((st_, t_, p_))
    ch.instance('clean-up of close() guarded by the read_only / transient switches only (%d delete paths)' % len(dels), close_m.qualname,
                len({id(s_) for s_, c_ in dels}) >= 2 and not extra_c)
    ch.evaluations += len(dels)
    if extra_c or len({id(s_) for s_, c_ in dels}) < 2:
        st_, t_, p_ = extra_c[0] if extra_c else (None, None, None)
        res.add(Finding('C15', 'C15.h', 'R-DECISION', close_m.file, close_m.qualname, t_.lineno if t_ is not None else close_m.node.lineno,
                        norm(t_)[:100] if t_ is not None else 'clean-up of close()',
                        'closing a writable transient cassette does not always remove its recordings: %s' % (
                            'the clean-up also depends on `%s%s`, so objects written through another cassette object on the same prefix (or by a '
                            'save that failed half-way) are left in the bucket' % ('' if p_ else 'not ', norm(t_)) if t_ is not None else
                            'fewer than the two key families are deleted')))
    # ---- C15.f the read-only / transient switches are stored as given
    from . import common
    cf2 = res.clause('C15.g', 'R-PROV', 'read_only and transient are stored as the caller gave them', floor=2)
    common.ctor_params_clause(ctx, res, cf2, 'C15', 'C15.g', 'S3TapeCassette', params=['read_only', 'transient'])
    return res


def parse_expr(text):
    try:
        return ast.parse(text, mode='eval').body
    except SyntaxError:
        return None


def resolve_key_frame(frame, e, depth=0):
    """like resolve_key, following a key that arrives through a parameter into the (inlined) caller"""
    t = resolve_key(frame.func, e)
    if t[0] is None and isinstance(e, ast.Name) and depth < 4 and e.id in frame.func.all_param_names:
        b = frame.binding.get(e.id)
        if b is not None and b[0] == 'expr' and b[2] is not None:
            return resolve_key_frame(b[2], b[1], depth + 1)
    return t


def resolve_key(fn, e, depth=0):
    """(template const name, formatted with key_prefix=self.key_prefix?, literal id or None)"""
    node = fn.node if hasattr(fn, 'node') else fn
    if e is None:
        return None, False, None
    if isinstance(e, ast.Name) and depth < 3:
        assigns = [n for n in walk_own(node) if isinstance(n, ast.Assign) and any(isinstance(t, ast.Name) and t.id == e.id for t in n.targets)]
        if len(assigns) == 1:
            return resolve_key(fn, assigns[0].value, depth + 1)
        return None, False, None
    if isinstance(e, ast.Call) and isinstance(e.func, ast.Attribute) and e.func.attr == 'format':
        t = self_attr(e.func.value)
        kw = {k.arg: k.value for k in e.keywords}
        okp = 'key_prefix' in kw and self_attr(kw['key_prefix']) == 'key_prefix'
        idv = kw.get('id')
        lit = idv.value if isinstance(idv, ast.Constant) else None
        return t, okp, lit
    return None, False, None


def save_completeness(ctx, res, clause, prop, cid):
    """no returning path of S3 save writes the full object without the object that lookup lists"""
    repo = ctx.repo
    cas = repo.cls('S3TapeCassette')
    fac = repo.cls('S3BasicFacade')
    mutators = [m for m in fac.methods.values() if any(isinstance(n, ast.Call) and isinstance(n.func, ast.Attribute) and n.func.attr in BOTO_MUTATORS
                                                       for n in ast.walk(m.node))]
    excm = ctx.excm(['playback.tape_cassettes.s3.s3_tape_cassette', 'playback.tape_cassettes.s3.s3_basic_facade', 'playback.tape_cassette'])
    save = cas.lookup('_save_recording')
    templates = {k for k, v in cas.consts.items() if isinstance(v, ast.Constant) and isinstance(v.value, str) and '{key_prefix}' in v.value}
    d = small.analyse(repo, excm, save, policy=S3Policy(repo, excm), self_cls=cas, domain=S3Domain, mutators=mutators)
    clause.evaluations += d.visited_pairs
    partial = None
    seqs = set()
    for n, s in d.exits:
        seq = tuple(resolve_key(save, parse_expr(k))[0] for f, k in s.extra.get('muts', ()))
        seqs.add((n.info['exit'] == 'return', seq))
        if n.info['exit'] == 'return' and 0 < len(seq) < len(templates):
            partial = partial or (n, s, seq)
    clause.instance('S3 save: returning paths write %s' % sorted({q for r, q in seqs if r}), save.qualname, partial is None)
    if partial:
        n, s, seq = partial
        res.add(Finding(prop, cid, 'R-ORDER', save.file, save.qualname, save.node.lineno, 'returning path with puts %s only' % (seq,),
                        'save can return after writing %s only: the recording is stored but the object that the (time-window) lookup lists is missing, so it is '
                        'never found' % list(seq), witness=d.path_to(n, s)))
