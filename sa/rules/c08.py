"""C08 - Every recording gets exactly one, correctly attributed verdict.

  C08.a  R-TYPESTATE  run_comparison: exactly one yield per recording id on every path of an iteration (failures included)
  C08.b  R-PROV       both Comparison constructions are labelled with the loop's id; verdict / playback / results derive from
                      this iteration's worker call, not from state kept on the equalizer
  C08.c  R-CONTAIN    _play_and_compare_recording contains every ordinary failure and returns a failure result for this id; the
                      worker loop answers a failing task and keeps serving
  C08.d  R-WHOCALLS   in-process execution and the worker target reach the same play-and-compare routine
  C08.e  R-AGREE      channel correlation: fresh queues for every new worker (or id-tagged messages checked by the parent)
"""
import ast

from ..report import Result, Finding
from ..loader import walk_own, norm, AnalysisError
from .. import small
from . import eqmodel as em
from .eqmodel import self_attr


def run(ctx):
    res = Result('C08')
    repo = ctx.repo
    eq = em.equalizer(repo)
    res.explanation = (
        'Decides attribution and containment structurally: run_comparison is propagated as a generator (yield = return to the '
        'consumer or GeneratorExit) counting yields per loop iteration on every path; the provenance of every Comparison argument is '
        'traced within the iteration; the play-and-compare routine and the worker loop are checked for exceptional exits; both '
        'execution modes must reach the one routine; and the parent/worker channel must be correlated (fresh queues per worker or '
        'tagged messages). Not decided: which schedules occur; picklability of verdict payloads across processes.')
    res.not_decided = ['the schedules themselves (whether a late answer occurs)', 'equality of verdicts across processes for unpicklable payloads']
    res.assumptions = ['player / extractors / comparator raise ordinary exceptions; a consumer calling .throw() into the generator is outside the property']
    ca = res.clause('C08.a', 'R-TYPESTATE', 'exactly one yield per id on every path of an iteration', floor=3)
    cb = res.clause('C08.b', 'R-PROV', 'Comparison labelled with the loop id; payload from this iteration only', floor=2)
    cc = res.clause('C08.c', 'R-CONTAIN', 'per-recording containment (routine and worker loop)', floor=3)
    cd = res.clause('C08.d', 'R-WHOCALLS', 'both modes reach the same play-and-compare routine', floor=1)
    ce = res.clause('C08.e', 'R-AGREE', 'parent/worker channel correlated', floor=1)
    # ---- C08.o each run has its own worker channel and signals: nothing the Equalizer uses through `self` is one object shared by all
    # instances (a terminate event / queue bound at class level ends or feeds the workers of other runs)
    from . import common as _cm8c
    co8 = res.clause('C08.o', 'R-TYPESTATE', 'events / queues / counters of a run are per instance, not class-level objects', floor=1)
    shared8 = _cm8c.shared_class_objects(eq)
    co8.instance('no class-level event / queue / container is used as per-run state', eq.name, not shared8)
    co8.evaluations += 1
    for st_, nm_ in shared8[:1]:
        res.add(Finding('C08', 'C08.o', 'R-TYPESTATE', eq.module.relpath, eq.name, st_.lineno, norm(st_)[:100],
                        '`%s` is one object shared by every %s: when one run ends (or starts) it signals / clears it for all the others - a worker of a run '
                        'that is still going on exits, and its next recording gets a "process died" failure although it is fine' % (nm_, eq.name)))
    excm = ctx.excm(em.EQ_SCOPE)
    pol = em.EqPolicy(repo, excm)
    er = em.EqRoles(repo)
    runc, pac = er.run, er.pac

    # ---------------- C08.a
    class NoInline(em.EqPolicy):
        def decide_inline(self, func, call, frame):
            return False

        def summary_target(self, fi, call, frame):
            from ..cfg import Target
            return Target('opaque', 'repo:' + fi.qualname, raises=self.excm.ordinary if not fi.is_static else frozenset(), role='summary', func=fi)
    d = small.analyse(repo, excm, runc, policy=NoInline(repo, excm), domain=em.EqDomain)
    ca.evaluations += d.visited_pairs
    ok = not d.iter_reports
    ca.instance('run_comparison: yields per iteration == 1 on every path (%d loop-head states)' % sum(1 for k in d.pred if True), runc.qualname, ok)
    if not ok:
        node, st, cnt = d.iter_reports[0]
        res.add(Finding('C08', 'C08.a', 'R-TYPESTATE', runc.file, runc.qualname, runc.node.lineno, 'iteration with %d yields' % cnt,
                        'an iteration over one recording id can end with %d comparisons yielded: every id must get exactly one verdict' % cnt,
                        witness=d.path_to(node, st)))

    ca.instance('no ordinary failure inside an iteration leaves the generator (everything after the worker call is covered too)', runc.qualname,
                not d.iter_escapes)
    if d.iter_escapes:
        node, st = d.iter_escapes[0]
        res.add(Finding('C08', 'C08.a', 'R-TYPESTATE', runc.file, runc.qualname, runc.node.lineno,
                        'exception from %s leaves the run inside an iteration' % st.extra.get('exc_src'),
                        'an ordinary exception raised while one recording is handled (%s) is not covered by the per-recording catch-all: the run aborts, that '
                        'recording gets no verdict and later recordings are never compared' % st.extra.get('exc_src'), witness=d.path_to(node, st)))
    ca.instance('closing the generator at a yield is not answered by another yield', runc.qualname, not d.yield_after_close)
    if d.yield_after_close:
        node, st = d.yield_after_close[0]
        res.add(Finding('C08', 'C08.a', 'R-TYPESTATE', runc.file, runc.qualname, node.line, 'yield after GeneratorExit',
                        'a handler of the run catches the GeneratorExit delivered when the consumer closes the generator and yields again: close() fails '
                        '(RuntimeError) and the clean-up that stops the worker does not run', witness=d.path_to(node, st)))
    # ---------------- C08.b
    loops = [n for n in walk_own(runc.node) if isinstance(n, ast.For)]
    main = None
    for l in loops:
        if any(self_attr(x) == 'recording_ids' for x in ast.walk(l.iter)):
            main = l
    if main is None:
        raise AnalysisError('anchor-lost role=loop over recording ids')
    # the run ends when the ids are exhausted (or the consumer closes it), never by its own decision: a `return` / `break` inside the loop
    # leaves every later id without a comparison
    def _own_exits(stmts, in_loop=False):
        for st_ in stmts:
            if isinstance(st_, (ast.FunctionDef, ast.AsyncFunctionDef, ast.ClassDef)):
                continue
            if isinstance(st_, ast.Return) or (isinstance(st_, ast.Break) and not in_loop):
                yield st_
            for fld in ('body', 'orelse', 'finalbody'):
                for y in _own_exits(getattr(st_, fld, []) or [], in_loop or isinstance(st_, (ast.For, ast.While))):
                    yield y
            for h_ in getattr(st_, 'handlers', []) or []:
                for y in _own_exits(h_.body, in_loop):
                    yield y
    early = list(_own_exits(main.body))
    ca.instance('the loop over the ids is left only when the ids are exhausted (no return / break inside)', runc.qualname, not early)
    for x in early[:1]:
        res.add(Finding('C08', 'C08.a', 'R-TYPESTATE', runc.file, runc.qualname, x.lineno, norm(x)[:60],
                        'the run over the recording ids can stop on its own (`%s` inside the loop): every id after that point gets no comparison at all' % norm(x)[:40]))
    # every handler around the per-recording work answers with a comparison (or lets the error go on to one that does): a handler that
    # only logs ends the iteration without a verdict for that id
    from .common import every_return_passes as _erp
    mute = []
    for t_ in [x for x in ast.walk(main) if isinstance(x, ast.Try)]:
        if not any(isinstance(y, (ast.Yield, ast.YieldFrom)) for y in ast.walk(t_)):
            continue        # a try around a step that is not the one producing the verdict
        for h_ in t_.handlers:
            fake = ast.FunctionDef(name='h', args=None, body=h_.body, decorator_list=[])
            okh_, at_ = _erp(fake, lambda x: isinstance(x, (ast.Yield, ast.YieldFrom)))
            if not okh_:
                mute.append((h_, at_))
    ca.instance('every handler around the per-recording work yields a comparison or re-raises', runc.qualname, not mute)
    for h_, at_ in mute[:1]:
        res.add(Finding('C08', 'C08.a', 'R-TYPESTATE', runc.file, runc.qualname, h_.lineno, 'except %s' % (norm(h_.type) if h_.type is not None else ''),
                        'the handler `except %s` inside the loop over the ids can end without yielding a comparison: the recording it was handling gets no '
                        'verdict (the consumer sees fewer comparisons than ids)' % (norm(h_.type) if h_.type is not None else '')))
    # whatever the equalizer itself catches while replaying / extracting / comparing is a framework failure: a handler that names another
    # status files the failure under "the code under test regressed" (or "equal")
    eq_cls = runc.cls
    wrong_status = [(m_, h_, x) for m_ in eq_cls.methods.values() for h_ in ast.walk(m_.node) if isinstance(h_, ast.ExceptHandler)
                    for x in ast.walk(h_) if isinstance(x, ast.Attribute) and isinstance(x.value, ast.Name) and x.value.id == 'EqualityStatus' and
                    x.attr != 'EqualizerFailure']
    ca.instance('handlers of the equalizer report EqualityStatus.EqualizerFailure only', eq_cls.name, not wrong_status)
    for m_, h_, x in wrong_status[:1]:
        res.add(Finding('C08', 'C08.a', 'R-TYPESTATE', m_.file, m_.qualname, x.lineno, norm(x),
                        'the handler `except %s` of %s answers with `%s`: a failure while replaying, extracting or comparing must become the '
                        'framework-failure verdict (EqualizerFailure), not a verdict about the replayed code' % (
                            norm(h_.type) if h_.type is not None else '', m_.qualname, norm(x))))
    idvar = None
    for x in ast.walk(main.target):
        if isinstance(x, ast.Name) and 'id' in x.id:
            idvar = x.id
    ctors = [n for n in ast.walk(main) if isinstance(n, ast.Call) and isinstance(n.func, ast.Name) and n.func.id == 'Comparison']
    if len(ctors) < 1:
        raise AnalysisError('anchor-lost: %d Comparison constructions' % len(ctors))
    cinit = repo.find_class('Comparison').lookup('__init__')
    pidx = cinit.params.index('recording_id') - 1
    written_fields = set()
    for m in eq.methods.values():
        if m.name == '__init__':
            continue
        for n in ast.walk(m.node):
            if isinstance(n, (ast.Assign, ast.AugAssign)):
                for t in (n.targets if isinstance(n, ast.Assign) else [n.target]):
                    if self_attr(t):
                        written_fields.add(self_attr(t))
    defs = {}
    for n in ast.walk(main):
        if isinstance(n, ast.Assign):
            for t in n.targets:
                for x in ast.walk(t):
                    if isinstance(x, ast.Name):
                        defs.setdefault(x.id, []).append(n.value)
    for c in ctors:
        lab = None
        if pidx < len(c.args):
            lab = c.args[pidx]
        for k in c.keywords:
            if k.arg == 'recording_id':
                lab = k.value
        okl = isinstance(lab, ast.Name) and lab.id == idvar
        cb.instance('Comparison(...) at line %d labelled with the loop variable `%s`' % (c.lineno, idvar), runc.qualname, okl)
        if not okl:
            res.add(Finding('C08', 'C08.b', 'R-PROV', runc.file, runc.qualname, c.lineno, norm(c)[:120],
                            'a comparison is labelled with `%s` instead of the id of the recording it belongs to' % (norm(lab) if lab is not None else None)))
        # payload provenance: backward closure of the argument names inside the loop
        names = {x.id for a in c.args for x in ast.walk(a) if isinstance(x, ast.Name)}
        seen = set()
        stack = list(names)
        stale = []
        while stack:
            nm = stack.pop()
            if nm in seen:
                continue
            seen.add(nm)
            for v in defs.get(nm, []):
                for x in ast.walk(v):
                    if isinstance(x, ast.Name):
                        stack.append(x.id)
                    if isinstance(x, ast.Attribute) and self_attr(x) in written_fields:
                        stale.append(x)
        for a in c.args:
            for x in ast.walk(a):
                if isinstance(x, ast.Attribute) and self_attr(x) in written_fields:
                    stale.append(x)
        cb.instance('Comparison(...) at line %d: arguments derive from this iteration only' % c.lineno, runc.qualname, not stale)
        cb.evaluations += len(seen)
        for x in stale[:1]:
            res.add(Finding('C08', 'C08.b', 'R-PROV', runc.file, runc.qualname, x.lineno, norm(x),
                            'a comparison carries data read from `%s`, a field the equalizer writes elsewhere: when the current recording fails '
                            'early it shows the previous recording\'s data' % norm(x)))
    # the worker call of the iteration receives the loop id
    wc = [n for n in ast.walk(main) if isinstance(n, ast.Call) and self_attr(n.func) == er.dispatch.name]
    okw = bool(wc) and all(n.args and isinstance(n.args[0], ast.Name) and n.args[0].id == idvar for n in wc)
    cb.instance('the play-and-compare call of the iteration receives the loop id', runc.qualname, okw)
    if not okw:
        res.add(Finding('C08', 'C08.b', 'R-PROV', runc.file, runc.qualname, main.lineno, 'worker call argument', 'the iteration does not play the id it labels its comparison with'))

    # ---------------- C08.c containment of the routine
    dp = small.analyse(repo, excm, pac, policy=pol, domain=small.SmallDomain)
    cc.evaluations += dp.visited_pairs
    esc = [(n, s) for n, s in dp.exits if n.info['exit'] != 'return' and n.info['exit'][6:] in excm.ordinary]
    cc.instance('_play_and_compare_recording: no ordinary exception escapes (player, extractors, comparator inside the try)', pac.qualname, not esc)
    if esc:
        n, s = esc[0]
        res.add(Finding('C08', 'C08.c', 'R-CONTAIN', pac.file, pac.qualname, pac.node.lineno, 'exception from %s escapes' % s.extra.get('exc_src'),
                        'a failure while playing / extracting / comparing one recording (%s) leaves the routine as an exception instead of a '
                        'failure result for that recording' % s.extra.get('exc_src'), witness=dp.path_to(n, s)))
    # failure result built from this recording id; bare status wrapped
    fr = [n for n in ast.walk(pac.node) if isinstance(n, ast.Call) and isinstance(n.func, ast.Attribute) and n.func.attr == 'failure_result']
    okf = bool(fr) and all(n.args and isinstance(n.args[0], ast.Name) and n.args[0].id == pac.params[1] for n in fr)
    wrap = any(isinstance(n, (ast.If, ast.IfExp)) and 'isinstance' in norm(n.test) and 'ComparatorResult' in norm(n.test) and
               any(isinstance(x, ast.Call) and norm(x.func).endswith('ComparatorResult') for x in ast.walk(n)) for n in ast.walk(pac.node))
    cc.instance('failure result built from this recording id; bare comparator status wrapped into ComparatorResult', pac.qualname, okf and wrap)
    if not (okf and wrap):
        res.add(Finding('C08', 'C08.c', 'R-CONTAIN', pac.file, pac.qualname, pac.node.lineno, 'failure result / status wrapping',
                        'the failure result is not built from the id being played, or a bare status is not wrapped'))
    # worker loop
    wt = er.target
    dw = small.analyse(repo, excm, wt, policy=NoInline(repo, excm), domain=em.EqDomain)
    cc.evaluations += dw.visited_pairs
    escw = [(n, s) for n, s in dw.exits if n.info['exit'] != 'return' and n.info['exit'][6:] in excm.ordinary]
    cc.instance('worker loop: a failing task does not end the loop', wt.qualname, not escw)
    if escw:
        n, s = escw[0]
        res.add(Finding('C08', 'C08.c', 'R-CONTAIN', wt.file, wt.qualname, wt.node.lineno, 'exception from %s ends the worker loop' % s.extra.get('exc_src'),
                        'an exception while serving one task terminates the worker: later recordings fail although they are fine', witness=dw.path_to(n, s)))
    # what the worker answers with is what the routine returned: the success answer carries the routine's result object itself, not a
    # version of it the worker edited (both modes must hand the caller the same comparison)
    puts = [n for n in ast.walk(wt.node) if isinstance(n, ast.Call) and isinstance(n.func, ast.Attribute) and n.func.attr == 'put' and n.args and
            isinstance(n.args[0], ast.Tuple) and len(n.args[0].elts) == 2 and isinstance(n.args[0].elts[0], ast.Constant) and n.args[0].elts[0].value is True]
    okput = bool(puts)
    whyput = ''
    for pt in puts:
        v_ = pt.args[0].elts[1]
        if isinstance(v_, ast.Name):
            binds = [n for n in walk_own(wt.node) if isinstance(n, (ast.Assign, ast.AugAssign)) and
                     any(isinstance(t_, ast.Name) and t_.id == v_.id for t_ in (n.targets if isinstance(n, ast.Assign) else [n.target]))]
            direct = len(binds) == 1 and isinstance(binds[0], ast.Assign) and isinstance(binds[0].value, ast.Call) and self_attr(binds[0].value.func) == pac.name
            if not direct:
                okput = False
                whyput = '`%s` is bound %d times before it is answered' % (v_.id, len(binds))
        elif not (isinstance(v_, ast.Call) and self_attr(v_.func) == pac.name):
            okput = False
            whyput = 'the answer is `%s`' % norm(v_)[:60]
    cc.instance('worker answers with the routine\'s own result', wt.qualname, okput, detail=whyput)
    if not okput:
        res.add(Finding('C08', 'C08.c', 'R-CONTAIN', wt.file, wt.qualname, puts[0].lineno if puts else wt.node.lineno, norm(puts[0])[:100] if puts else 'worker answer',
                        'the worker does not answer with the object the play-and-compare routine returned (%s): comparisons made in a dedicated process '
                        'differ from those made in-process (e.g. the attached replay loses its outputs)' % whyput))
    # the serving loop has no way out except its own condition (the terminate event): a `return` / `break` after a task - e.g. after a
    # reported failure - leaves the parent with a handle to a worker that no longer serves
    wloops = [l for l in walk_own(wt.node) if isinstance(l, ast.While)]
    leaves = []
    if wloops:
        inner_loops = {id(x) for l2 in ast.walk(wloops[0]) if l2 is not wloops[0] and isinstance(l2, (ast.While, ast.For)) for x in ast.walk(l2)}
        for x in ast.walk(wloops[0]):
            if isinstance(x, ast.Return) or (isinstance(x, ast.Break) and id(x) not in inner_loops):
                leaves.append(x)
        leaves += [x for st_ in wt.node.body for x in ([st_] if isinstance(st_, ast.Return) else []) if st_.lineno < wloops[0].lineno]
    cc.instance('worker loop: no task ends the loop (no return / break out of it)', wt.qualname, bool(wloops) and not leaves)
    for x in leaves[:1]:
        res.add(Finding('C08', 'C08.c', 'R-CONTAIN', wt.file, wt.qualname, x.lineno, norm(x),
                        'the worker leaves its serving loop after a task (`%s`) while the parent keeps its handle: the next recording is sent to a '
                        'worker that is gone and gets a "process died" failure although it is fine' % norm(x)))
    # ---------------- C08.f a hung worker cannot block the run (shared with C13.a)
    from . import c13
    cfj = res.clause('C08.f', 'R-ABSINT', 'a hung worker fails only its own recording: no unbounded join can block the run', floor=1)
    handle = c13.worker_handle(eq)
    joins, badj = c13.unbounded_joins(eq, handle, er.recycle)
    cfj.instance('%d join(s) on the worker handle, none unbounded outside the cooperative recycle path' % len(joins), eq.name, not badj)
    cfj.evaluations += len(joins)
    for m, n in badj:
        res.add(Finding('C08', 'C08.f', 'R-ABSINT', m.file, m.qualname, n.lineno, norm(n),
                        'join() without timeout on a worker that may be hung: if it does not die the run blocks and no later recording gets a verdict'))
    c13.terminate_event_clause(ctx, res, cfj, 'C08', 'C08.f')
    from . import recmodel as rm
    rm.replay_idle_clause(ctx, res, 'C08', 'C08.g', 'a failed replay leaves the recorder idle (later recordings in the same process are unaffected)')
    # ---------------- C08.d
    callers = {m.name for m in eq.methods.values() for n in ast.walk(m.node) if isinstance(n, ast.Call) and self_attr(n.func) == pac.name}
    impls = [m for m in eq.methods.values() if m is not pac and any(isinstance(n, ast.Call) and self_attr(n.func) == 'player' for n in ast.walk(m.node))]
    okd = wt.name in callers and any('within_worker' in c or c != wt.name for c in callers) and not impls
    cd.instance('callers of %s: %s; no second implementation calling the player' % (pac.name, sorted(callers)), eq.name, okd)
    cd.evaluations += 1
    if not okd:
        res.add(Finding('C08', 'C08.d', 'R-WHOCALLS', pac.file, eq.name, eq.node.lineno, 'callers %s second implementations %s' % (sorted(callers), [m.name for m in impls]),
                        'in-process execution and the dedicated worker do not share one play-and-compare routine'))
    # ---------------- C08.e
    create = er.create
    qfields = [f for (c, f), t in pol.field_types.items() if c == eq.name and t == ('lib', 'multiprocessing.Queue')]
    if len(qfields) != 2 or create is None:
        raise AnalysisError('anchor-lost role=task/result queues (%s)' % qfields)
    fresh = {}
    proc_line = None
    for n in walk_own(create.node):
        if isinstance(n, ast.Assign) and self_attr(n.targets[0]) in qfields and isinstance(n.value, ast.Call) and norm(n.value.func).endswith('Queue'):
            fresh[self_attr(n.targets[0])] = n.lineno
        if isinstance(n, ast.Assign) and isinstance(n.value, ast.Call) and norm(n.value.func).endswith('Process'):
            proc_line = n.lineno
    ok_fresh = set(fresh) == set(qfields) and proc_line is not None and all(l < proc_line for l in fresh.values())
    # alternative: tagged messages
    tagged = False
    for n in ast.walk(wt.node):
        if isinstance(n, ast.Call) and isinstance(n.func, ast.Attribute) and n.func.attr == 'put' and n.args and isinstance(n.args[0], ast.Tuple):
            if any(isinstance(e, ast.Name) and e.id == 'recording_id' for e in n.args[0].elts):
                tagged = True
    ce.instance('fresh task/result queues assigned before every new worker is started (or messages tagged with the task id)', create.qualname,
                ok_fresh or tagged, detail='fresh=%s process line=%s tagged=%s' % (fresh, proc_line, tagged))
    ce.evaluations += 1
    if not (ok_fresh or tagged):
        res.add(Finding('C08', 'C08.e', 'R-AGREE', create.file, create.qualname, create.node.lineno, 'queues of a new worker',
                        'a new worker shares the untagged task/result queues of its predecessor: an answer a timed-out or dead worker still '
                        'delivers is taken as the verdict of a later recording (draining the queues when the worker starts does not help: the '
                        'late answer arrives afterwards)'))
    # ---------------- C08.b (handlers): a failure verdict is built from this iteration's id and exception only
    for lp in [n for n in ast.walk(runc.node) if isinstance(n, ast.For)]:
        for tr in [n for n in ast.walk(lp) if isinstance(n, ast.Try)]:
            assigned = {x.id for s_ in tr.body for x in ast.walk(s_) if isinstance(x, ast.Name) and isinstance(x.ctx, ast.Store)}
            for h in tr.handlers:
                own = {x.id for s_ in h.body for x in ast.walk(s_) if isinstance(x, ast.Name) and isinstance(x.ctx, ast.Store)}
                reads = {x.id for s_ in h.body for x in ast.walk(s_) if isinstance(x, ast.Name) and isinstance(x.ctx, ast.Load)}
                stale_l = sorted((reads & assigned) - own - ({h.name} if h.name else set()))
                cb.instance('failure handler of the iteration reads no local that the failed attempt may not have assigned (%s)' % (stale_l or 'none'),
                            runc.qualname, not stale_l)
                cb.evaluations += 1
                if stale_l:
                    res.add(Finding('C08', 'C08.b', 'R-PROV', runc.file, runc.qualname, h.lineno, 'handler reads %s' % stale_l,
                                    'the failure verdict of an iteration reads %s, assigned inside the attempt that just failed: when the failure '
                                    'came before that assignment the value is the previous recording\'s (or unset), so the verdict labelled with this '
                                    'id carries another recording\'s data' % stale_l))
    # ---------------- C08.j the per-recording routine keeps nothing on the equalizer: a verdict depends on its own recording only (and is the
    # same in the worker process, whose copy of the equalizer is renewed with every recycle)
    from . import common as _cm8
    cjj = res.clause('C08.j', 'R-PROV', 'the per-recording routine keeps no state on the equalizer', floor=1)
    _cm8.stateless_methods_clause(res, cjj, 'C08', 'C08.j', eq, [pac.name], 'a verdict is computed from its own recording alone')
    # ---------------- C08.k the worker polls task ids of any value: "nothing polled" is the queue's Empty, never the falsiness of an id
    ckk = res.clause('C08.k', 'R-SENTINEL', 'worker loop: a polled id is never tested by truthiness', floor=1)
    wt_ = er.target
    polled = {n.targets[0].id for n in ast.walk(wt_.node) if isinstance(n, ast.Assign) and isinstance(n.targets[0], ast.Name) and
              isinstance(n.value, ast.Call) and isinstance(n.value.func, ast.Attribute) and n.value.func.attr in ('get', 'get_nowait')}
    truthy = []
    for n in ast.walk(wt_.node):
        tests = []
        if isinstance(n, (ast.If, ast.While, ast.IfExp)):
            tests.append(n.test)
        if isinstance(n, ast.BoolOp):
            tests.extend(n.values)
        for t_ in tests:
            t2 = t_.operand if isinstance(t_, ast.UnaryOp) and isinstance(t_.op, ast.Not) else t_
            if isinstance(t2, ast.Name) and t2.id in polled:
                truthy.append(t_)
    ckk.instance('polled task variable(s) %s never tested by truthiness' % sorted(polled), wt_.qualname, bool(polled) and not truthy)
    ckk.evaluations += 1
    for t_ in truthy[:1]:
        res.add(Finding('C08', 'C08.k', 'R-SENTINEL', wt_.file, wt_.qualname, t_.lineno, norm(t_),
                        'the worker decides "no task polled" by `%s`: a recording id that is falsy (0, empty string) is silently dropped, the parent '
                        'waits for the timeout and reports a framework failure although the in-process run gives a verdict' % norm(t_)))
    # ---------------- C08.l the text of a verdict can always be built: the info log inside the guarded block must not turn a verdict into a failure
    cll = res.clause('C08.l', 'R-TOTAL', 'verdict objects format with any message / diff value', floor=1)
    eqm = eq.module
    concat = []
    n_str = 0
    # attributes the constructors document as text (`:type message: basestring`) may be concatenated
    import re as _re
    typed_str = set()
    for c_ in eqm.classes.values():
        im = c_.methods.get('__init__')
        doc = ast.get_docstring(im.node) if im is not None else None
        for mm in _re.finditer(r':type\s+(\w+)\s*:\s*(basestring|str|unicode|six\.text_type)\b', doc or ''):
            typed_str.add(mm.group(1))
    for c_ in eqm.classes.values():
        sm = c_.methods.get('__str__') or c_.methods.get('__repr__')
        if sm is None:
            continue
        n_str += 1
        for n in ast.walk(sm.node):
            if isinstance(n, ast.BinOp) and isinstance(n.op, (ast.Add, ast.Mod)):
                for side in (n.left, n.right):
                    if isinstance(n.op, ast.Mod) and side is n.right:
                        continue
                    if isinstance(side, (ast.Attribute, ast.Name, ast.Subscript)) and \
                            not (isinstance(side, ast.Attribute) and side.attr in typed_str) and \
                            not (isinstance(side, ast.Name) and side.id in {t.id for a_ in ast.walk(sm.node) if isinstance(a_, (ast.Assign, ast.AugAssign))
                                                                             for t in ([a_.target] if isinstance(a_, ast.AugAssign) else a_.targets)
                                                                             if isinstance(t, ast.Name)}):
                        concat.append((sm, n, side))
    cll.instance('%d __str__ methods of the verdict classes use total formatting only' % n_str, eqm.relpath, n_str > 0 and not concat)
    cll.evaluations += n_str
    for sm, n, side in concat[:1]:
        res.add(Finding('C08', 'C08.l', 'R-TOTAL', sm.file, sm.qualname, n.lineno, norm(n)[:100],
                        '%s concatenates `%s` into the text: a verdict whose message / diff is not a string (the comparator may return any object) '
                        'makes the per-recording log line raise TypeError inside the guarded block, and the legitimate verdict is replaced by a '
                        'framework failure' % (sm.qualname, norm(side))))
    # ---------------- C08.i a failure costs that recording only: the next dispatch finds a usable worker (shared with C13.f)
    cni = res.clause('C08.i', 'R-ORDER', 'after a worker failure the next dispatch does not trip over the forgotten handle', floor=1)
    c13.nullable_handle_clause(ctx, res, cni, 'C08', 'C08.i')
    # ---------------- C08.h the worker may start processes of its own (replayed code is arbitrary): it is not a daemon process
    chd = res.clause('C08.h', 'R-AGREE', 'the dedicated worker is a non-daemon process (same verdicts as in-process execution)', floor=1)
    dm = []
    for m in eq.methods.values():
        for n in ast.walk(m.node):
            if isinstance(n, ast.Call) and norm(n.func).endswith('Process') and any(k.arg == 'daemon' and not (isinstance(k.value, ast.Constant) and k.value.value is False) for k in n.keywords):
                dm.append((m, n))
            if isinstance(n, ast.Assign) and any(isinstance(t, ast.Attribute) and t.attr == 'daemon' for t in n.targets) and \
                    not (isinstance(n.value, ast.Constant) and n.value.value is False):
                dm.append((m, n))
            if isinstance(n, ast.Call) and isinstance(n.func, ast.Attribute) and n.func.attr == 'setDaemon':
                dm.append((m, n))
    chd.instance('worker process created without the daemon flag', er.create.qualname, not dm)
    chd.evaluations += 1
    for m, n in dm[:1]:
        res.add(Finding('C08', 'C08.h', 'R-AGREE', m.file, m.qualname, n.lineno, norm(n)[:100],
                        'the dedicated worker is made a daemon process: a daemonic process may not have children, so a replay that starts a process '
                        '(pool, subprocess helper) fails in the worker while the same replay succeeds in-process - the two modes give different verdicts'))
    # ---- C08.n only a worker that is silent for the configured time is failed as timed out: the wait is measured against the clock
    from . import common as _cm8b
    _cm8b.import_clauses(ctx, res, 'C13', ['C13.a'], 'C08', 'C08.n', 'R-ABSINT',
                         'the wait for a worker\'s answer lasts the configured timeout (clock-based), every poll is finite', floor=4)
    # ---- C08.m one comparison per id, in the order the ids were given: the studio's grouping of explicit ids (shared with C19.c)
    from . import common as _cm8
    _cm8.import_clauses(ctx, res, 'C19', ['C19.a', 'C19.c'], 'C08', 'C08.m', 'R-PROV',
                        'explicit ids reach the equalizer grouped by category, each once, in the order given', floor=2)
    return res
