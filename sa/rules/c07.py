"""C07 - Stored recordings round-trip through every cassette (writer / reader agreement per cassette).

  C07.a  R-AGREE    codec pairing: encode on save / decode on fetch (S3: encode -> compress, decompress -> decode),
                    encode keeps type information, file cassette writes and reads text with one declared encoding
  C07.b  R-AGREE    save and fetch use the same location function of the id
  C07.c  R-PROV     the fetched MemoryRecording is rebuilt from the decoded id / data / metadata; S3 embeds and removes the
                    metadata under one tag and writes the separate metadata object from the same expression
  C07.d  R-SIBLING  an id that is not stored makes every get_recording raise NoSuchRecording (none returns a constant; the S3
                    mapping receives the storage layer's own exception, not a re-wrapped one)
  C07.e  R-PROV     the in-memory store holds the encoded text, not the live object
"""
import ast

from ..report import Result, Finding
from ..loader import walk_own, norm, AnalysisError
from ..resolve import RepoPolicy
from .. import small


def self_attr(e):
    if isinstance(e, ast.Attribute) and isinstance(e.value, ast.Name) and e.value.id == 'self':
        return e.attr
    return None


def calls(fn, name):
    return [n for n in ast.walk(fn.node) if isinstance(n, ast.Call) and
            ((isinstance(n.func, ast.Name) and n.func.id == name) or (isinstance(n.func, ast.Attribute) and n.func.attr == name))]


def first_line(fn, name):
    c = calls(fn, name)
    return min(x.lineno for x in c) if c else None


def run(ctx):
    res = Result('C07')
    repo = ctx.repo
    res.explanation = (
        'Decides writer / reader agreement of each shipped cassette: the serializer pair and its order, the storage location as '
        'one function of the id on both sides, what the fetched recording is rebuilt from, the behaviour of every get_recording '
        'on the not-stored exits (computed on the graph with the facade inlined, including where the mapped exception originates), '
        'and that the in-memory store keeps immutable text. Not decided: fidelity of jsonpickle / JSON / zlib on values, metadata '
        'and unusual key text.')
    res.not_decided = ['value / metadata / key-text fidelity of jsonpickle + JSON + zlib', 'a user record_data key equal to the S3 metadata tag']
    res.assumptions = ['jsonpickle.decode inverts jsonpickle.encode(unpicklable=True) on the faithful domain']
    ca = res.clause('C07.a', 'R-AGREE', 'codec pairing per cassette', floor=5)
    cb = res.clause('C07.b', 'R-AGREE', 'same location function on save and fetch', floor=3)
    cc = res.clause('C07.c', 'R-PROV', 'fetched recording rebuilt from decoded id / data / metadata', floor=4)
    cd = res.clause('C07.d', 'R-SIBLING', 'unknown id -> NoSuchRecording in every cassette', floor=3)
    ce = res.clause('C07.e', 'R-PROV', 'in-memory store holds encoded text', floor=1)
    mem = repo.cls('InMemoryTapeCassette')
    fil = repo.cls('FileBasedTapeCassette')
    s3 = repo.cls('S3TapeCassette')

    def F(c, m):
        f = c.lookup(m)
        if f is None:
            raise AnalysisError('anchor-lost method=%s.%s' % (c.name, m))
        return f

    def finding(clause, kind, fn, construct, msg, line=None):
        res.add(Finding('C07', clause, kind, fn.file, fn.qualname, line or fn.node.lineno, construct, msg))

    # ---------------- C07.a codec pairing
    for c in (mem, fil, s3):
        sv, gt = F(c, '_save_recording'), F(c, 'get_recording')
        enc, dec = calls(sv, 'encode'), calls(gt, 'decode')
        ok = bool(enc) and bool(dec)
        ca.instance('%s: save encodes (%d), fetch decodes (%d)' % (c.name, len(enc), len(dec)), c.name, ok)
        ca.evaluations += len(enc) + len(dec)
        if not ok:
            finding('C07.a', 'R-AGREE', sv if not enc else gt, 'codec pair of %s' % c.name,
                    'save and fetch of %s do not use the encode / decode pair (encode calls %d, decode calls %d)' % (c.name, len(enc), len(dec)))
        for e in enc:
            kw = [k for k in e.keywords if not (k.arg == 'unpicklable' and isinstance(k.value, ast.Constant) and k.value.value is True)]
            okf = not kw
            ca.instance('%s: %s keeps type information' % (c.name, norm(e)[:60]), '%s:%d' % (sv.file, e.lineno), okf)
            if not okf:
                finding('C07.a', 'R-AGREE', sv, norm(e), 'encode(%s): the stored text cannot be decoded back to equal values' % ', '.join('%s=%s' % (k.arg, norm(k.value)) for k in kw), e.lineno)
    pc = None
    for m_ in repo.modules.values():
        if 'pickle_copy' in m_.functions:
            pc = m_.functions['pickle_copy']
    if pc is not None:
        from . import c01
        okpc, whypc = c01.is_decode_encode(pc)
        lossy_pc = [k for n in ast.walk(pc.node) if isinstance(n, ast.Call) and isinstance(n.func, ast.Name) and n.func.id == 'encode'
                    for k in n.keywords if not (k.arg == 'unpicklable' and isinstance(k.value, ast.Constant) and k.value.value is True)]
        ca.instance('read-path copier pickle_copy is decode(encode(value)) without fidelity-reducing options', pc.qualname, okpc and not lossy_pc, detail=whypc)
        if not okpc or lossy_pc:
            finding('C07.a', 'R-AGREE', pc, 'pickle_copy codec', 'data read from a fetched recording passes through a lossy copy (%s): equal data is not returned for values '
                    'with shared sub-objects / typed members' % (', '.join('%s=%s' % (k.arg, norm(k.value)) for k in lossy_pc) or whypc))
    # S3: compress after encode, decompress before decode; metadata object decoded by the same codec
    sv, gt = F(s3, '_save_recording'), F(s3, 'get_recording')
    le, lc = first_line(sv, 'encode'), first_line(sv, 'compress')
    ld, lz = first_line(gt, 'decode'), first_line(gt, 'decompress')
    ok = None not in (le, lc, ld, lz) and le < lc and lz < ld
    ca.instance('S3: encode -> compress on save, decompress -> decode on fetch', s3.name, ok, detail='lines %s' % ((le, lc, lz, ld),))
    if not ok:
        finding('C07.a', 'R-AGREE', gt, 'S3 codec order', 'S3 save/fetch do not apply encode -> compress and decompress -> decode in inverse order')
    gm = F(s3, 'get_recording_metadata')
    okm = bool(calls(gm, 'decode'))
    meta_puts = [n for n in calls(sv, 'put_string') if any(isinstance(x, ast.Call) and isinstance(x.func, ast.Name) and x.func.id == 'encode' for a in n.args for x in ast.walk(a))]
    ca.instance('S3: metadata object written with encode, read with decode', s3.name, okm and len(meta_puts) == 1)
    if not (okm and len(meta_puts) == 1):
        finding('C07.a', 'R-AGREE', gm, 'S3 metadata codec', 'the separate metadata object is not written with encode and read back with decode')
    # file: same encoding, text modes
    opens_s = [n for n in ast.walk(F(fil, '_save_recording').node) if isinstance(n, ast.Call) and norm(n.func) in ('io.open', 'open')]
    opens_g = [n for n in ast.walk(F(fil, 'get_recording').node) if isinstance(n, ast.Call) and norm(n.func) in ('io.open', 'open')]

    def enc_of(c):
        for k in c.keywords:
            if k.arg == 'encoding' and isinstance(k.value, ast.Constant):
                return k.value.value
        return None

    def mode_of(c):
        if len(c.args) > 1 and isinstance(c.args[1], ast.Constant):
            return c.args[1].value
        for k in c.keywords:
            if k.arg == 'mode' and isinstance(k.value, ast.Constant):
                return k.value.value
        return 'r'
    ok = len(opens_s) == 1 and len(opens_g) == 1 and enc_of(opens_s[0]) is not None and enc_of(opens_s[0]) == enc_of(opens_g[0]) and \
        'b' not in mode_of(opens_s[0]) and 'b' not in mode_of(opens_g[0]) and 'w' in mode_of(opens_s[0])
    ca.instance('file cassette: written and read as text with the same declared encoding', fil.name, ok,
                detail='%s / %s' % (norm(opens_s[0]) if opens_s else None, norm(opens_g[0]) if opens_g else None))
    if not ok:
        finding('C07.a', 'R-AGREE', F(fil, 'get_recording'), 'file encoding', 'the file cassette does not read its files with the encoding it writes them with (%s vs %s)' % (
            enc_of(opens_s[0]) if opens_s else None, enc_of(opens_g[0]) if opens_g else None))

    # ---------------- C07.b location
    # file: both sides call the same path helper on the id
    # the location written and the location read are the same function of the id: the path expressions handed to open(), written out
    # through locals and small helpers, agree once the id (save: <recording>.id, fetch: the id parameter) is put in the same place
    from . import common as _cm07
    import copy as _copy

    loc_asts = []

    def location(fn, op, id_pred):
        if not op.args:
            return None
        e = _cm07.expand_through_helpers(fil, fn, op.args[0])

        class I(ast.NodeTransformer):
            def visit_Attribute(self_, n):
                if id_pred(n):
                    return ast.Name(id='ID', ctx=ast.Load())
                self_.generic_visit(n)
                return n

            def visit_Name(self_, n):
                return ast.Name(id='ID', ctx=ast.Load()) if id_pred(n) else n
        loc_asts.append((fn, e))
        return norm(I().visit(_copy.deepcopy(e)))
    sv_, gt_ = F(fil, '_save_recording'), F(fil, 'get_recording')
    rp = sv_.params[1] if len(sv_.params) > 1 else None
    ip = gt_.params[1] if len(gt_.params) > 1 else None
    ps = location(sv_, opens_s[0], lambda n: isinstance(n, ast.Attribute) and n.attr == 'id' and isinstance(n.value, ast.Name) and n.value.id == rp) if opens_s else None
    pg = location(gt_, opens_g[0], lambda n: isinstance(n, ast.Name) and n.id == ip) if opens_g else None
    ok = ps is not None and ps == pg and 'ID' in ps
    cb.instance('file cassette: save and fetch open the same function of the id (%s)' % ps, fil.name, ok)
    if not ok:
        finding('C07.b', 'R-AGREE', F(fil, 'get_recording'), 'file path function', 'save uses %s, fetch uses %s' % (ps, pg))
    # S3: same template + key_prefix on both sides (full and metadata)
    def tmpl_uses(fn):
        out = set()
        for n in ast.walk(fn.node):
            if isinstance(n, ast.Call) and isinstance(n.func, ast.Attribute) and n.func.attr == 'format' and self_attr(n.func.value):
                kws = {k.arg: k.value for k in n.keywords}
                out.add((self_attr(n.func.value), self_attr(kws.get('key_prefix')) == 'key_prefix', norm(kws['id']) if 'id' in kws else None))
        return out
    us, ug, um = tmpl_uses(sv), tmpl_uses(gt), tmpl_uses(gm)
    full_s = {u for u in us if u[0] == 'FULL_KEY'}
    meta_s = {u for u in us if u[0] == 'METADATA_KEY'}
    ok = len(full_s) == 1 and len(ug) == 1 and list(ug)[0][0] == 'FULL_KEY' and all(u[1] for u in us | ug | um) and \
        len(meta_s) == 1 and len(um) == 1 and list(um)[0][0] == 'METADATA_KEY'
    cb.instance('S3: full object saved and fetched under FULL_KEY, metadata under METADATA_KEY, both with own key_prefix', s3.name, ok,
                detail='save %s fetch %s meta-fetch %s' % (sorted(us), sorted(ug), sorted(um)))
    if not ok:
        finding('C07.b', 'R-AGREE', gt, 'S3 key templates', 'S3 save / fetch do not agree on the key template: save %s, fetch %s, metadata fetch %s' % (sorted(us), sorted(ug), sorted(um)))
    # in-memory: same dict keyed by id
    st_s = {self_attr(n.value) for n in ast.walk(F(mem, '_save_recording').node) if isinstance(n, ast.Subscript) and self_attr(n.value)}
    st_g = {self_attr(n.func.value) for n in ast.walk(F(mem, 'get_recording').node) if isinstance(n, ast.Call) and isinstance(n.func, ast.Attribute) and self_attr(n.func.value)} | \
           {self_attr(n.value) for n in ast.walk(F(mem, 'get_recording').node) if isinstance(n, ast.Subscript) and self_attr(n.value)}
    ok = len(st_s) == 1 and st_s <= st_g
    cb.instance('in-memory: save and fetch use the same store %s' % sorted(st_s), mem.name, ok)
    if not ok:
        finding('C07.b', 'R-AGREE', F(mem, 'get_recording'), 'in-memory store', 'save stores into %s, fetch reads %s' % (sorted(st_s), sorted(st_g)))

    if loc_asts:
        pf = loc_asts[0][0]
        lossy = [n for fn_, e_ in loc_asts for n in ast.walk(e_) if (isinstance(n, ast.Subscript) and isinstance(n.slice, ast.Slice)) or
                 (isinstance(n, ast.Call) and isinstance(n.func, ast.Name) and n.func.id in ('hash',)) or
                 (isinstance(n, ast.Call) and isinstance(n.func, ast.Attribute) and n.func.attr in ('hexdigest', 'digest', 'lower', 'upper', 'casefold'))]
        cb.instance('file cassette: path is an injective function of the id (no truncation / hashing / case folding)', pf.qualname, not lossy)
        for n in lossy[:1]:
            res.add(Finding('C07', 'C07.b', 'R-AGREE', pf.file, pf.qualname, getattr(n, 'lineno', pf.node.lineno), norm(n)[:100],
                            'the file path is a lossy function of the recording id (`%s`): two ids can share one file, so a later save overwrites an '
                            'earlier recording and an unknown id can return someone else\'s recording' % norm(n)[:80]))
    sv_f = F(fil, '_save_recording')
    enc_f = calls(sv_f, 'encode')
    opn_f = [n for n in ast.walk(sv_f.node) if isinstance(n, ast.With) and any(norm(i.context_expr.func) in ('io.open', 'open') for i in n.items if isinstance(i.context_expr, ast.Call))]
    before = bool(enc_f) and bool(opn_f) and all(e.lineno < opn_f[0].lineno for e in enc_f)
    ca.instance('file cassette: recording encoded before the target file is opened for writing', sv_f.qualname, before)
    if not before:
        res.add(Finding('C07', 'C07.a', 'R-AGREE', sv_f.file, sv_f.qualname, sv_f.node.lineno, 'encode inside the open-for-write block',
                        'the recording is serialized after the target file was opened (truncated): a failing serialization leaves an empty file that '
                        'every later lookup of the category trips over'))

    # ---------------- C07.c what is rebuilt
    for c in (mem, fil):
        g = F(c, 'get_recording')
        ctor = [n for n in ast.walk(g.node) if isinstance(n, ast.Call) and isinstance(n.func, ast.Name) and n.func.id == 'MemoryRecording']
        dec = None
        for n in walk_own(g.node):
            if isinstance(n, ast.Assign) and isinstance(n.value, ast.Call) and isinstance(n.value.func, ast.Name) and n.value.func.id == 'decode' \
                    and isinstance(n.targets[0], ast.Name):
                dec = n.targets[0].id
        ok = False
        why = 'no MemoryRecording(...) built from the decoded form'
        if ctor and dec:
            kws = {k.arg: k.value for k in ctor[0].keywords}

            def attr_of(e, a):
                return isinstance(e, ast.Attribute) and isinstance(e.value, ast.Name) and e.value.id == dec and e.attr == a
            ok = attr_of(kws.get('_id'), 'id') and attr_of(kws.get('recording_data'), 'recording_data') and \
                attr_of(kws.get('recording_metadata'), 'recording_metadata')
            why = norm(ctor[0])[:160]
        cc.instance('%s: MemoryRecording(_id, recording_data, recording_metadata) from the decoded form' % c.name, g.qualname, ok, detail=why)
        cc.evaluations += 1
        if not ok:
            finding('C07.c', 'R-PROV', g, 'rebuilt recording of %s' % c.name, 'the fetched recording is not rebuilt from the decoded id, data and metadata: %s' % why)
    # S3
    ctor = [n for n in ast.walk(gt.node) if isinstance(n, ast.Call) and isinstance(n.func, ast.Name) and n.func.id == 'MemoryRecording']
    tag_w = [n.targets[0].slice.value for n in walk_own(sv.node) if isinstance(n, ast.Assign) and isinstance(n.targets[0], ast.Subscript) and
             isinstance(n.targets[0].slice, ast.Constant) and isinstance(n.value, ast.Attribute) and n.value.attr == 'recording_metadata']
    tag_r = [n.args[0].value for n in ast.walk(gt.node) if isinstance(n, ast.Call) and isinstance(n.func, ast.Attribute) and n.func.attr == 'pop'
             and n.args and isinstance(n.args[0], ast.Constant)]
    ok = len(tag_w) == 1 and tag_w == tag_r
    cc.instance('S3: metadata embedded under %s and removed under %s' % (tag_w, tag_r), s3.name, ok)
    if not ok:
        finding('C07.c', 'R-PROV', gt, 'S3 metadata tag', 'metadata is embedded into the full object under %s but removed under %s on fetch' % (tag_w, tag_r))
    okc = False
    if ctor:
        c0 = ctor[0]
        kws = {k.arg: k.value for k in c0.keywords}
        idok = c0.args and isinstance(c0.args[0], ast.Name) and c0.args[0].id == gt.params[1]
        okc = bool(idok) and isinstance(kws.get('recording_data'), ast.Name) and isinstance(kws.get('recording_metadata'), ast.Name)
    cc.instance('S3: MemoryRecording(requested id, decoded data, popped metadata)', gt.qualname, okc)
    if not okc:
        finding('C07.c', 'R-PROV', gt, 'rebuilt recording of S3', 'the fetched S3 recording is not rebuilt from the requested id, the decoded data and the embedded metadata')
    # metadata object written from the same expression as the embedded copy
    emb = [norm(n.value) for n in walk_own(sv.node) if isinstance(n, ast.Assign) and isinstance(n.targets[0], ast.Subscript) and
           isinstance(n.targets[0].slice, ast.Constant) and n.targets[0].slice.value in tag_w]
    sep = []
    for n in meta_puts:
        for a in n.args:
            for x in ast.walk(a):
                if isinstance(x, ast.Call) and isinstance(x.func, ast.Name) and x.func.id == 'encode' and x.args:
                    sep.append(norm(x.args[0]))
    ok = len(emb) == 1 and emb == sep
    cc.instance('S3: separate metadata object written from the same expression as the embedded copy (%s)' % emb, sv.qualname, ok)
    if not ok:
        finding('C07.c', 'R-PROV', sv, 'S3 metadata object source', 'embedded metadata is %s but the separate metadata object is written from %s' % (emb, sep))

    from . import c11
    c11.no_decoded_cache(ctx, res, cc, 'C07', 'C07.c')
    # a fetch never answers from an object kept by an earlier fetch
    for c in (mem, fil, s3):
        g = F(c, 'get_recording')
        early = [n for n in walk_own(g.node) if isinstance(n, ast.Return) and isinstance(n.value, (ast.Name, ast.Subscript, ast.Attribute, ast.Call)) and
                 any(self_attr(x) or (isinstance(x, ast.Attribute) and self_attr(x.value)) for x in ast.walk(n.value)) and
                 not any(isinstance(x, ast.Call) and isinstance(x.func, ast.Name) and x.func.id == 'MemoryRecording' for x in ast.walk(n.value))]
        stores = [n for n in ast.walk(g.node) if isinstance(n, ast.Assign) and any(
            self_attr(t) or (isinstance(t, ast.Subscript) and self_attr(t.value)) for t in n.targets)]
        cc.instance('%s.get_recording neither stores what it fetched nor answers from a stored object' % c.name, g.qualname, not early and not stores)
        for n in (early + stores)[:1]:
            finding('C07.c', 'R-PROV', g, norm(n)[:120], '%s.get_recording keeps / reuses a fetched recording object: after the id is saved again (or the object is '
                    'changed by a caller) a fetch returns stale or altered content, disagreeing with the stored recording' % c.name, n.lineno)

    # ---------------- C07.d missing id
    excm = ctx.excm(['playback.tape_cassettes.s3.s3_tape_cassette', 'playback.tape_cassettes.s3.s3_basic_facade', 'playback.tape_cassette',
                     'playback.tape_cassettes.in_memory.in_memory_tape_cassette', 'playback.tape_cassettes.file_based.file_based_tape_cassette',
                     'playback.exceptions'])
    nsr = excm.atom_of('NoSuchRecording')
    for c in (mem, fil, s3):
        for mname in ('get_recording',) + (('get_recording_metadata',) if c is s3 else ()):
            g = F(c, mname)
            dom = small.analyse(repo, excm, g, policy=RepoPolicy(repo, excm), self_cls=c, domain=HandlerSrcDomain)
            cd.evaluations += dom.visited_pairs
            raises_nsr = any(n.info['exit'] == 'raise:' + nsr and str(s.extra.get('exc_src', '')).startswith('raise NoSuchRecording')
                             for n, s in dom.exits)
            const_ret = [n for n in walk_own(g.node) if isinstance(n, ast.Return) and (n.value is None or isinstance(n.value, ast.Constant))]
            rewrapped = sorted({src for src in dom.handler_srcs if str(src).startswith('raise ')})
            ok = raises_nsr and not const_ret and not rewrapped
            cd.instance('%s.%s: a not-stored id raises NoSuchRecording, no constant return, storage exception reaches the mapping unchanged' % (c.name, mname),
                        g.qualname, ok, detail='sources handled: %s' % sorted(map(str, dom.handler_srcs))[:6])
            if not raises_nsr:
                finding('C07.d', 'R-SIBLING', g, '%s.%s never raises NoSuchRecording' % (c.name, mname),
                        '%s.%s has no path that raises NoSuchRecording: an id that is not stored is answered with something else' % (c.name, mname))
            for r in const_ret:
                finding('C07.d', 'R-SIBLING', g, norm(r), '%s.%s returns a constant on some path instead of raising NoSuchRecording (siblings raise)' % (c.name, mname), r.lineno)
            for src in rewrapped:
                finding('C07.d', 'R-SIBLING', g, 'mapping of a re-wrapped exception (%s)' % src,
                        'the handler that maps a missing object to NoSuchRecording receives an exception re-wrapped on the way (%s): it '
                        'recognises the storage layer\'s own exception type, so the mapping is lost' % src)

    # "no such recording" is the storage's answer: the fetch routines raise it where the store was asked (a membership / existence test on
    # what save writes, the handler of the storage call) - never from a look at the id text alone, since save stores a recording under
    # whatever id it carries
    from .common import guards_of as _guards7
    for c in (mem, fil, s3):
        sv_c = F(c, '_save_recording')
        store_fields = {self_attr(x) for x in ast.walk(sv_c.node) if isinstance(x, ast.Attribute) and self_attr(x)} - {None}
        # fields the class's path / key helpers read count as well (the directory, the key prefix): they are part of where save wrote
        for mname in ('get_recording',) + (('get_recording_metadata',) if c is s3 else ()):
            g = F(c, mname)
            fns = [g] + [c.lookup(self_attr(x.func)) for x in ast.walk(g.node) if isinstance(x, ast.Call) and self_attr(x.func) and
                         c.lookup(self_attr(x.func)) is not None and self_attr(x.func).startswith('_') and c.lookup(self_attr(x.func)) is not g]
            unasked = []
            for fn_ in fns:
                local_defs = {n.targets[0].id: n.value for n in walk_own(fn_.node) if isinstance(n, ast.Assign) and len(n.targets) == 1 and isinstance(n.targets[0], ast.Name)}
                for st_, conds in _guards7(fn_.node, lambda x: isinstance(x, ast.Raise) and x.exc is not None and 'NoSuchRecording' in norm(x.exc)):
                    def asks_store(t_, depth=0):
                        if isinstance(t_, ast.Name) and t_.id.startswith('<handler'):
                            return True
                        for x in ast.walk(t_):
                            if isinstance(x, ast.Attribute) and self_attr(x) in store_fields:
                                return True
                            if isinstance(x, ast.Call) and norm(x.func).startswith(('os.path.', 'os.access', 'os.stat')):
                                return True
                            if isinstance(x, ast.Name) and x.id in local_defs and depth < 3 and asks_store(local_defs[x.id], depth + 1):
                                return True
                        return False
                    if not any(asks_store(t_) for t_, _p in conds):
                        unasked.append((fn_, st_, conds))
            cd.instance('%s.%s: NoSuchRecording is raised only where the store was asked' % (c.name, mname), g.qualname, not unasked)
            cd.evaluations += 1
            for fn_, st_, conds in unasked[:1]:
                finding('C07.d', 'R-SIBLING', fn_, norm(st_)[:80],
                        '%s raises NoSuchRecording %s without asking the store: save keeps a recording under whatever id it carries, so a recording that '
                        'was saved is reported as missing when its id does not pass this test' % (
                            fn_.qualname, ('when `%s`' % ' and '.join(('' if p_ else 'not ') + norm(t_)[:50] for t_, p_ in conds)) if conds else 'unconditionally'), st_.lineno)
    # the local file system answers "not there" in more than one way (ENOENT, ENOTDIR, ENAMETOOLONG, EISDIR ...): a fetch that maps open()
    # failures by errno lets the others through as IOError for ids that were never saved
    g_f = F(fil, 'get_recording')
    by_errno = [h for t_ in ast.walk(g_f.node) if isinstance(t_, ast.Try) for h in t_.handlers
                if any(isinstance(x, ast.Raise) and x.exc is not None and 'NoSuchRecording' in norm(x.exc) for x in ast.walk(h)) and
                any(isinstance(x, ast.Attribute) and x.attr in ('errno', 'winerror') for x in ast.walk(h))]
    cd.instance('file cassette: a missing recording is not recognised by errno', g_f.qualname, not by_errno)
    for h in by_errno[:1]:
        finding('C07.d', 'R-SIBLING', g_f, 'except %s: errno filter' % (norm(h.type) if h.type is not None else ''),
                'the file cassette maps a failed open() to NoSuchRecording only for selected errno values: an id that was never saved and whose path cannot '
                'be opened for another reason (name too long, a directory, a file in place of a directory) raises IOError instead', h.lineno)
    # ids are unique whatever is in flight: every cassette builds the id of a new recording from a fresh uuid (an id computed from what is
    # stored so far is shared by two recordings created before either is saved - the second save replaces the first)
    for c in (mem, fil, s3):
        cr = c.lookup('create_new_recording')
        if cr is None or cr.cls is not c:
            continue
        uu = [n for n in ast.walk(cr.node) if isinstance(n, ast.Call) and norm(n.func).split('.')[-1] in ('uuid1', 'uuid4')]
        cb.instance('%s.create_new_recording takes the id from a fresh uuid' % c.name, cr.qualname, bool(uu))
        if not uu:
            finding('C07.b', 'R-AGREE', cr, 'id of a new recording',
                    '%s.create_new_recording does not build the id from a fresh uuid: ids derived from the cassette\'s content (a count, a timestamp) '
                    'coincide for recordings created before either is saved, and the later save overwrites the earlier recording' % c.name)
    # ---------------- C07.e
    sv_m = F(mem, '_save_recording')
    stores = [n for n in walk_own(sv_m.node) if isinstance(n, ast.Assign) and isinstance(n.targets[0], ast.Subscript) and self_attr(n.targets[0].value)]
    ok = bool(stores) and all(isinstance(n.value, ast.Call) and isinstance(n.value.func, ast.Name) and n.value.func.id == 'encode' for n in stores)
    ce.instance('in-memory store value is encode(recording)', sv_m.qualname, ok, detail='; '.join(norm(n)[:80] for n in stores))
    ce.evaluations += len(stores)
    if not ok:
        finding('C07.e', 'R-PROV', sv_m, '; '.join(norm(n) for n in stores) or 'store', 'the in-memory cassette stores the live object instead of its encoded text: '
                'later mutation of the saved objects changes what is fetched')
    # ---------------- C07.c (whole decode) what was encoded as one jsonpickle document is decoded as one: references between its
    # parts (py/id) are numbered over the whole document, a part restored on its own resolves them to other objects
    for cn in ('InMemoryTapeCassette', 'FileBasedTapeCassette'):
        c_ = repo.find_class(cn)
        partial = [(m, n) for m in c_.methods.values() for n in ast.walk(m.node) if isinstance(n, ast.Call) and (
            (norm(n.func).split('.')[-1] in ('loads', 'load') and 'json' in norm(n.func) and 'jsonpickle' not in norm(n.func)) or
            norm(n.func).split('.')[-1] in ('Unpickler', 'restore'))]
        cc.instance('%s: stored recordings are decoded as a whole (no raw JSON / partial restore)' % cn, cn, not partial)
        cc.evaluations += 1
        for m, n in partial[:1]:
            res.add(Finding('C07', 'C07.c', 'R-PROV', m.file, m.qualname, n.lineno, norm(n)[:100],
                            '%s reads the stored encoding with `%s` instead of decoding the whole recording: typed values appear as raw py/ dicts '
                            'and shared sub-objects (py/id references) resolve to the wrong object, so what is fetched differs from what was saved' % (
                                m.qualname, norm(n.func))))
    # ---------------- C07.a (files) a save replaces the file: it is opened truncating
    from . import common as _cmw
    filc = repo.find_class('FileBasedTapeCassette')
    svf = filc.lookup('_save_recording') if filc is not None else None
    if svf is None:
        raise AnalysisError('anchor-lost method=FileBasedTapeCassette._save_recording')
    nt = _cmw.nontruncating_writes(svf.node)
    ca.instance('file cassette: the recording file is opened truncating', svf.qualname, not nt)
    for n, why in nt[:1]:
        res.add(Finding('C07', 'C07.a', 'R-AGREE', svf.file, svf.qualname, n.lineno, norm(n)[:100],
                        'the recording file is opened without truncation (%s): saving an id again with a shorter encoding leaves the old tail in the '
                        'file, and the recording can no longer be decoded' % why))
    # ---------------- C07.f a saved recording stays fetchable: nothing but close() removes entries from a store
    from . import common
    cf = res.clause('C07.f', 'R-WHOCALLS', 'only close() removes stored recordings (no eviction, no expiry)', floor=2)
    removers = {'pop', 'popitem', 'clear', 'remove', 'discard'}
    for cn in ('InMemoryTapeCassette', 'FileBasedTapeCassette'):
        c_ = repo.find_class(cn)
        if c_ is None:
            raise AnalysisError('anchor-lost class=%s' % cn)
        bad = []
        for m in c_.methods.values():
            if m.name in ('close', '__exit__', '__init__'):
                continue
            for n in ast.walk(m.node):
                if isinstance(n, ast.Delete) and any(isinstance(t, ast.Subscript) and common.self_attr(t.value) for t in n.targets):
                    bad.append((m, n, 'del on a field'))
                if isinstance(n, ast.Call) and isinstance(n.func, ast.Attribute) and n.func.attr in removers and common.self_attr(n.func.value):
                    bad.append((m, n, 'self.%s.%s(...)' % (common.self_attr(n.func.value), n.func.attr)))
                if isinstance(n, ast.Call) and norm(n.func) in ('os.remove', 'os.unlink', 'shutil.rmtree', 'os.rmdir'):
                    bad.append((m, n, norm(n.func)))
                # re-binding the store to a filtered / truncated copy of itself
                if isinstance(n, ast.Assign) and any(common.self_attr(t) for t in n.targets) and m.name != '__init__':
                    f = [common.self_attr(t) for t in n.targets if common.self_attr(t)][0]
                    if any(common.self_attr(x) == f for x in ast.walk(n.value)):
                        bad.append((m, n, 'self.%s rebuilt from itself' % f))
        cf.instance('%s: no removal of stored recordings outside close()' % cn, cn, not bad)
        cf.evaluations += len(c_.methods)
        for m, n, what in bad[:2]:
            res.add(Finding('C07', 'C07.f', 'R-WHOCALLS', m.file, m.qualname, n.lineno, norm(n)[:100],
                            '%s in %s removes stored recordings: a recording that was saved can later fail to be fetched (NoSuchRecording) although '
                            'the cassette was not closed' % (what, m.qualname)))
    # ---------------- C07.g a save that returns has stored: the public wrapper reaches the cassette's own store routine on every returning path
    from . import common as _cm7
    cg7 = res.clause('C07.g', 'R-MUSTPASS', 'save_recording reaches the store routine of the cassette on every returning path', floor=1)
    base = repo.cls('TapeCassette')
    for c_ in [base] + repo.subclasses('TapeCassette'):
        w = c_.methods.get('save_recording')
        if w is None:
            continue
        hook = lambda x: isinstance(x, ast.Call) and ((self_attr(x.func) == '_save_recording') or
                                                      (isinstance(x.func, ast.Attribute) and x.func.attr == 'save_recording' and not self_attr(x.func)))
        okw, where = _cm7.every_return_passes(w.node, hook)
        cg7.instance('%s.save_recording: every returning path stores' % c_.name, w.qualname, okw)
        cg7.evaluations += 1
        if not okw:
            res.add(Finding('C07', 'C07.g', 'R-MUSTPASS', w.file, w.qualname, getattr(where, 'lineno', w.node.lineno),
                            norm(where)[:80] if not isinstance(where, ast.FunctionDef) else 'end of save_recording',
                            '%s.save_recording can return without having stored the recording (the store routine is not reached on that path): the '
                            'caller is told the save succeeded, a later fetch raises NoSuchRecording or returns an older version' % c_.name))
    # ---------------- C07.h presence of a key is decided by membership, never by the stored value (a stored None / 0 / '' / [] is a value)
    from .. import paths as _p7
    ch7 = res.clause('C07.h', 'R-DECISION', 'readers decide "no such key" by membership, not by the value found', floor=2)
    for c_ in [repo.cls('Recording')] + repo.subclasses('Recording'):
        for nm in ('get_data', 'get_data_direct'):
            g_ = c_.methods.get(nm)
            if g_ is None or all(isinstance(x, (ast.Raise, ast.Expr, ast.Pass)) for x in g_.node.body):
                continue
            kp = [q for q in g_.params if q != 'self'][:1]
            try:
                tbl = _p7.return_paths(g_.node)
            except _p7.Unsupported:
                continue
            by_value = None
            for pth in tbl:
                for cnd, pol in pth.conds:
                    reads_value = any((isinstance(x, ast.Call) and isinstance(x.func, ast.Attribute) and x.func.attr in ('get', 'pop', 'get_data', 'get_data_direct') and
                                       any(isinstance(a, ast.Name) and a.id in kp for a in x.args)) or
                                      (isinstance(x, ast.Subscript) and isinstance(x.slice, ast.Name) and x.slice.id in kp) for x in ast.walk(cnd))
                    membership = isinstance(cnd, ast.Compare) and all(isinstance(o, (ast.In, ast.NotIn)) for o in cnd.ops)
                    if reads_value and not membership and (pth.raises or any(p2.raises for p2 in tbl)):
                        by_value = by_value or (cnd, pth)
            ch7.instance('%s.%s: missing-key decision (%d paths)' % (c_.name, nm, len(tbl)), g_.qualname, by_value is None)
            ch7.evaluations += len(tbl)
            if by_value is not None:
                cnd, pth = by_value
                res.add(Finding('C07', 'C07.h', 'R-DECISION', g_.file, g_.qualname, getattr(cnd, 'lineno', g_.node.lineno), norm(cnd)[:100],
                                '%s.%s decides whether the key exists by looking at the value found (`%s`): a stored None (or other falsy value) is '
                                'reported as a missing key although get_all_keys lists it - the recording does not read back as it was stored' % (
                                    c_.name, nm, norm(cnd)[:80])))
    # ---------------- C07.i the id a recording is fetched under is the id it was saved under: fetch methods use their id parameter as given
    ci7 = res.clause('C07.i', 'R-PROV', 'fetch methods use the recording id as given (never rewritten before the location is computed)', floor=3)
    for c_ in [repo.cls('TapeCassette')] + repo.subclasses('TapeCassette'):
        for nm in ('get_recording', 'get_recording_metadata'):
            g_ = c_.methods.get(nm)
            if g_ is None or len(g_.params) < 2 or all(isinstance(x, (ast.Raise, ast.Expr, ast.Pass)) for x in g_.node.body):
                continue
            idp = g_.params[1]
            rebinds = [n for n in walk_own(g_.node) if isinstance(n, ast.Name) and n.id == idp and isinstance(n.ctx, (ast.Store, ast.Del))]
            ci7.instance('%s.%s keeps its id parameter `%s`' % (c_.name, nm, idp), g_.qualname, not rebinds)
            ci7.evaluations += 1
            for n in rebinds[:1]:
                res.add(Finding('C07', 'C07.i', 'R-PROV', g_.file, g_.qualname, n.lineno, 'id parameter `%s` rewritten' % idp,
                                '%s.%s rewrites the id it was asked for before looking the recording up, the save path does not: an id that was saved is '
                                'not found under its own name, and an id that was never saved returns another recording' % (c_.name, nm)))
    # ---------------- C07.j a fetched recording reports every key it holds
    cj7 = res.clause('C07.j', 'R-AGREE', 'get_all_keys lists every stored key (no filtering)', floor=1)
    for c_ in [repo.cls('Recording')] + repo.subclasses('Recording'):
        gk = c_.methods.get('get_all_keys')
        if gk is None or all(isinstance(x, (ast.Raise, ast.Expr, ast.Pass)) for x in gk.node.body):
            continue
        filt = [n for n in ast.walk(gk.node) if (isinstance(n, ast.comprehension) and n.ifs) or isinstance(n, (ast.If, ast.IfExp)) or
                (isinstance(n, ast.Call) and isinstance(n.func, ast.Name) and n.func.id == 'filter')]
        cj7.instance('%s.get_all_keys returns the keys of the stored data unfiltered' % c_.name, gk.qualname, not filt)
        cj7.evaluations += 1
        for n in filt[:1]:
            res.add(Finding('C07', 'C07.j', 'R-AGREE', gk.file, gk.qualname, getattr(n, 'lineno', gk.node.lineno), 'filtered key listing',
                            '%s.get_all_keys leaves out some of the keys the recording holds: what a fetched recording reports is a strict subset of what '
                            'was stored (get_data still answers for the hidden keys)' % c_.name))
    return res


class HandlerSrcDomain(small.SmallDomain):
    """collects, for the handlers of the root function, where the exceptions they receive originate"""

    def __init__(self, *a, **kw):
        small.SmallDomain.__init__(self, *a, **kw)
        self.handler_srcs = set()

    def transfer(self, node, state):
        if node.kind == 'join' and node.info.get('hkey') is not None and node.frame.parent is None:
            self.handler_srcs.add(state.extra.get('exc_src', '?'))
        return small.SmallDomain.transfer(self, node, state)
