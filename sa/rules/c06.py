"""C06 - Input lookup keys identify calls by alias and captured argument values only.

  C06.a  R-PROV      the key text derives only from alias / captured args / kwargs / capture configuration: no clock,
                     randomness, identity, hash(), environment, recorder state, memoisation on the key path
  C06.b  R-TAINT     raw argument values reach the key text only through the canonical serializer
  C06.c  R-DOM       keyword arguments pass through sorted(...) before they are serialized
  C06.d  R-DECISION  capture selection per cell (None / empty / list; static; by name if passed by keyword, else by position)
  C06.e  R-AGREE     fallback keys are built by the same key function with the same configuration and call arguments
  C06.f  R-TAINT     library-extended: the serializer sorts dict keys; it must not emit set elements in hash order
"""
import ast
import glob
import os

from ..report import Result, Finding
from ..loader import walk_own, norm, AnalysisError
from ..resolve import RepoPolicy
from .. import small

FORBIDDEN_CALLS = {'id', 'hash', 'time', 'random', 'uuid1', 'uuid4', 'getpid', 'get_ident', 'current_thread', 'urandom', 'getenv',
                   'utcnow', 'now', 'today', 'monotonic', 'perf_counter', 'getrandbits', 'randint', 'choice', 'shuffle'}
CACHE_DECOS = {'lru_cache', 'cache', 'cached', 'memoize', 'memoized', 'cached_property'}


def run(ctx):
    res = Result('C06')
    roles = ctx.roles
    repo = ctx.repo
    res.explanation = (
        'Decides what may flow into an input lookup key: the key builder and every repository function it reaches are scanned '
        'for non-argument sources (clock, randomness, identity, hash(), environment, instance state, memoisation); the captured '
        'collections must reach the text through jsonpickle.encode only, keyword arguments through sorted(); the capture '
        'selection is checked per guard cell on the builder\'s graph; fallback keys must be built like the main key; the resolved '
        'serializer is followed into the jsonpickle sources of the repository\'s environment for dict-key sorting and set '
        'iteration order. Not decided: injectivity of keys over runtime argument values and alias text.')
    res.not_decided = ['injectivity ("different calls never share a key"): depends on the serializer and on alias text not imitating the delimiters']
    res.assumptions = ['jsonpickle sources parsed from the repository environment (/venv) are the ones the package runs with']
    ca = res.clause('C06.a', 'R-PROV', 'no non-argument source on the key path', floor=2)
    cb = res.clause('C06.b', 'R-TAINT', 'raw values reach the key text only through encode', floor=2)
    cc = res.clause('C06.c', 'R-DOM', 'kwargs sorted before serialization', floor=1)
    cd = res.clause('C06.d', 'R-DECISION', 'capture selection per cell', floor=4)
    ce = res.clause('C06.e', 'R-AGREE', 'fallback keys built like the main key', floor=1)
    cf = res.clause('C06.f', 'R-TAINT', 'serializer canonical order (library extended)', floor=2)
    kb = roles.key_builders['input']
    fac, deco, cl = roles.closures['input']

    # ---------------- key path: functions reachable from the key builder and from the alias formatting
    pol = RepoPolicy(repo, ctx.excm())
    path = []

    def reach(fi, depth=0):
        if fi in path or depth > 5:
            return
        path.append(fi)
        for n in ast.walk(fi.node):
            if isinstance(n, ast.Call):
                tgt = None
                if isinstance(n.func, ast.Attribute) and isinstance(n.func.value, ast.Name):
                    c = repo.find_class(n.func.value.id) if n.func.value.id in repo.classes else None
                    if c is not None:
                        tgt = c.lookup(n.func.attr)
                    elif n.func.value.id in ('self', 'cls') and fi.cls is not None:
                        tgt = fi.cls.lookup(n.func.attr)
                elif isinstance(n.func, ast.Name):
                    tgt = fi.module.functions.get(n.func.id)
                    if tgt is None and n.func.id in fi.module.imports and fi.module.imports[n.func.id].startswith(repo.package + '.'):
                        dotted = fi.module.imports[n.func.id]
                        m2 = repo.modules.get(dotted.rsplit('.', 1)[0])
                        tgt = m2.functions.get(dotted.rsplit('.', 1)[1]) if m2 else None
                if tgt is not None:
                    reach(tgt, depth + 1)
    reach(kb)
    fmt = None
    for n in ast.walk(cl.node):
        if isinstance(n, ast.Call) and isinstance(n.func, ast.Attribute) and isinstance(n.func.value, ast.Name) and n.func.value.id == 'self' \
                and roles.cls.lookup(n.func.attr) is not None and 'alias' in n.func.attr:
            fmt = roles.cls.lookup(n.func.attr)
    if fmt is not None:
        reach(fmt)
    for fi in path:
        bad = []
        for n in ast.walk(fi.node):
            if isinstance(n, ast.Call):
                nm = n.func.attr if isinstance(n.func, ast.Attribute) else n.func.id if isinstance(n.func, ast.Name) else None
                if nm in FORBIDDEN_CALLS:
                    bad.append((n, 'call of %s()' % nm))
            if isinstance(n, ast.Attribute) and isinstance(n.value, ast.Name) and n.value.id in ('self', 'cls') and not fi.is_static and \
                    isinstance(n.ctx, ast.Load) and fi.cls is not None and fi.cls.lookup(n.attr) is None and fi.cls.lookup_const(n.attr) is None:
                bad.append((n, 'instance state self.%s' % n.attr))
            if isinstance(n, ast.Attribute) and n.attr == 'environ':
                bad.append((n, 'process environment'))
        for d in fi.decorators:
            if d.split('.')[-1] in CACHE_DECOS:
                bad.append((fi.node, 'memoisation decorator @%s (keyed by ==: equal-but-different values such as 2 / 2.0 / True share an entry)' % d))
        from . import recmodel as _rm
        for n_, what_ in _rm.stateful_constructs(fi):
            if 'mutable default' in what_:
                bad.append((n_, what_))
        # module-level mutable state used as a cache
        for n in ast.walk(fi.node):
            if isinstance(n, ast.Name) and isinstance(n.ctx, ast.Load) and n.id in fi.module.globals and \
                    isinstance(fi.module.globals[n.id], (ast.Dict, ast.Call)) and n.id not in ('_logger',):
                v = fi.module.globals[n.id]
                if isinstance(v, ast.Dict) or (isinstance(v, ast.Call) and norm(v.func).split('.')[-1] in CACHE_DECOS | {'dict', 'OrderedDict', 'defaultdict'}):
                    bad.append((n, 'module-level state `%s`' % n.id))
        ca.instance('%s: only argument-derived sources' % fi.qualname, fi.qualname, not bad)
        ca.evaluations += 1
        for n, what in bad[:3]:
            res.add(Finding('C06', 'C06.a', 'R-PROV', fi.file, fi.qualname, getattr(n, 'lineno', fi.node.lineno), norm(n)[:120] if not isinstance(n, ast.FunctionDef) else what,
                            'the input key depends on %s: structurally equal calls would get different keys in another process / at another '
                            'time, or different calls the same key' % what))

    # ---------------- C06.b / C06.c in the key builder
    rets = [n for n in walk_own(kb.node) if isinstance(n, ast.Return)]
    if len(rets) != 1:
        raise AnalysisError('key builder has %d return statements' % len(rets))
    ret = rets[0].value
    if not (isinstance(ret, ast.Call) and isinstance(ret.func, ast.Attribute) and ret.func.attr == 'format'):
        if isinstance(ret, ast.JoinedStr):
            parts = [v.value for v in ret.values if isinstance(v, ast.FormattedValue)]
        else:
            raise AnalysisError('key builder return shape not modelled: %s' % norm(ret))
    else:
        parts = list(ret.args) + [k.value for k in ret.keywords]
    defs = {}
    for n in walk_own(kb.node):
        if isinstance(n, ast.Assign) and isinstance(n.targets[0], ast.Name):
            defs.setdefault(n.targets[0].id, []).append(n.value)
    alias_p = kb.params[0]
    raw_ok = True
    why = []
    enc_args = []
    for p in parts:
        e = p
        hops = 0
        while isinstance(e, ast.Name) and e.id in defs and len(defs[e.id]) == 1 and hops < 3:
            e = defs[e.id][0]
            hops += 1
        if isinstance(e, ast.Name) and e.id == alias_p:
            why.append('alias')
            continue
        # a helper of the key path applied to the serialized text (the helper itself is scanned by C06.a)
        while isinstance(e, ast.Call) and len(e.args) == 1 and not e.keywords and isinstance(e.func, ast.Attribute) and \
                any(fi.name == e.func.attr for fi in path):
            e = e.args[0]
        if isinstance(e, ast.Call) and isinstance(e.func, ast.Name) and e.func.id == 'encode':
            from ..loader import expand_locals as _xl6
            enc_args.append(_xl6(kb.node, e.args[0]) if e.args else None)
            why.append('encode(%s)' % norm(e.args[0])[:50])
            continue
        raw_ok = False
        why.append('RAW %s' % norm(e)[:60])
    cb.instance('key text = alias + encode(...) parts: %s' % why, kb.qualname, raw_ok and len(enc_args) >= 2)
    cb.evaluations += len(parts)
    if not (raw_ok and len(enc_args) >= 2):
        res.add(Finding('C06', 'C06.b', 'R-TAINT', kb.file, kb.qualname, rets[0].lineno, norm(ret)[:160],
                        'a captured argument collection reaches the key text without passing through the canonical serializer (%s): '
                        'str()/repr() embed addresses and insertion order' % why))
    enc_calls = [n for n in ast.walk(kb.node) if isinstance(n, ast.Call) and isinstance(n.func, ast.Name) and n.func.id == 'encode']
    lossy = [n for n in enc_calls if any(not (k.arg == 'unpicklable' and isinstance(k.value, ast.Constant) and k.value.value is True) for k in n.keywords)]
    cb.instance('%d encode call(s) in the key builder keep type information (no lossy codec option)' % len(enc_calls), kb.qualname, not lossy)
    for n in lossy:
        res.add(Finding('C06', 'C06.b', 'R-TAINT', kb.file, kb.qualname, n.lineno, norm(n)[:120],
                        'the key text is produced with a lossy codec option (%s): arguments that differ only by type (1 / "1", tuple / list, two '
                        'classes with equal fields) get the same key' % ', '.join('%s=%s' % (k.arg, norm(k.value)) for k in n.keywords)))
    # each encode argument derives from the selected collections only
    params = set(kb.all_param_names)
    okd = True
    for a in enc_args:
        names = {x.id for x in ast.walk(a) if isinstance(x, ast.Name)} if a is not None else set()
        import builtins as _bi
        # functions (of the module, imported, builtin) are not data: what they are applied to is judged, they are not a source themselves
        unknown = {nm for nm in names if nm not in defs and nm not in params and nm not in ('k_v',) and not hasattr(_bi, nm) and
                   nm not in kb.module.functions and nm not in kb.module.imports}
        lam = {x.arg for l in ast.walk(a) if isinstance(l, ast.Lambda) for x in l.args.args} if a is not None else set()
        if unknown - lam:
            okd = False
    cb.instance('serialized collections derive from the captured args / kwargs only', kb.qualname, okd)
    if not okd:
        res.add(Finding('C06', 'C06.b', 'R-TAINT', kb.file, kb.qualname, rets[0].lineno, 'serialized key parts', 'a serialized key part reads a name that is neither a parameter nor derived from one'))
    # C06.c: the kwargs part is sorted
    kw_sorted = False
    kw_expr = None
    for a in enc_args:
        if a is None:
            continue
        txt = norm(a)
        if 'kwargs' in txt or 'items' in txt:
            kw_expr = a
            # sorted(...) at top (possibly list(sorted(...)))
            e = a
            while isinstance(e, ast.Call) and isinstance(e.func, ast.Name) and e.func.id in ('list', 'tuple') and e.args:
                e = e.args[0]
            if isinstance(e, ast.Call) and isinstance(e.func, ast.Name) and e.func.id == 'sorted':
                key = [k for k in e.keywords if k.arg == 'key']
                kw_sorted = True
                if key and isinstance(key[0].value, ast.Lambda):
                    # keyed by the name (element 0 of the item)
                    b = key[0].value.body
                    kw_sorted = isinstance(b, ast.Subscript) and isinstance(b.slice, ast.Constant) and b.slice.value == 0
    cc.instance('keyword part `%s` is sorted by name before encode' % (norm(kw_expr)[:70] if kw_expr is not None else '?'), kb.qualname, kw_sorted)
    cc.evaluations += 1
    if not kw_sorted:
        res.add(Finding('C06', 'C06.c', 'R-DOM', kb.file, kb.qualname, rets[0].lineno, norm(kw_expr)[:120] if kw_expr is not None else 'kwargs part',
                        'the keyword arguments are serialized without first being sorted by name: the key depends on the order in which '
                        'the caller passed them'))

    # ---------------- C06.b (process-wide codec state) nothing in the package reconfigures the serializer the keys are made with
    GLOBAL_CFG = {'set_encoder_options', 'set_decoder_options', 'set_preferred_backend', 'load_backend', 'remove_backend', 'enable_fallthrough'}
    cfg_sites = []
    for m_ in repo.modules.values():
        for n in ast.walk(m_.tree):
            if isinstance(n, ast.Call) and norm(n.func).split('.')[-1] in GLOBAL_CFG:
                cfg_sites.append((m_, n))
            if isinstance(n, ast.Call) and norm(n.func).endswith('handlers.register'):
                cfg_sites.append((m_, n))
    cb.instance('no module of the package changes the process-wide jsonpickle configuration', 'playback', not cfg_sites)
    cb.evaluations += len(repo.modules)
    for m_, n in cfg_sites[:2]:
        res.add(Finding('C06', 'C06.b', 'R-TAINT', m_.relpath, '<module>', n.lineno, norm(n)[:100],
                        '`%s` reconfigures the serializer for the whole process: the text of an input key then depends on whether (and when) this '
                        'module was imported, so recorder and replayer processes can disagree on the key of the same call' % norm(n)[:80]))
    # ---------------- C06.d capture selection on the builder's graph
    capture_selection(ctx, res, cd, kb)

    # ---------------- C06.e
    # the per-call wrapper together with the helper functions defined beside it that it calls
    called_here = {n.func.id for n in ast.walk(cl.node) if isinstance(n, ast.Call) and isinstance(n.func, ast.Name)}
    beside = [sib for nm_, sib in (cl.parent.nested.items() if cl.parent is not None else []) if not isinstance(sib, list) and sib is not cl and nm_ in called_here]
    kcalls = [n for f_ in [cl] + beside for n in ast.walk(f_.node) if isinstance(n, ast.Call) and isinstance(n.func, ast.Attribute) and n.func.attr == kb.name]
    if len(kcalls) < 1:
        raise AnalysisError('anchor-lost: input closure builds %d keys (main + fallback expected)' % len(kcalls))
    main = kcalls[0]
    oke = True
    for k in kcalls[1:]:
        same = [norm(a) for a in k.args[1:]] == [norm(a) for a in main.args[1:]] and \
            [(x.arg, norm(x.value)) for x in k.keywords] == [(x.arg, norm(x.value)) for x in main.keywords]
        oke = oke and same
    # ... and those call arguments are the call's own: `*args, **kwargs` of the per-call wrapper, handed on as they came
    va6, ka6 = cl.node.args.vararg.arg, cl.node.args.kwarg.arg
    own_args = True
    for k in kcalls:
        st_ = [a.value for a in k.args if isinstance(a, ast.Starred)]
        dk_ = [x.value for x in k.keywords if x.arg is None]
        if not (len(st_) == 1 and isinstance(st_[0], ast.Name) and st_[0].id in (va6, 'args') and len(dk_) == 1 and isinstance(dk_[0], ast.Name) and dk_[0].id in (ka6, 'kwargs')):
            own_args = False
            oke = False
    # one entry per intercepted call, under the key of that call: the store primitive is used by the executor, the output recorder and the
    # public record_data only - a decorator that writes further entries (the same value under the fallback keys, say) makes two aliases share
    # what only one of them recorded
    store = roles.record_data
    tr6 = ctx.repo.cls('TapeRecorder')
    allowed_callers = {roles.executor.qualname, roles.record_output.qualname}
    other_writers = []
    for f_ in ctx.repo.all_functions():
        if f_.module is not store.module or f_ is store:
            continue
        for n in walk_own(f_.node):
            if isinstance(n, ast.Call) and isinstance(n.func, ast.Attribute) and n.func.attr == store.name and isinstance(n.func.value, ast.Name) and n.func.value.id == 'self':
                public = not f_.name.startswith('_') and f_.cls is tr6 and f_.qualname.count('.') == 1
                if f_.qualname not in allowed_callers and not public:
                    other_writers.append((f_, n))
    ce.instance('entries are written by the executor / the output recorder / the public record_data only', store.qualname, not other_writers)
    for f_, n in other_writers[:1]:
        res.add(Finding('C06', 'C06.e', 'R-AGREE', f_.file, f_.qualname, n.lineno, norm(n)[:90],
                        '%s writes an entry of its own (`%s`) besides the one the executor records under the call\'s key: a value recorded for one alias / '
                        'argument list becomes the answer stored under another key' % (f_.qualname, norm(n)[:60])))
    # key text is a function of alias and captured arguments alone, the same in every process: nothing that varies between interpreter runs
    # (salted string hashes, object addresses, clocks, random numbers) goes into it
    volatile = [n for f_ in [kb] + [cl] + beside for n in ast.walk(f_.node) if isinstance(n, ast.Call) and (
        (isinstance(n.func, ast.Name) and n.func.id in ('hash', 'id')) or norm(n.func) in ('time.time', 'time', 'uuid.uuid4', 'uuid4', 'uuid.uuid1', 'uuid1', 'random.random', 'os.getpid'))]
    # (helpers of the key builder that the normaliser left as calls)
    for n in [x for x in ast.walk(kb.node) if isinstance(x, ast.Call) and isinstance(x.func, ast.Attribute) and isinstance(x.func.value, ast.Name) and
              x.func.value.id in ('self', 'TapeRecorder')]:
        h_ = ctx.repo.cls('TapeRecorder').lookup(n.func.attr)
        if h_ is not None and h_ is not kb:
            volatile += [y for y in ast.walk(h_.node) if isinstance(y, ast.Call) and isinstance(y.func, ast.Name) and y.func.id in ('hash', 'id')]
    ce.instance('key text holds nothing that differs between interpreter runs (hash(), id(), clock, random)', kb.qualname, not volatile)
    for n in volatile[:1]:
        res.add(Finding('C06', 'C06.e', 'R-AGREE', kb.file, kb.qualname, n.lineno, norm(n)[:80],
                        'the key contains `%s`, which differs between interpreter runs (string hashes are salted per process): the key built while '
                        'replaying in another process is not the key the entry was recorded under' % norm(n)[:60]))
    # fallback keys come from the key builder as well: a key derived from another key's text (replace / slicing / concatenation) rewrites
    # whatever else in that text happens to look like the alias
    derived = [n for f_ in [cl] + beside for n in ast.walk(f_.node) if isinstance(n, ast.Call) and isinstance(n.func, ast.Attribute) and
               n.func.attr in ('replace', 'sub', 'subn', 'translate') and isinstance(n.func.value, ast.Name) and
               any(isinstance(a_, ast.Assign) and any(isinstance(t_, ast.Name) and t_.id == n.func.value.id for t_ in a_.targets) and
                   isinstance(a_.value, ast.Call) and isinstance(a_.value.func, ast.Attribute) and a_.value.func.attr == kb.name for a_ in ast.walk(cl.node))]
    ce.instance('no key is derived from the text of another key', cl.qualname, not derived)
    for n in derived[:1]:
        res.add(Finding('C06', 'C06.e', 'R-AGREE', cl.file, cl.qualname, n.lineno, norm(n)[:90],
                        'a lookup key is derived from the text of the main key (`%s`): the rewriting also hits argument text that looks like the alias, so '
                        'the call is looked up under the key of a call with other arguments' % norm(n)[:70]))
    # the key is built from the arguments as they were passed: before the intercepted function runs, i.e. in the wrapper's own statements, not
    # inside a function object that is handed on and evaluated later
    deferred_k = [k for k in kcalls if any(isinstance(d_, (ast.Lambda, ast.FunctionDef)) and d_ is not cl.node and any(x is k for x in ast.walk(d_)) and
                                           not any(d_ is b_.node for b_ in beside) for d_ in ast.walk(cl.node))]
    ce.instance('keys are built in the wrapper itself, before the intercepted function is called (no deferred key construction)', cl.qualname, not deferred_k)
    for k in deferred_k[:1]:
        res.add(Finding('C06', 'C06.e', 'R-AGREE', cl.file, cl.qualname, k.lineno, norm(k)[:120],
                        'the key is built inside a function object that is evaluated later (after the intercepted function ran): a function that changes a '
                        'captured mutable argument in place is recorded under the changed value, while replay looks it up under the value as passed'))
    # replay compares the candidate keys with the recorded keys as they are (membership / equality), never after rewriting them
    rd6 = roles.reader
    rewrites = [n for n in ast.walk(rd6.node) if isinstance(n, ast.Call) and (
        (isinstance(n.func, ast.Attribute) and n.func.attr in ('sub', 'subn', 'replace', 'strip', 'lower', 'upper', 'casefold', 'translate', 'split') and
         not (isinstance(n.func.value, ast.Constant))) or norm(n.func).startswith('re.'))]
    ce.instance('replay looks keys up verbatim (no normalisation of key text)', rd6.qualname, not rewrites)
    for n in rewrites[:1]:
        res.add(Finding('C06', 'C06.e', 'R-AGREE', rd6.file, rd6.qualname, n.lineno, norm(n)[:100],
                        'the replay reader rewrites key text before comparing (`%s`): calls whose arguments differ only in what the rewriting removes '
                        'share one lookup key and are answered with each other\'s values' % norm(n)[:70]))
    ce.instance('%d further key construction(s) use the main key\'s configuration and call arguments' % (len(kcalls) - 1), cl.qualname, oke)
    if not own_args:
        res.add(Finding('C06', 'C06.e', 'R-AGREE', cl.file, cl.qualname, kcalls[0].lineno, norm(kcalls[0])[:140],
                        'the key is built from a rearranged form of the call (`%s`), not from the arguments as the caller passed them: the capture '
                        'selection (by position / by keyword name) is applied to something else than the documented call shape, so captured arguments '
                        'silently drop out of the key' % norm(kcalls[0])[:100]))
    # the aliases the keys are built from are those of this call: what the decoration was given (a list of fallback aliases) is shared by
    # every call and must not be written into while the candidates of one call are put together
    from . import common as _cm6
    fac6, deco6, _cl6 = roles.closures['input']
    shared_w = [(o_, x) for o_ in (fac6, deco6) for f_ in [cl] + beside for x in _cm6.closure_state_writes(o_.node, f_.node)]
    ce.instance('candidate aliases of a call are assembled without writing into objects shared by all calls', cl.qualname, not shared_w)
    for o_, (n_, nm_, what_) in shared_w[:1]:
        res.add(Finding('C06', 'C06.e', 'R-AGREE', cl.file, cl.qualname, n_.lineno, norm(n_)[:100],
                        'building the candidate keys of one call modifies `%s`, which every call of the decorated function shares (%s): aliases resolved '
                        'for earlier calls stay in it and become fallback aliases of later calls, which are then answered with values recorded for '
                        'another alias' % (nm_, what_)))
    ce.evaluations += len(kcalls)
    if not oke:
        res.add(Finding('C06', 'C06.e', 'R-AGREE', cl.file, cl.qualname, kcalls[1].lineno, norm(kcalls[1])[:160],
                        'a fallback key is not built with the same capture configuration / call arguments as the main key'))

    from . import c02
    oks, whys = c02.reader_scan(roles.reader)
    ce.instance('replay looks the candidate keys up in their own order (main key before fallbacks), not in recording order', roles.reader.qualname, oks, detail=whys)
    if not oks:
        res.add(Finding('C06', 'C06.e', 'R-AGREE', roles.reader.file, roles.reader.qualname, roles.reader.node.lineno, 'reader key scan',
                        whys + ': a call whose own key is recorded can be answered with the value recorded under another alias'))
    # ---------------- C06.f library-extended
    cand = sorted(glob.glob('/venv/lib/python*/site-packages/jsonpickle/pickler.py'))
    if not cand:
        raise AnalysisError('jsonpickle sources of the repository environment not found under /venv')
    pk = cand[-1]
    be = os.path.join(os.path.dirname(pk), 'backend.py')
    bt = ast.parse(open(be).read())
    sort_keys = any(isinstance(n, ast.Dict) and any(isinstance(k, ast.Constant) and k.value == 'sort_keys' and isinstance(v, ast.Constant) and v.value is True
                                                    for k, v in zip(n.keys, n.values)) for n in ast.walk(bt))
    cf.instance('jsonpickle backend encodes with sort_keys=True (dict insertion order canonicalised)', be, sort_keys)
    cf.evaluations += 1
    if not sort_keys:
        res.add(Finding('C06', 'C06.f', 'R-TAINT', be, 'JSONBackend.__init__', 1, 'encoder options', 'the JSON backend does not sort dict keys: keys depend on dict insertion order'))
    pt = ast.parse(open(pk).read())
    unordered = []
    for n in ast.walk(pt):
        if isinstance(n, ast.Dict):
            for k, v in zip(n.keys, n.values):
                if isinstance(k, ast.Attribute) and k.attr == 'SET' and isinstance(v, (ast.ListComp, ast.GeneratorExp)):
                    it = v.generators[0].iter
                    if not (isinstance(it, ast.Call) and isinstance(it.func, ast.Name) and it.func.id == 'sorted'):
                        unordered.append((n, v))
    cf.instance('jsonpickle flattens a set in a canonical order', pk, not unordered)
    cf.evaluations += 1
    for n, v in unordered:
        res.add(Finding('C06', 'C06.f', 'R-TAINT', 'site-packages/jsonpickle/pickler.py', 'Pickler._get_flattener', n.lineno, norm(n),
                        'a set argument is serialized by plain iteration: the order of string elements depends on PYTHONHASHSEED, so '
                        'structurally equal calls get different keys in recorder and replayer processes'))
    # ---- C06.g the alias a key is built from is the resolver-formatted one for every public decorator (shared with C02.k: options forwarded)
    from . import common as _cm6b
    _cm6b.import_clauses(ctx, res, 'C02', ['C02.k'], 'C06', 'C06.g', 'R-SIBLING', 'public decorators hand every option (alias resolver, capture list) to the shared factory', floor=2)
    return res


def capture_selection(ctx, res, cd, kb, prop='C06', cid='C06.d'):
    repo = ctx.repo
    excm = ctx.excm()

    class SelDomain(small.SmallDomain):
        def __init__(self, *a, **kw):
            small.SmallDomain.__init__(self, *a, **kw)
            self.enc = []
            self.writes = []

        def on_call_attempt(self, node, t, state):
            if t.label == 'lib:jsonpickle.encode':
                self.enc.append((node, state))
            c = node.ast
            if isinstance(c, ast.Call) and isinstance(c.func, ast.Attribute) and c.func.attr == 'append':
                self.writes.append(('append', node, state))
            return small.SmallDomain.on_call_attempt(self, node, t, state)

        def on_store(self, node, target, base, value, state):
            if isinstance(target, ast.Subscript):
                self.writes.append(('store', node, state))
            return state
    dom = small.analyse(repo, excm, kb, policy=RepoPolicy(repo, excm), domain=SelDomain)
    cd.evaluations += dom.visited_pairs
    cap, stat = kb.params[1], kb.params[2]
    va, ka = kb.node.args.vararg.arg, kb.node.args.kwarg.arg
    A = ('free', kb.qualname, va)
    K = ('free', kb.qualname, ka)
    CAP = ('free', kb.qualname, cap)
    ST = ('free', kb.qualname, stat)
    bad = {}
    seen = {'none-static': 0, 'none-instance': 0, 'empty': 0, 'list': 0}
    first_enc = {}
    for node, st in dom.enc:
        first_enc.setdefault(node.line, []).append((node, st))
    lines = sorted(first_enc)
    if len(lines) < 2:
        raise AnalysisError('key builder serializes %d collections (2 expected)' % len(lines))
    for node, st in first_enc[lines[0]]:
        args, kw = dom.arg_values(node.ast, node.frame, st)
        v = args[0] if args else None
        cn = st.facts.get(CAP, (None, None))
        sf = st.facts.get(ST, (None, None))[1]
        if cn[0] is True:
            want = A if sf is True else ('sub', A, '1:', None) if sf is False else None
            seen['none-static' if sf else 'none-instance'] += 1
            if want is None or v is None or v.name != want:
                bad.setdefault('capture_args None: positional part', (node, st, 'static=%s serialized=%s' % (sf, v.name if v is not None else None)))
        elif cn[0] is False and cn[1] is False:
            seen['empty'] += 1
            if v is None or v.kind != 'obj' or not (isinstance(v.name, tuple) and v.name[0] == 'lit' and v.name[-1] is True) or \
                    v.name in st.extra.get('dirty', frozenset()):
                bad.setdefault('capture_args empty: positional part must be empty', (node, st, str(v.name if v is not None else None)))
        elif cn[0] is False and cn[1] is True:
            seen['list'] += 1
        else:
            bad.setdefault('capture selection undecided', (node, st, 'capture_args facts %s' % (cn,)))
    # writes in the list branch: by name iff passed by keyword, else by position if it has one
    for kind, node, st in dom.writes:
        infact = [f[1] for k, f in st.facts.items() if isinstance(k, tuple) and k[0] == 'cmp' and k[1] == 'In' and k[3] == K]
        posfact = [f for k, f in st.facts.items() if isinstance(k, tuple) and k[0] == 'attr' and k[2] == 'position']
        if kind == 'store':
            if not (infact and all(x is True for x in infact)):
                bad.setdefault('by-name capture not decided by membership in kwargs', (node, st, 'membership facts %s' % infact))
        else:
            cargs, ckw = dom.arg_values(node.ast, node.frame, st)
            v = cargs[0] if cargs else None
            good = v is not None and v.kind == 'sym' and isinstance(v.name, tuple) and v.name[0] == 'sub' and v.name[1] == A and \
                isinstance(v.name[3], tuple) and v.name[3][0] == 'attr' and v.name[3][2] == 'position'
            if not good:
                bad.setdefault('by-position capture must take args[captured_arg.position]',
                               (node, st, 'captured value is %s' % (v.name if v is not None else None,)))
            # ... and under nothing stronger: a truth test drops position 0, a bounds test silently drops the argument
            stronger = [f for f in posfact if f[1] is not None] + \
                [k for k in st.facts if isinstance(k, tuple) and k[0] == 'cmp' and k[1] != 'In' and 'position' in str(k)]
            if stronger:
                bad.setdefault('by-position capture is taken under a condition stronger than "position is not None"',
                               (node, st, 'extra assumptions on the position: %s' % (stronger[:2],)))
            if not (infact and all(x is False for x in infact)) or not (posfact and all(f[0] is False for f in posfact)):
                bad.setdefault('by-position capture must follow "not passed by keyword" and "position is not None"',
                               (node, st, 'membership %s position %s' % (infact, posfact)))
    for cell, n in sorted(seen.items()):
        cd.instance('cell %s reached (%d states)' % (cell, n), kb.qualname, n > 0 and not any(cell.split('-')[0] in k for k in bad))
    cd.instance('list selection: by name iff passed by keyword, else by position if it has one (%d writes)' % len(dom.writes), kb.qualname,
                not any('capture' in k and 'by-' in k for k in bad) and len(dom.writes) >= 2)
    for k, (node, st, msg) in sorted(bad.items()):
        res.add(Finding(prop, cid, 'R-DECISION', kb.file, kb.qualname, node.line, k, 'capture selection deviates from the documented table: %s (%s)' % (k, msg),
                        witness=dom.path_to(node, st) if (node.id, st.key()) in dom.pred else None))


def key_codec_clause(ctx, res, clause, prop, cid):
    """the key text keeps type information: every encode call of the key builder uses the type-preserving options"""
    kb = ctx.roles.key_builders['input']
    enc_calls = [n for f in [kb] + [x for x in kb.nested.values() if not isinstance(x, list)] for n in ast.walk(f.node)
                 if isinstance(n, ast.Call) and isinstance(n.func, ast.Name) and n.func.id == 'encode']
    lossy = [n for n in enc_calls if any(not (k.arg == 'unpicklable' and isinstance(k.value, ast.Constant) and k.value.value is True) for k in n.keywords)]
    clause.instance('%d encode call(s) in the key builder keep type information' % len(enc_calls), kb.qualname, bool(enc_calls) and not lossy)
    clause.evaluations += len(enc_calls)
    seen = set()
    for n in lossy:
        if norm(n) in seen:
            continue
        seen.add(norm(n))
        res.add(Finding(prop, cid, 'R-TAINT', kb.file, kb.qualname, n.lineno, norm(n)[:120],
                        'the key text is produced with a lossy codec option (%s): calls whose arguments differ only by type (1 / "1", tuple / list, two '
                        'classes with equal fields) share one key, so one is answered with the value recorded for the other' % ', '.join(
                            '%s=%s' % (k.arg, norm(k.value)) for k in n.keywords)))
