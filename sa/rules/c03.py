"""C03 - Captured outputs are exactly what the executing code sent.

  C03.a  R-TYPESTATE  output decorator: on every intercepting path exactly one increment of the per-alias counter and one
                      output record whose ordinal is the counter value read after that increment (first ordinal 1)
  C03.b  R-PROV       the recorded entry carries the call's positional arguments (instance stripped iff non-static) and kwargs
  C03.c  R-MUSTPASS   operation decorator: every normal / ordinary-exception exit of a recorded or replayed run passed
                      exactly one operation-output record (ordinal 1, the operation alias)
  C03.d  R-AGREE      the extractor selects exactly the keys the output writer produces (not results, not inputs)
  C03.e  R-PROV       play() hands out the outputs list that was appended to during this run, extracted recorded outputs
                      come from the fetched recording
"""
import ast
import re

from ..report import Result, Finding
from ..loader import walk_own, norm, AnalysisError
from ..recorder import _self_attr
from . import recmodel as rm


def const_of(roles, name):
    c = roles.cls.lookup_const(name)
    return c.value if isinstance(c, ast.Constant) else None


from ..predeval import eval_pred, Undecidable


def fmt_template(tmpl, *vals):
    out = tmpl
    for v in vals:
        out = out.replace('{}', str(v), 1)
    return out


def run(ctx):
    res = Result('C03')
    roles = ctx.roles
    res.explanation = (
        'Decides the numbering / content / extraction skeleton of output capture: one counter increment and one output '
        'record per intercepted output call with the ordinal read after the increment; the recorded entry built from the '
        'call\'s own arguments; one operation-output record per completed run; writer key language vs extractor filter '
        '(evaluated on analyser-generated sample keys, ordinals 1..123); play() returning this run\'s list. '
        'Not decided: value equality of captured arguments; counter races across threads.')
    res.not_decided = ['value equality of the captured arguments', 'races on the counter when one alias is called from two threads']
    res.assumptions = ['raise policy of DESIGN 3.3', 'per-run counter fresh at scope start (C09)']
    ca = res.clause('C03.a', 'R-TYPESTATE', 'one counter increment and one output record per intercepted output call; ordinal read after increment', floor=2)
    cb = res.clause('C03.b', 'R-PROV', 'recorded entry = positional args (instance stripped iff non-static) + kwargs', floor=2)
    cc = res.clause('C03.c', 'R-MUSTPASS', 'exactly one operation-output record on every normal / ordinary-exception exit of a run', floor=2)
    cd = res.clause('C03.d', 'R-AGREE', 'extractor filter selects exactly the writer\'s output keys', floor=6)
    ce = res.clause('C03.e', 'R-PROV', 'play() returns this run\'s outputs list and extracts from the fetched recording', floor=2)
    fac, deco, cl = roles.closures['output']
    ro = roles.record_output
    # parameter roles of record_output: (alias, ordinal, args, kwargs, handler) by position
    p_alias, p_ord, p_args, p_kwargs = ro.params[1:5]
    base_atoms = set(rm.recorder_excm(ctx).base_only)
    fw_atoms = set(rm.recorder_excm(ctx).framework)

    # the option of the factory that says "no instance in front of the arguments": the name tested where `args` / `args[1:]` is chosen
    va0 = cl.node.args.vararg.arg
    static_opt = None
    for n in ast.walk(cl.node):
        if isinstance(n, (ast.IfExp, ast.If)):
            arms = ([n.body, n.orelse] if isinstance(n, ast.IfExp) else
                    [x.value for b_ in (n.body, n.orelse) for x in b_ if isinstance(x, ast.Assign)])
            whole = any(isinstance(a, ast.Name) and a.id == va0 for a in arms)
            tail = any(isinstance(a, ast.Subscript) and isinstance(a.value, ast.Name) and a.value.id == va0 and isinstance(a.slice, ast.Slice) for a in arms)
            names = [x.id for x in ast.walk(n.test) if isinstance(x, ast.Name)]
            if whole and tail and len(names) == 1 and names[0] in fac.all_param_names:
                static_opt = names[0]
    if static_opt is None:
        static_opt = 'static_function'
    for variant in ('recording', 'playback'):
        d = rm.run_closure(ctx, 'output', variant, track_free=(static_opt,))
        ca.evaluations += d.visited_pairs
        bad = None
        nint = 0
        for n, s in d.exits:
            e, i = rm.initial_flags(d, s)
            if i is True or (variant == 'recording' and e is False):
                continue
            nint += 1
            inc = d.n(s, 'counter-inc')
            rec = d.n(s, 'enter:record_output')
            if (inc != 1 or rec != 1) and bad is None:
                bad = (n, s, 'counter increments=%d output records=%d' % (inc, rec))
        ca.instance('output decorator (%s): 1 increment + 1 record on %d intercepting exits' % (variant, nint), cl.qualname, bad is None)
        # what is captured is what was *sent*: the call is recorded before the output function gets to run (it may consume, change or
        # remove what it was given - and replay, which never runs it, captures the call at this very point)
        late = None
        nb = 0
        for node_, t_, st_, st_in_ in d.at_calls:
            if t_.role != 'body':
                continue
            e_, i_ = rm.initial_flags(d, st_in_)
            if i_ is True or (variant == 'recording' and e_ is False) or not rm.interception_due(d, st_in_):
                continue
            ac_ = st_in_.env.get(('F', 'self', roles.active))
            alive = ac_ is not None and d.is_none(ac_, st_in_) is False
            if variant == 'recording' and not alive:
                continue
            nb += 1
            if d.n(st_in_, 'enter:record_output') < 1:
                late = late or (node_, st_in_)
        if variant == 'recording':
            ca.instance('output decorator (%s): the call is captured before the output function runs (%d body-call states)' % (variant, nb), cl.qualname,
                        late is None)
            if late:
                node_, st_ = late
                res.add(Finding('C03', 'C03.a', 'R-ORDER', cl.file, cl.qualname, node_.line, ast.unparse(node_.ast)[:100],
                                'the intercepted output function runs before its call was captured: a function that drains, changes or removes what it was '
                                'given makes the recorded entry differ from what was sent (and from what replay captures at call time)',
                                witness=d.path_to(node_, st_) if (node_.id, st_.key()) in d.pred else None))
        if bad:
            n, s, msg = bad
            res.add(Finding('C03', 'C03.a', 'R-TYPESTATE', cl.file, cl.qualname, cl.node.lineno,
                            'output decorator (%s): %s' % (variant, msg),
                            'an intercepted output call must be numbered once and recorded once', witness=d.path_to(n, s),
                            entry=cl.qualname, exit=rm.exit_kind(n)))
        # state at the record call: ordinal, alias, args, kwargs
        bad_ord = bad_args = None
        alias_sym = ('free', fac.qualname, 'alias')
        va, ka = cl.node.args.vararg.arg, cl.node.args.kwarg.arg
        args_sym = ('free', cl.qualname, va)
        kwargs_sym = ('free', cl.qualname, ka)
        seen = 0
        for node, st in d.at_enters:
            callee = node.info['callee']
            if callee.func is not ro or callee.parent is not d.g.root:
                continue
            seen += 1
            g = lambda p: st.env.get(('L', callee.id, p))
            o = g(p_ord)
            a = g(p_alias)
            if not (o is not None and o.name == ('counter-read', 1, alias_sym) and a is not None and a.name == alias_sym):
                bad_ord = bad_ord or (node, st, 'alias=%s ordinal=%s' % (a.name if a else None, o.name if o else None))
            av, kv = g(p_args), g(p_kwargs)
            stat = st.facts.get(('free', fac.qualname, static_opt), (None, None))[1]
            want = args_sym if stat is True else ('sub', args_sym, '1:', None) if stat is False else None
            if want is None or av is None or av.name != want or kv is None or kv.name != kwargs_sym:
                bad_args = bad_args or (node, st, 'static=%s args=%s kwargs=%s' % (stat, av.name if av else None, kv.name if kv else None))
        ca.instance('output decorator (%s): ordinal = counter[alias] read after its increment, keyed by own alias' % variant,
                    cl.qualname, bad_ord is None and seen > 0, detail='%d call states' % seen)
        cb.instance('output decorator (%s): record receives args (instance stripped iff non-static) and kwargs' % variant,
                    cl.qualname, bad_args is None and seen > 0, detail='%d call states' % seen)
        cb.evaluations += seen
        if seen == 0:
            raise AnalysisError('anchor-lost: output decorator never reaches the output recorder (%s)' % variant)
        if bad_ord:
            node, st, msg = bad_ord
            res.add(Finding('C03', 'C03.a', 'R-TYPESTATE', node.file, node.frame.func.qualname, node.line, ast.unparse(node.ast),
                            'output ordinal is not the per-alias counter value read after exactly one increment (%s): ordinals '
                            'would not start at 1 / would be shared between aliases' % msg))
        if bad_args:
            node, st, msg = bad_args
            res.add(Finding('C03', 'C03.b', 'R-PROV', node.file, node.frame.func.qualname, node.line, ast.unparse(node.ast),
                            'recorded output arguments are not the call\'s own positional arguments with the instance stripped '
                            'iff non-static, and its kwargs (%s)' % msg))

    # ---- C03.b inside the recorder: the stored / appended value is built from its args and kwargs parameters
    ok, why = entry_content(ro, p_args, p_kwargs, roles.record_data.name)
    cb.instance('output recorder: entry value built from its args and kwargs (or prepare_output(key, args, kwargs))', ro.qualname, ok, detail=why)
    if not ok:
        res.add(Finding('C03', 'C03.b', 'R-PROV', ro.file, ro.qualname, ro.node.lineno, 'output entry value', why))

    # ---- C03.c
    op_alias = const_of(roles, 'OPERATION_OUTPUT_ALIAS')
    fac_o, deco_o, cl_o = roles.closures['operation']
    for variant in ('idle', 'playback'):
        d = rm.run_closure(ctx, 'operation', variant) if variant == 'idle' else rm.run_closure(ctx, 'operation', 'playback', track_free=('run_intercepted_when_missing', 'value_when_missing', 'fail_on_no_recorded_result', 'default_result_when_not_recorded'))
        cc.evaluations += d.visited_pairs
        bad = None
        cnt = 0
        for n, s in d.exits:
            ek = rm.exit_kind(n)
            in_scope = variant == 'playback' or d.n(s, 'enter:start_recording') >= 1
            if not in_scope:
                continue
            if ek != 'return':
                atom = ek[6:]
                src = str(s.extra.get('exc_src', ''))
                if atom in base_atoms or not src.startswith('user-body:') and not src.startswith('raise OperationExceptionDuringPlayback'):
                    continue
                if atom in fw_atoms and not src.startswith('raise OperationExceptionDuringPlayback'):
                    continue      # framework-typed exception of the operation: reported under C18 (known finding D12)
            cnt += 1
            rec = d.n(s, 'enter:record_output')
            if rec != 1 and bad is None:
                bad = (n, s, rec)
        cc.instance('operation decorator (%s): 1 operation-output record on %d completed-run exits' % (
            'recording' if variant == 'idle' else 'replay', cnt), cl_o.qualname, bad is None and cnt > 0)
        if bad:
            n, s, rec = bad
            res.add(Finding('C03', 'C03.c', 'R-MUSTPASS', cl_o.file, cl_o.qualname, cl_o.node.lineno,
                            'operation decorator (%s): %d operation-output records at exit %s' % (variant, rec, rm.exit_kind(n)),
                            'a completed run (returned or raised an ordinary exception) must carry exactly one operation-output entry',
                            witness=d.path_to(n, s), entry=cl_o.qualname, exit=rm.exit_kind(n)))
        # alias / ordinal of the operation record
        badp = None
        seen = 0
        for node, st in d.at_enters:
            callee = node.info['callee']
            if callee.func is not ro:
                continue
            a = st.env.get(('L', callee.id, p_alias))
            o = st.env.get(('L', callee.id, p_ord))
            seen += 1
            if not (a is not None and a.kind == 'const' and a.name == op_alias and o is not None and o.kind == 'const' and o.name == 1):
                badp = badp or (node, st)
        if variant == 'idle':
            cc.instance('operation record uses the operation alias constant and ordinal 1', roles.op_executor.qualname,
                        badp is None and seen > 0, detail='%d call states' % seen)
            if badp:
                node, st = badp
                res.add(Finding('C03', 'C03.c', 'R-MUSTPASS', node.file, node.frame.func.qualname, node.line, ast.unparse(node.ast),
                                'the operation-output entry is not recorded under the operation alias constant with ordinal 1'))

    rm.replay_idle_clause(ctx, res, 'C03', 'C03.f', 'every exit of play() resets counter / outputs / playback recording (ordinals restart at 1)')
    rm.interception_flag_clause(ctx, res, 'C03', 'C03.g')
    rm.extractor_runs_idle_clause(ctx, res, 'C03', 'C03.i')
    rm.api_leaves_replay_state_clause(ctx, res, 'C03', 'C03.j')
    rm.ordinals_only_when_intercepted_clause(ctx, res, 'C03', 'C03.k')
    from . import common as _ci
    _ci.import_clauses(ctx, res, 'C20', ['C20.a', 'C20.e', 'C20.f'], 'C03', 'C03.m', 'R-DECISION',
                       'file data handler: content is captured for every file within the configured limit (limit source and size test)', floor=4)
    _ci.import_clauses(ctx, res, 'C11', ['C11.b'], 'C03', 'C03.n', 'R-WHOCALLS',
                       'recorded outputs handed to the caller of play() are copies: the stored entries cannot be changed through them', floor=1)
    _ci.import_clauses(ctx, res, 'C07', ['C07.c'], 'C03', 'C03.o', 'R-PROV',
                       'a fetch returns a fresh decoding of what is stored (no kept object that an earlier caller may have changed)', floor=3)
    _ci.import_clauses(ctx, res, 'C12', ['C12.a', 'C12.d'], 'C03', 'C03.l', 'R-ORDER',
                       'recording through the asynchronous cassette stores every captured entry (each buffered write applied once, in order)', floor=2)
    # ---- C03.h the helpers that build the operation entry and the keys keep no state between calls
    ch = res.clause('C03.h', 'R-PROV', 'capture helpers (exception form, key builders) are stateless', floor=2)
    helpers = [roles.key_builders['output'], roles.key_builders['input']]
    for n in ast.walk(roles.op_executor.node):
        if isinstance(n, ast.Call) and isinstance(n.func, ast.Attribute) and roles.cls.lookup(n.func.attr) is not None and \
                roles.cls.lookup(n.func.attr).is_static and roles.cls.lookup(n.func.attr) not in helpers:
            helpers.append(roles.cls.lookup(n.func.attr))
    # the fallback form of an exception that cannot be serialised identifies it by its repr (type and arguments), not by its message only
    for h in helpers:
        for d_ in [n for n in ast.walk(h.node) if isinstance(n, ast.Dict)]:
            for k_, v_ in zip(d_.keys, d_.values):
                if isinstance(k_, ast.Constant) and isinstance(k_.value, str) and 'repr' in k_.value:
                    okr = isinstance(v_, ast.Call) and isinstance(v_.func, ast.Name) and v_.func.id == 'repr'
                    ch.instance('%s: `%s` holds repr(<exception>)' % (h.qualname, k_.value), h.qualname, okr)
                    if not okr:
                        res.add(Finding('C03', 'C03.h', 'R-PROV', h.file, h.qualname, v_.lineno, norm(v_)[:80],
                                        'the fallback form of an unserialisable exception stores `%s` under %r: exceptions that differ only in what the '
                                        'message does not show (other arguments) are recorded identically, so a changed raised exception is not seen '
                                        'as a difference' % (norm(v_)[:60], k_.value)))
    for h in helpers:
        bad = rm.stateful_constructs(h)
        ch.instance('%s keeps no state across calls' % h.qualname, h.qualname, not bad)
        ch.evaluations += 1
        for n, what in bad[:2]:
            res.add(Finding('C03', 'C03.h', 'R-PROV', h.file, h.qualname, getattr(n, 'lineno', h.node.lineno), what,
                            'a helper on the capture path keeps state between calls (%s): what is captured for one call then depends on earlier '
                            'calls (e.g. an exception class once found unserializable is degraded for ever)' % what))
    # ---- C03.d
    extractor_agreement(ctx, res, cd, roles, cl)

    # ---- C03.e
    dp = rm.run_method(ctx, roles.play, 'idle')
    ce.evaluations += dp.visited_pairs
    bad = None
    seen = 0
    for node, t, st, st_in in dp.at_calls:
        if t.label != 'ctor:Playback':
            continue
        seen += 1
        args, kwargs = dp.arg_values(node.ast, node.frame, st_in)
        a0 = args[0] if args else kwargs.get('playback_outputs')
        if a0 is None or a0.name != ('havoc', 'outputs-after-body'):
            bad = bad or (node, st_in, a0)
    ce.instance('play(): Playback receives the outputs list filled during this run', roles.play.qualname, bad is None and seen > 0,
                detail='%d call states' % seen)
    if bad:
        node, st, a0 = bad
        res.add(Finding('C03', 'C03.e', 'R-PROV', node.file, node.frame.func.qualname, node.line, ast.unparse(node.ast),
                        'play() does not hand out the playback outputs list that was appended to during this run'))
    ok, why = recorded_outputs_source(roles)
    ce.instance('play(): recorded outputs extracted from the recording fetched for this id', roles.play.qualname, ok, detail=why)
    if not ok:
        res.add(Finding('C03', 'C03.e', 'R-PROV', roles.play.file, roles.play.qualname, roles.play.node.lineno, 'recorded outputs source', why))
    from . import common as _r7
    _r7.import_clauses(ctx, res, 'C01', ['C01.g'], 'C03', 'C03.p', 'R-AGREE', 'the copy through which recorded outputs are read returns an equal value', floor=1)
    _r7.import_clauses(ctx, res, 'C05', ['C05.c'], 'C03', 'C03.q', 'R-MUSTPASS', 'an output sent while recording is captured (or the recording discarded) whatever the sampling state', floor=1)
    return res


def entry_content(ro, p_args, p_kwargs, record_name='_record_data'):
    """every value stored / appended by the output recorder derives from both the args and kwargs parameters"""
    fn = ro.node
    # find the local that is stored (argument of Output(...) / of the record call)
    vals = set()
    for n in ast.walk(fn):
        if isinstance(n, ast.Call) and isinstance(n.func, ast.Name) and n.func.id == 'Output' and len(n.args) >= 2 and isinstance(n.args[1], ast.Name):
            vals.add(n.args[1].id)
        if isinstance(n, ast.Call) and isinstance(n.func, ast.Attribute) and n.func.attr == record_name and len(n.args) >= 2 and isinstance(n.args[1], ast.Name):
            vals.add(n.args[1].id)
    if len(vals) != 1:
        return False, 'replay capture and recording store do not share one entry value (%s)' % sorted(vals)
    v = vals.pop()
    assigns = [n for n in walk_own(fn) if isinstance(n, ast.Assign) and any(isinstance(t, ast.Name) and t.id == v for t in n.targets)]
    if not assigns:
        return False, 'entry value `%s` is never assigned' % v
    for a in assigns:
        names = {x.id for x in ast.walk(a.value) if isinstance(x, ast.Name)}
        if p_args not in names or p_kwargs not in names:
            return False, 'entry value `%s = %s` does not use both `%s` and `%s`' % (v, norm(a.value), p_args, p_kwargs)
    return True, 'entry value `%s` built from %s and %s in %d assignment(s), shared by recording and replay' % (v, p_args, p_kwargs, len(assigns))


def recorded_outputs_source(roles):
    fn = roles.play.node
    fetched = None
    for n in walk_own(fn):
        if isinstance(n, ast.Assign) and isinstance(n.value, ast.Call) and isinstance(n.value.func, ast.Attribute) and \
                n.value.func.attr == 'get_recording' and isinstance(n.targets[0], ast.Name):
            fetched = n.targets[0].id
    if fetched is None:
        return False, 'play() does not bind the fetched recording to a local'
    for n in ast.walk(fn):
        if isinstance(n, ast.Call) and isinstance(n.func, ast.Attribute) and n.func.attr == roles.extractor.name:
            if n.args and isinstance(n.args[0], ast.Name) and n.args[0].id == fetched:
                da = [k for k in n.keywords if k.arg == 'direct_access']
                return True, 'extractor applied to `%s`' % fetched
            return False, 'recorded outputs are extracted from `%s`, not from the fetched recording `%s`' % (
                norm(n.args[0]) if n.args else '?', fetched)
    return False, 'play() does not call the output extractor'


def extractor_agreement(ctx, res, cd, roles, out_closure):
    ex = roles.extractor
    module = ex.module
    kb_out = roles.key_builders['output']
    kb_in = roles.key_builders['input']

    def template(fi):
        for n in walk_own(fi.node):
            if isinstance(n, ast.Return):
                for k in ast.walk(n.value):
                    if isinstance(k, ast.Constant) and isinstance(k.value, str) and '{}' in k.value:
                        return k.value
        raise AnalysisError('anchor-lost role=key-template of %s' % fi.qualname)
    t_out, t_in = template(kb_out), template(kb_in)
    # suffixes appended to the output key by its users
    suffixes = {}
    for fi in (roles.record_output, out_closure):
        from ..loader import expand_locals as _xl3
        for n in ast.walk(fi.node):
            if isinstance(n, ast.BinOp) and isinstance(n.op, ast.Add) and isinstance(n.right, ast.Constant) and isinstance(n.right.value, str):
                left = _xl3(fi.node, n.left) if isinstance(n.left, ast.Name) else n.left      # (through an explaining variable)
                if isinstance(left, ast.Call) and isinstance(left.func, ast.Attribute) and left.func.attr == kb_out.name:
                    suffixes[fi.qualname] = n.right.value
    if len(suffixes) != 2:
        raise AnalysisError('anchor-lost role=output key suffixes (found %s)' % suffixes)
    s_entry = suffixes[roles.record_output.qualname]
    s_result = suffixes[out_closure.qualname]
    # the filter predicate of the extractor: condition(s) of the comprehension / loop over get_all_keys()
    pred = None
    var = None
    for n in ast.walk(ex.node):
        if isinstance(n, ast.comprehension) and isinstance(n.iter, ast.Call) and isinstance(n.iter.func, ast.Attribute) and \
                n.iter.func.attr == 'get_all_keys':
            var = n.target.id
            pred = ast.BoolOp(op=ast.And(), values=list(n.ifs)) if n.ifs else ast.Constant(value=True)
    if pred is None:
        raise AnalysisError('anchor-lost role=extractor key filter')
    op_alias = const_of(roles, 'OPERATION_OUTPUT_ALIAS')
    samples = []
    for alias in ('a', 'send mail', 'x.result', op_alias or 'op'):
        for k in (1, 2, 9, 10, 11, 99, 100, 123):
            base = fmt_template(t_out, alias, k)
            samples.append((base + s_entry, True, 'output entry alias=%r ordinal=%d' % (alias, k)))
            samples.append((base + s_result, False, 'output result alias=%r ordinal=%d' % (alias, k)))
    samples.append((fmt_template(t_in, 'a', '[1]', '[]'), False, 'input key'))
    samples.append((fmt_template(t_in, 'output: a #1.output', '[1]', '[]'), False, 'input key with adversarial alias'))
    wrong = []
    try:
        for key, expect, what in samples:
            got = bool(eval_pred(pred, {var: key}, module))
            cd.evaluations += 1
            if got != expect:
                wrong.append((key, expect, what))
    except Undecidable as u:
        raise AnalysisError('extractor key filter uses a construct the predicate evaluator does not model: %s' % u)
    groups = {}
    for key, expect, what in samples:
        g = what.split(' alias')[0]
        groups.setdefault(g, [0, 0])
        groups[g][0] += 1
    for key, expect, what in wrong:
        groups[what.split(' alias')[0]][1] += 1
    for g, (tot, bad) in sorted(groups.items()):
        cd.instance('extractor filter on %d sample keys: %s %s' % (tot, g, 'selected' if g == 'output entry' else 'rejected'),
                    ex.qualname, bad == 0, detail='%d disagree' % bad)
    cd.instance('writer templates: output %r (+%r / +%r), input %r' % (t_out, s_entry, s_result, t_in), kb_out.qualname, True)
    cd.instance('output and input key templates have different prefixes', kb_in.qualname,
                t_out.split('{}')[0] != t_in.split('{}')[0][:len(t_out.split('{}')[0])])
    if wrong:
        key, expect, what = wrong[0]
        res.add(Finding('C03', 'C03.d', 'R-AGREE', ex.file, ex.qualname, ex.node.lineno, norm(pred),
                        'the extractor\'s key filter disagrees with the writer\'s key language on %d of %d sample keys, e.g. %r '
                        '(%s) is %s' % (len(wrong), len(samples), key, what, 'not selected' if expect else 'selected')))
