"""C10 - Lookup returns exactly the matching recordings, identically on all cassettes (sibling agreement).

  C10.a  R-SIBLING   category exactness: membership decided by equality with the category extracted from the id, or by a
                     storage prefix that ends with the id delimiter right after the category
  C10.b  R-SIBLING   one matcher: every listing routes the metadata filter through the shared matcher (see C14.c)
  C10.c  R-SENTINEL  "no limit" is None: limit is never tested by truthiness (limit = 0 yields nothing everywhere)
  C10.d  R-AGREE     yielded ids are the stored ids: S3 parses listed keys with a parser derived from the template that
                     formats them, and no parsed field can be empty
  C10.f  R-AGREE     the default lookup adds the skip-incomplete alternative and passes category / dates / limit / order unchanged
"""
import ast
import re
import string

from ..report import Result, Finding
from ..loader import walk_own, norm, AnalysisError
from ..resolve import RepoPolicy
from ..cfg import Target
from ..predeval import eval_pred, Undecidable
from .. import small


def self_attr(e):
    if isinstance(e, ast.Attribute) and isinstance(e.value, ast.Name) and e.value.id == 'self':
        return e.attr
    return None


class ListingPolicy(RepoPolicy):
    def decide_inline(self, func, call, frame):
        return func.name not in ('extract_recording_category', 'get_recording', 'match_against_recorded_metadata')

    def summary_target(self, fi, call, frame):
        return Target('opaque', 'repo-summary:' + fi.qualname, raises=frozenset(), role='summary', func=fi)


class ListingDomain(small.SmallDomain):
    def __init__(self, *a, **kw):
        small.SmallDomain.__init__(self, *a, **kw)
        self.adds = []

    def on_call_attempt(self, node, t, state):
        c = node.ast
        if isinstance(c, ast.Call) and isinstance(c.func, ast.Attribute) and c.func.attr == 'append':
            self.adds.append((node, state))
        return small.SmallDomain.on_call_attempt(self, node, t, state)

    def on_stmt(self, node, state):
        if node.kind == 'yield':
            self.adds.append((node, state))
        return state


def run(ctx):
    res = Result('C10')
    repo = ctx.repo
    res.explanation = (
        'Decides the sibling agreement of the three iter_recording_ids implementations and the lookup helper: on every path '
        'that adds an id to the result the category has been compared for equality with the category extracted from that id '
        '(in-memory, file) or the listing prefix is the category followed by the id delimiter (S3); the shared matcher is used; '
        'limit is compared, never tested by truthiness; the S3 key parser is derived from the writer\'s template with no '
        'possibly-empty field and inverts it on sample keys; the helper forwards its arguments unchanged. Not decided: set '
        'equality on concrete stores, boto listing semantics, randomness of random_results.')
    res.not_decided = ['set equality of results on concrete stores (runtime)', 'boto listing semantics', 'randomness of random_results',
                       'absence of duplicates beyond one pass over a keyed store / disjoint day prefixes']
    ca = res.clause('C10.a', 'R-SIBLING', 'category exactness in every listing', floor=3)
    cb = res.clause('C10.b', 'R-SIBLING', 'every listing uses the shared matcher', floor=3)
    cc = res.clause('C10.c', 'R-SENTINEL', 'limit never tested by truthiness', floor=3)
    cd = res.clause('C10.d', 'R-AGREE', 'S3 key parser inverts the key template; no possibly-empty field', floor=3)
    cf = res.clause('C10.f', 'R-AGREE', 'lookup helper forwards category / dates / limit / order unchanged', floor=5)
    mem, fil, s3 = repo.cls('InMemoryTapeCassette'), repo.cls('FileBasedTapeCassette'), repo.cls('S3TapeCassette')
    excm = ctx.excm(['playback.tape_cassette'])
    pol = ListingPolicy(repo, excm)

    category_exactness_loops(ctx, res, ca, 'C10', 'C10.a', pol, excm, (mem, fil))
    # S3: prefix = category + delimiter
    gp = None
    for m in s3.methods.values():
        if any(self_attr(n) == 'DAY_FORMAT' for n in ast.walk(m.node)) and m.name != 'create_new_recording':
            gp = m
    if gp is None:
        raise AnalysisError('anchor-lost role=S3 id prefix construction')
    fmts = [n for n in ast.walk(gp.node) if isinstance(n, ast.Call) and isinstance(n.func, ast.Attribute) and n.func.attr == 'format'
            and isinstance(n.func.value, ast.Constant)]
    catp = gp.params[1]
    if not fmts:
        raise AnalysisError('S3 listing prefixes are not built by constant format templates: shape not modelled')
    oks = bool(fmts)
    why = []
    for f in fmts:
        t = f.func.value.value
        first_is_cat = f.args and isinstance(f.args[0], ast.Name) and f.args[0].id == catp
        good = t.startswith('{}/') and t.endswith('/') and first_is_cat
        why.append('%r(%s)' % (t, norm(f.args[0]) if f.args else ''))
        oks = oks and good
    ca.instance('S3: listing prefixes are `<category>/...` ending with the delimiter: %s' % ', '.join(why), gp.qualname, oks)
    ca.evaluations += len(fmts)
    if not oks:
        res.add(Finding('C10', 'C10.a', 'R-SIBLING', gp.file, gp.qualname, gp.node.lineno, '; '.join(why),
                        'an S3 listing prefix is not the category immediately followed by the id delimiter: a category that is a prefix '
                        'of another would list both'))
    # file cassette: the listing looks at file names (a prefix test with the category before the recording is opened), so the name must start
    # with the category as given: the path function may rewrite the id delimiter only (a category never contains it)
    from ..loader import expand_locals as _xl10
    for pm in [m for m in fil.methods.values() if len(m.params) == 2 and not m.is_property and
               any(isinstance(r, ast.Return) and r.value is not None and any(self_attr(x) == 'directory' for x in ast.walk(r.value)) for r in walk_own(m.node))]:
        idp = pm.params[1]
        rewrites = []
        for r in [r for r in walk_own(pm.node) if isinstance(r, ast.Return) and r.value is not None]:
            e_ = _xl10(pm.node, r.value)
            for n in ast.walk(e_):
                if isinstance(n, ast.Call) and any(isinstance(x, ast.Name) and x.id == idp for x in ast.walk(n)) and \
                        norm(n.func) not in ('os.path.join', 'str', 'six.text_type', 'os.path.normpath') and not (isinstance(n.func, ast.Attribute) and n.func.attr == 'format'):
                    only_delim = isinstance(n.func, ast.Attribute) and n.func.attr == 'replace' and isinstance(n.func.value, ast.Name) and n.func.value.id == idp and \
                        len(n.args) == 2 and isinstance(n.args[0], ast.Constant) and n.args[0].value == '/' and isinstance(n.args[1], ast.Constant) and \
                        isinstance(n.args[1].value, str) and '/' not in n.args[1].value
                    if not only_delim:
                        rewrites.append(n)
        ca.instance('file cassette: the file name is the id with only the delimiter rewritten (listing tests file names against the category)', pm.qualname, not rewrites)
        ca.evaluations += 1
        for n in rewrites[:1]:
            res.add(Finding('C10', 'C10.a', 'R-SIBLING', pm.file, pm.qualname, getattr(n, 'lineno', pm.node.lineno), norm(n)[:90],
                            'the file name is derived from the id by `%s`, which changes more than the id delimiter: the listing selects files whose name '
                            'starts with the category as given, so recordings of a category containing a rewritten character are saved but never listed' % norm(n)[:70]))
    # ---------------- C10.b
    for c in (mem, fil, s3):
        users = []
        for m in c.methods.values():
            for n in ast.walk(m.node):
                if isinstance(n, ast.Call) and isinstance(n.func, ast.Attribute) and n.func.attr == 'match_against_recorded_metadata':
                    users.append(m.qualname)
        cb.instance('%s filters metadata with TapeCassette.match_against_recorded_metadata' % c.name, c.name, bool(users), detail=', '.join(sorted(set(users))))
        cb.evaluations += 1
        if not users:
            it = c.lookup('iter_recording_ids')
            res.add(Finding('C10', 'C10.b', 'R-SIBLING', it.file, it.qualname, it.node.lineno, 'metadata filter of %s' % c.name,
                            '%s does not use the shared matcher: its listing disagrees with the other cassettes on list / pattern / '
                            'operator / absent-key filters' % c.name))
    from . import c14, c16
    top = repo.method('TapeCassette', 'match_against_recorded_metadata')
    okm, whym = c14.conjunction_ast(top)
    cb.instance('shared matcher is a per-key conjunction (no early answer)', top.qualname, okm, detail=whym)
    if not okm:
        res.add(Finding('C10', 'C10.b', 'R-SIBLING', top.file, top.qualname, top.node.lineno, 'top-level conjunction', whym))
    # ---------------- C10.c
    fac = repo.cls('S3BasicFacade')
    okl, whyl = c16.limit_counter(fac.lookup('iter_keys'))
    cc.instance('S3 facade: limit counts only keys that passed the filters (min(limit, matches))', fac.lookup('iter_keys').qualname, okl, detail=whyl)
    if not okl:
        res.add(Finding('C10', 'C10.c', 'R-SENTINEL', fac.module.relpath, fac.lookup('iter_keys').qualname, fac.lookup('iter_keys').node.lineno,
                        'limit counter', whyl))
    for c, fn in ((mem, mem.lookup('iter_recording_ids')), (fil, fil.lookup('iter_recording_ids')), (s3, s3.lookup('iter_recording_ids')),
                  (fac, fac.lookup('iter_keys'))):
        bad = []
        for n in ast.walk(fn.node):
            tests = []
            if isinstance(n, (ast.If, ast.While, ast.IfExp)):
                tests.append(n.test)
            if isinstance(n, ast.BoolOp):
                tests.extend(n.values)
            if isinstance(n, ast.UnaryOp) and isinstance(n.op, ast.Not):
                tests.append(n.operand)
            for t in tests:
                if isinstance(t, ast.Name) and t.id == 'limit':
                    bad.append(n)
        cc.instance('%s: limit compared, not tested by truthiness' % fn.qualname, fn.qualname, not bad)
        cc.evaluations += 1
        for n in bad[:1]:
            res.add(Finding('C10', 'C10.c', 'R-SENTINEL', fn.file, fn.qualname, n.lineno, norm(n.test) if hasattr(n, 'test') else norm(n),
                            '`limit` is tested by truthiness: limit=0 means "no limit" here but "nothing" in the sibling cassettes'))
    # ---------------- every cassette hands the matcher the *decoded* metadata: what was written with the type-preserving encoder is read
    # back with its decoder (a plain JSON parse shows tuples, dates, decimals, classes as {'py/...': ...} dicts that match nothing)
    readers = []
    for c_ in (mem, fil, s3):
        for m_ in c_.methods.values():
            fns = [m_] + [f_ for f_ in m_.nested.values() if not isinstance(f_, list)]
            for f_ in fns:
                for n in ast.walk(f_.node):
                    if isinstance(n, ast.Call) and isinstance(n.func, ast.Attribute) and n.func.attr == 'match_against_recorded_metadata' and len(n.args) >= 2:
                        readers.append((c_, f_, n))
    for c_ in (mem, fil):
        rawp = [(m_, n) for m_ in c_.methods.values() for n in ast.walk(m_.node) if isinstance(n, ast.Call) and (
            (norm(n.func).split('.')[-1] in ('loads', 'load') and 'json' in norm(n.func) and 'jsonpickle' not in norm(n.func)) or
            norm(n.func).split('.')[-1] in ('Unpickler', 'restore'))]
        cb.instance('%s: listings work on decoded recordings (no raw JSON parse of the stored encoding)' % c_.name, c_.name, not rawp)
        for m_, n in rawp[:1]:
            res.add(Finding('C10', 'C10.b', 'R-SIBLING', m_.file, m_.qualname, n.lineno, norm(n)[:100],
                            '%s parses the stored encoding with `%s` instead of decoding it: the filter then sees typed metadata values (dates, tuples, '
                            'decimals, classes) as raw py/ dicts, and this cassette lists a different set than its siblings' % (m_.qualname, norm(n.func))))
    for c_, f_, n in readers:
        from ..loader import expand_locals as _xl
        md = _xl(f_.node, n.args[1])
        raw = [x for x in ast.walk(md) if isinstance(x, ast.Call) and norm(x.func).split('.')[-1] in ('loads', 'load') and 'json' in norm(x.func)]
        raw += [x for x in ast.walk(md) if isinstance(x, ast.Call) and norm(x.func).split('.')[-1] in ('Unpickler', 'restore')]
        cb.instance('%s: the matcher sees decoded metadata (%s)' % (f_.qualname, norm(md)[:60]), f_.qualname, not raw)
        cb.evaluations += 1
        if raw:
            res.add(Finding('C10', 'C10.b', 'R-SIBLING', f_.file, f_.qualname, raw[0].lineno, norm(raw[0])[:100],
                            '%s matches the filter against `%s`, the raw JSON of the type-preserving encoding, while the sibling cassettes match '
                            'against the decoded metadata: recordings whose metadata holds a tuple, date, decimal or class are listed by the other '
                            'cassettes and missed (or mis-compared) by this one' % (c_.name, norm(raw[0])[:60])))
    # ---------------- the lookup helper reads the properties when the lookup is made (they are plain mutable objects)
    lk = None
    for m_ in repo.modules.values():
        if 'find_matching_recording_ids' in m_.functions:
            lk = m_.functions['find_matching_recording_ids']
    props = repo.find_class('RecordingLookupProperties')
    if lk is None or props is None:
        raise AnalysisError('anchor-lost lookup helper / RecordingLookupProperties')
    pp = [p for p in lk.params if 'propert' in p]
    if not pp:
        raise AnalysisError('anchor-lost role=properties parameter of the lookup helper')
    reads = {n.attr for n in ast.walk(lk.node) if isinstance(n, ast.Attribute) and isinstance(n.value, ast.Name) and n.value.id == pp[0]}
    init_p = props.lookup('__init__')
    derived = {}
    for n in ast.walk(init_p.node):
        if isinstance(n, ast.Assign):
            for t in n.targets:
                if isinstance(t, ast.Attribute) and isinstance(t.value, ast.Name) and t.value.id == 'self' and \
                        not (isinstance(n.value, ast.Name) and n.value.id in init_p.params):
                    derived[t.attr] = n
        if isinstance(n, ast.Assign) and any(isinstance(t, ast.Subscript) and isinstance(t.value, ast.Attribute) and isinstance(t.value.value, ast.Name) and
                                             t.value.value.id == 'self' for t in n.targets):
            derived[[t for t in n.targets if isinstance(t, ast.Subscript)][0].value.attr] = n
    frozen = sorted(reads & set(derived))
    okr = {'metadata', 'skip_incomplete'} <= reads and not frozen
    cb.instance('lookup helper reads metadata and skip_incomplete of the properties at lookup time (reads %s)' % sorted(reads), lk.qualname, okr)
    cb.evaluations += 1
    if not okr:
        res.add(Finding('C10', 'C10.b', 'R-SIBLING', lk.file, lk.qualname, lk.node.lineno, 'filter source of the lookup helper',
                        'the filter handed to the cassette is not built from the properties\' `metadata` and `skip_incomplete` when the lookup is '
                        'made (%s): changing the properties after construction has no effect on what is listed' % (
                            'it reads %s, computed once in the constructor' % frozen if frozen else 'reads only %s' % sorted(reads))))
    # the limit is an upper bound: it reaches the result only through forms that cope with "more than there is"
    lib_partial = {'sample': 'raises ValueError when the limit exceeds the number of matches', 'choices': 'returns exactly `limit` ids, repeating matches',
                   'range': 'indexes past the matches', 'xrange': 'indexes past the matches', 'nlargest': None, 'nsmallest': None}
    for c, fn in ((mem, mem.lookup('iter_recording_ids')), (fil, fil.lookup('iter_recording_ids'))):
        lim = [p for p in fn.params if 'limit' in p]
        badl = []
        for n in ast.walk(fn.node):
            if isinstance(n, ast.Call) and any(isinstance(x, ast.Name) and x.id in lim for a in list(n.args) + [k.value for k in n.keywords] for x in ast.walk(a)):
                last = norm(n.func).split('.')[-1]
                if lib_partial.get(last):
                    badl.append((n, last, lib_partial[last]))
            if isinstance(n, ast.Subscript) and isinstance(n.slice, ast.Name) and n.slice.id in lim:
                badl.append((n, 'index', 'indexes the matches with the limit'))
        cc.instance('%s: the limit is applied as an upper bound (slice / counter), never as an exact count' % fn.qualname, fn.qualname, not badl)
        cc.evaluations += 1
        for n, last, why in badl[:1]:
            res.add(Finding('C10', 'C10.c', 'R-SENTINEL', fn.file, fn.qualname, n.lineno, norm(n)[:100],
                            'the limit is handed to `%s`, which %s: a lookup with more room than matches must return all matches' % (last, why)))
    # ---------------- only saved recordings are listed: a failing save must not leave a listable file behind
    sv_f = fil.lookup('_save_recording')
    enc_f = [n for n in ast.walk(sv_f.node) if isinstance(n, ast.Call) and isinstance(n.func, ast.Name) and n.func.id == 'encode']
    opn_f = [n for n in ast.walk(sv_f.node) if isinstance(n, ast.With) and any(isinstance(i.context_expr, ast.Call) and norm(i.context_expr.func) in ('io.open', 'open') for i in n.items)]
    before = bool(enc_f) and bool(opn_f) and all(e.lineno < opn_f[0].lineno for e in enc_f)
    cd.instance('file cassette: serialization happens before the listed file is created', sv_f.qualname, before)
    if not before:
        res.add(Finding('C10', 'C10.d', 'R-AGREE', sv_f.file, sv_f.qualname, sv_f.node.lineno, 'encode inside the open-for-write block',
                        'a save that fails while serializing leaves an empty file in the directory that lookups enumerate: every later listing of that '
                        'category fails or yields an id that cannot be fetched'))
    # ---------------- C10.d S3 parser
    init = s3.lookup('__init__')
    comp = None
    for n in walk_own(init.node):
        if isinstance(n, ast.Assign) and self_attr(n.targets[0]) and 'metadata' in self_attr(n.targets[0]) and isinstance(n.value, ast.Call) and \
                isinstance(n.value.func, ast.Name) and n.value.func.id == 'compile':
            comp = n
    if comp is None:
        # no template-derived parser: evaluate how the listing derives the id from a listed key on sample keys
        generic_id_derivation(ctx, res, cd, s3)
        comp = None
    consts = {k: v.value for k, v in s3.consts.items() if isinstance(v, ast.Constant)}
    tmpl = consts.get('METADATA_KEY')
    problems = []
    nchk = 0
    if comp is None:
        return finish_c10(ctx, res, cf)
    try:
        for kp in ('', 'team/', 'a/b/'):
            env = {'self': dict(consts, key_prefix=kp)}
            pat = eval_pred(comp.value.args[0], env, init.module)
            fields = [f for _, f, _, _ in string.Formatter().parse(pat) if f]
            for f in fields:
                if f != 'id':
                    problems.append('field {%s} of the parser pattern may be filled with the empty string by the writer (key_prefix=%r) - parse '
                                    'fields match one or more characters' % (f, kp))
            # does the pattern invert the writer's template?
            rx = '^' + re.escape(pat).replace(re.escape('{id}'), '(?P<id>.+)')
            for f in fields:
                if f != 'id':
                    rx = rx.replace(re.escape('{%s}' % f), '(?P<%s>.+)' % f)
            rx += '$'
            for rid in ('Op/20240131/abc', 'a_b/20240131/x'):
                key = tmpl.format(key_prefix=kp, id=rid)
                m = re.match(rx, key)
                nchk += 1
                if not m or m.group('id') != rid:
                    problems.append('key %r (prefix %r) is not parsed back to id %r' % (key, kp, rid))
    except Undecidable as u:
        raise AnalysisError('S3 key parser argument uses a construct the evaluator does not model: %s' % u)
    cd.evaluations += nchk
    cd.instance('parser pattern `%s` has no possibly-empty field' % norm(comp.value.args[0])[:90], init.qualname,
                not any('may be filled' in p for p in problems))
    cd.instance('parser inverts METADATA_KEY on %d sample keys (3 prefixes incl. empty)' % nchk, init.qualname,
                not any('not parsed back' in p for p in problems))
    it3 = s3.lookup('iter_recording_ids')
    uses = any(isinstance(n, ast.Call) and isinstance(n.func, ast.Attribute) and n.func.attr == 'parse' and
               self_attr(n.func.value) == self_attr(comp.targets[0]) for n in ast.walk(it3.node))
    cd.instance('S3 listing yields the id parsed from the listed key', it3.qualname, uses)
    if problems:
        res.add(Finding('C10', 'C10.d', 'R-AGREE', init.file, init.qualname, comp.lineno, norm(comp),
                        'the parser that turns listed S3 keys back into recording ids does not invert the template that formats them: ' + problems[0]))
    if not uses:
        res.add(Finding('C10', 'C10.d', 'R-AGREE', it3.file, it3.qualname, it3.node.lineno, 'id from listed key',
                        'the S3 listing does not derive the yielded id from the listed key with the template parser'))
    return finish_c10(ctx, res, cf)


def category_exactness_loops(ctx, res, ca, prop, cid, pol, excm, classes):
    repo = ctx.repo
    for c in classes:
        it = c.lookup('iter_recording_ids')
        dom = small.analyse(repo, excm, it, policy=pol, self_cls=c, domain=ListingDomain)
        ca.evaluations += dom.visited_pairs
        site_label = {dom.site(n.ast): t.label for n, t in dom.builder.call_sites}
        cat = ('free', it.qualname, it.params[1])
        bad = None
        n_adds = 0
        for node, st in dom.adds:
            n_adds += 1
            ok = False
            for k, f in st.facts.items():
                if isinstance(k, tuple) and k and k[0] == 'cmp' and len(k) == 4 and k[1] in ('Eq', 'NotEq'):
                    operands = (k[2], k[3])
                    if cat in operands:
                        other = operands[0] if operands[1] == cat else operands[1]
                        from_extract = isinstance(other, tuple) and other and other[0] == 'call' and \
                            'extract_recording_category' in site_label.get(other[2], '')
                        if from_extract and ((k[1] == 'Eq' and f[1] is True) or (k[1] == 'NotEq' and f[1] is False)):
                            ok = True
            if not ok:
                bad = bad or (node, st)
        ca.instance('%s: every id added to the result passed `extract_recording_category(id) == category`' % c.name, it.qualname,
                    bad is None and n_adds > 0, detail='%d add states' % n_adds)
        if bad or not n_adds:
            node, st = bad if bad else (None, None)
            res.add(Finding(prop, cid, 'R-SIBLING', it.file, it.qualname, node.line if node else it.node.lineno,
                            ast.unparse(node.ast) if node else 'result construction',
                            '%s adds an id to the listing on a path that never compared the requested category for equality with the '
                            'category extracted from that id: categories that are prefixes of one another (or contain the file-name '
                            'delimiter) are confused; the sibling cassettes compare exactly' % c.name,
                            witness=dom.path_to(node, st) if node is not None and (node.id, st.key()) in dom.pred else None))


def finish_c10(ctx, res, cf):
    repo = ctx.repo
    # ---------------- C10.f helper
    lk = None
    for m in repo.modules.values():
        if 'find_matching_recording_ids' in m.functions:
            lk = m.functions['find_matching_recording_ids']
    if lk is None:
        raise AnalysisError('anchor-lost function=find_matching_recording_ids')
    call = [n for n in ast.walk(lk.node) if isinstance(n, ast.Call) and isinstance(n.func, ast.Attribute) and n.func.attr == 'iter_recording_ids']
    if len(call) != 1:
        raise AnalysisError('anchor-lost: lookup helper calls iter_recording_ids %d times' % len(call))
    c0 = call[0]
    lp = lk.params[2]
    want = {'start_date': 'start_date', 'end_date': 'end_date', 'limit': 'limit', 'random_results': 'random_sample'}
    kws = {k.arg: k.value for k in c0.keywords}
    okcat = bool(c0.args) and isinstance(c0.args[0], ast.Name) and c0.args[0].id == lk.params[1]
    cf.instance('category forwarded', lk.qualname, okcat)
    if not okcat:
        res.add(Finding('C10', 'C10.f', 'R-AGREE', lk.file, lk.qualname, c0.lineno, norm(c0)[:100], 'the lookup helper does not forward the requested category'))
    for kw, attr in want.items():
        v = kws.get(kw)
        ok = isinstance(v, ast.Attribute) and isinstance(v.value, ast.Name) and v.value.id == lp and v.attr == attr
        cf.instance('%s = lookup_properties.%s' % (kw, attr), lk.qualname, ok, detail=norm(v) if v is not None else 'missing')
        cf.evaluations += 1
        if not ok:
            res.add(Finding('C10', 'C10.f', 'R-AGREE', lk.file, lk.qualname, c0.lineno, '%s=%s' % (kw, norm(v) if v is not None else 'missing'),
                            'the lookup helper does not forward %s unchanged from the lookup properties' % kw))
    # ---- shared obligations: a filter alternative that cannot be compared is contained where it arises; what lookup lists is fetchable
    from . import common as _ci
    _ci.import_clauses(ctx, res, 'C14', ['C14.a', 'C14.b'], 'C10', 'C10.h', 'R-TOTAL', 'the shared matcher answers for every alternative on its own and by the documented rule (no comparison failure escapes an alternative)', floor=4)
    _ci.complete_listing_clause(ctx, res, 'C10', 'C10.j', floor=2)
    _ci.import_clauses(ctx, res, 'C15', ['C15.e'], 'C10', 'C10.i', 'R-ORDER', 'S3: the object a lookup lists is written only together with (after) the fetchable object', floor=2)
    # ---- C10.f lookups read the store on every call: no per-object memory in the reading methods
    from . import common
    cf = res.clause('C10.f', 'R-PROV', 'lookup / fetch methods of the cassettes keep no state between calls', floor=3)
    for cn in ('InMemoryTapeCassette', 'FileBasedTapeCassette', 'S3TapeCassette'):
        c_ = repo.find_class(cn)
        if c_ is None:
            raise AnalysisError('anchor-lost class=%s' % cn)
        common.stateless_methods_clause(res, cf, 'C10', 'C10.f', c_, ['iter_recording_ids', 'get_recording', 'get_recording_metadata',
                                                                       'iter_recordings_metadata', 'extract_recording_category'],
                                        'a lookup must reflect the store as it is now')
    # ---- C10.k the local cassettes honour the same lookup options: what one of them filters by, the other does too (a criterion only one
    # of them applies makes the same query return different sets)
    ck10 = res.clause('C10.k', 'R-SIBLING', 'in-memory and file-based listings read the same lookup parameters', floor=1)
    used = {}
    for cn in ('InMemoryTapeCassette', 'FileBasedTapeCassette'):
        c_ = repo.cls(cn)
        it_ = c_.lookup('iter_recording_ids')
        todo, seen = [it_], []
        names = set()
        while todo:
            m_ = todo.pop()
            if m_ in seen or m_ is None:
                continue
            seen.append(m_)
            names |= {x.id for x in ast.walk(m_.node) if isinstance(x, ast.Name) and isinstance(x.ctx, ast.Load)}
            for n in ast.walk(m_.node):
                if isinstance(n, ast.Call) and isinstance(n.func, ast.Attribute) and isinstance(n.func.value, ast.Name) and n.func.value.id == 'self' and \
                        c_.lookup(n.func.attr) is not None and c_.lookup(n.func.attr).cls is c_:
                    todo.append(c_.lookup(n.func.attr))
        used[cn] = {q for q in it_.params[1:] if q in names and 'random' not in q}      # the order option does not change the set
    same = used['InMemoryTapeCassette'] == used['FileBasedTapeCassette']
    ck10.instance('lookup parameters read: in-memory %s, file-based %s' % (sorted(used['InMemoryTapeCassette']), sorted(used['FileBasedTapeCassette'])),
                  'FileBasedTapeCassette', same)
    ck10.evaluations += 2
    if not same:
        diff = sorted(used['InMemoryTapeCassette'] ^ used['FileBasedTapeCassette'])
        fb = repo.cls('FileBasedTapeCassette').lookup('iter_recording_ids')
        res.add(Finding('C10', 'C10.k', 'R-SIBLING', fb.file, fb.qualname, fb.node.lineno, 'lookup parameters %s' % diff,
                        'the in-memory and the file-based cassette do not honour the same lookup options (%s is read by one of them only): the same '
                        'query returns different sets on the two cassettes' % ', '.join(diff)))
    _ci.import_clauses(ctx, res, 'C07', ['C07.a', 'C07.b'], 'C10', 'C10.l', 'R-AGREE', 'what a lookup lists was stored whole: metadata decodes back to equal values, every saved recording has a place of its own (unique ids, one path per id)', floor=2)
    return res


def generic_id_derivation(ctx, res, cd, s3):
    """the S3 listing turns a listed key back into a recording id without the template parser: evaluate that expression on
    keys generated from the writer's template for several prefixes (including ones that contain the template's own words)"""
    it3 = s3.lookup('iter_recording_ids')
    ys = [n for n in ast.walk(it3.node) if isinstance(n, ast.Yield) and n.value is not None]
    if len(ys) != 1:
        raise AnalysisError('S3 listing yields at %d places: shape not modelled' % len(ys))
    defs = {}
    for n in walk_own(it3.node):
        if isinstance(n, ast.Assign) and isinstance(n.targets[0], ast.Name):
            defs.setdefault(n.targets[0].id, []).append(n.value)
    e = ys[0].value
    hops = 0
    while isinstance(e, ast.Name) and e.id in defs and len(defs[e.id]) == 1 and hops < 4:
        e = defs[e.id][0]
        hops += 1
    keyvar = None
    for nm, vs in defs.items():
        if any(isinstance(v, ast.Call) and isinstance(v.func, ast.Name) and v.func.id == 'next' for v in vs):
            keyvar = nm
    if keyvar is None:
        raise AnalysisError('S3 listing: variable holding the listed key not found')
    consts = {k: v.value for k, v in s3.consts.items() if isinstance(v, ast.Constant)}
    tmpl = consts.get('METADATA_KEY')
    wrong = []
    n = 0
    try:
        for kp in ('', 'team/', 'a/b/', 'service_metadata/', 'metadata/', 'full/'):
            for rid in ('Op/20240131/abc', 'metadata/20240131/x'):
                key = tmpl.format(key_prefix=kp, id=rid)
                selfenv = dict(consts, key_prefix=kp)
                # fields the constructor derives from the templates / the prefix (evaluated where the evaluator can)
                init3 = s3.lookup('__init__')
                for a_ in (walk_own(init3.node) if init3 is not None else []):
                    if isinstance(a_, ast.Assign) and len(a_.targets) == 1 and isinstance(a_.targets[0], ast.Attribute) and \
                            isinstance(a_.targets[0].value, ast.Name) and a_.targets[0].value.id == 'self' and a_.targets[0].attr not in selfenv:
                        try:
                            selfenv[a_.targets[0].attr] = eval_pred(a_.value, {'self': selfenv}, it3.module)
                        except (Undecidable, KeyError, TypeError, AttributeError):
                            pass
                try:
                    got = eval_pred(e, {keyvar: key, 'self': selfenv}, it3.module)
                except KeyError as ke:
                    raise Undecidable('field %s of the cassette' % ke)
                n += 1
                if got != rid:
                    wrong.append((kp, key, got, rid))
    except Undecidable as u:
        raise AnalysisError('S3 listing derives the id with a construct the evaluator does not model: %s' % u)
    cd.evaluations += n
    cd.instance('S3 listing: `%s` maps %d sample keys (6 prefixes) back to their ids' % (norm(e)[:60], n), it3.qualname, not wrong)
    cd.instance('S3 listing derives ids from listed keys', it3.qualname, True)
    cd.instance('S3 listing: id derivation evaluated on adversarial prefixes', it3.qualname, not wrong)
    if wrong:
        kp, key, got, rid = wrong[0]
        res.add(Finding('C10', 'C10.d', 'R-AGREE', it3.file, it3.qualname, ys[0].lineno, norm(e)[:120],
                        'the id derived from a listed key is wrong for %d of %d sample keys, e.g. prefix %r: key %r gives %r instead of %r - such ids were '
                        'never saved and cannot be fetched' % (len(wrong), n, kp, key, got, rid)))
