"""C18 - Recording metadata tells the truth about the run.

  C18.a  R-PROV      class entry = the object the decorator derived from the call (args[0] / its type), category = its name
  C18.b  R-TYPESTATE exception flag: False on the scope's normal edge, True on an ordinary / framework exception,
                     unset on an interrupt-style exception; the exception continues
  C18.c  R-MUSTPASS  incomplete flag = 'no operation-output key' (same alias constant as the writer), and every
                     non-interrupt exit of the operation executor records the operation output
  C18.d  R-PROV      duration = difference of two reads of one clock, first read before the body, second after
  C18.e  R-CONTAIN   extractor: called after the body, inside a try swallowing Exception, merged with one update
  C18.f  R-AGREE     the lookup helper filters on the same incomplete-flag constant, accepting False and None
"""
import ast

from ..report import Result, Finding
from ..loader import walk_own, norm, AnalysisError, expand_locals
from ..recorder import _self_attr
from ..predeval import eval_pred, Undecidable, Rec
from . import recmodel as rm


def const_of(roles, name):
    c = roles.cls.lookup_const(name)
    return c.value if isinstance(c, ast.Constant) else None


def run(ctx):
    res = Result('C18')
    roles = ctx.roles
    res.explanation = (
        'Decides how each metadata entry is produced: class and category from the call\'s own first argument, the exception '
        'flag from the edge on which the recording scope is left, the incomplete flag from the presence of the operation-'
        'output key (evaluated on sample key sets) together with the must-record obligation of the operation executor, the '
        'duration from two reads of one clock around the body, the user extractor contained and merged atomically, and the '
        'lookup helper agreeing on the flag constant. Not decided: non-negativity / accuracy of wall-clock differences.')
    res.not_decided = ['non-negativity of a wall-clock difference', 'an extractor returning an iterable that fails half-way through update']
    res.assumptions = ['raise policy of DESIGN 3.3']
    ca = res.clause('C18.a', 'R-PROV', 'class entry and category derive from the call\'s own first argument', floor=2)
    cb = res.clause('C18.b', 'R-TYPESTATE', 'exception flag follows the edge on which the scope is left', floor=3)
    cc = res.clause('C18.c', 'R-MUSTPASS', 'incomplete flag = no operation-output key; executor records the output on every non-interrupt exit', floor=4)
    cd = res.clause('C18.d', 'R-PROV', 'duration = second clock read after the body minus first read before it', floor=2)
    ce = res.clause('C18.e', 'R-CONTAIN', 'metadata extractor contained, merged with one update', floor=2)
    cf = res.clause('C18.f', 'R-AGREE', 'lookup helper uses the same incomplete-flag constant, accepting False and None', floor=1)
    fac, deco, cl = roles.closures['operation']
    excm = rm.recorder_excm(ctx)
    base_atoms = set(excm.base_only)
    K_CLASS = const_of(roles, 'OPERATION_CLASS')
    K_EXC = const_of(roles, 'EXCEPTION_IN_OPERATION')
    K_INC = const_of(roles, 'INCOMPLETE_RECORDING')
    K_DUR = const_of(roles, 'DURATION')
    for nm, v in (('OPERATION_CLASS', K_CLASS), ('EXCEPTION_IN_OPERATION', K_EXC), ('INCOMPLETE_RECORDING', K_INC), ('DURATION', K_DUR)):
        if v is None:
            raise AnalysisError('anchor-lost constant=%s' % nm)

    d = rm.run_closure(ctx, 'operation', 'idle', track_free=('class_function',), track_attrs=('skipped', 'ignore_enforced_sampling'),
                       key_extra='c17')
    # ---- C18.a at the entry of start_recording
    a0 = ('sub', ('free', cl.qualname, cl.node.args.vararg.arg), '0', None)
    bad = None
    seen = 0
    for node, st in d.at_enters:
        callee = node.info['callee']
        if callee.func is not roles.start:
            continue
        seen += 1
        cfv = st.facts.get(('free', fac.qualname, 'class_function'), (None, None))[1]
        want = a0 if cfv is True else ('type-of', a0) if cfv is False else None
        cat = st.env.get(('L', callee.id, roles.start.params[1]))
        md = st.env.get(('L', callee.id, roles.start.params[2]))
        entry = st.env.get(('S', md.name, repr(K_CLASS))) if md is not None else None
        ok = want is not None and entry is not None and entry.name == want and cat is not None and \
            cat.name == ('attr', want, '__name__')
        if not ok:
            bad = bad or (node, st, cfv, entry.name if entry is not None else None, cat.name if cat is not None else None)
    ca.evaluations += seen
    ca.instance('recording scope entered with metadata[class] = operation class object', roles.start.qualname, bad is None and seen > 0,
                detail='%d states' % seen)
    ca.instance('recording scope entered with category = that class object\'s __name__', roles.start.qualname, bad is None and seen > 0)
    if bad or not seen:
        node, st, cfv, e, c = bad if bad else (None, None, None, None, None)
        res.add(Finding('C18', 'C18.a', 'R-PROV', cl.file, cl.qualname, node.line if node else cl.node.lineno,
                        'operation class / category at scope entry',
                        'with class_function=%s the metadata class entry is `%s` and the category `%s`: both must be the class the '
                        'operation actually ran on (args[0] for class-level operations, type(args[0]) otherwise) and its name' % (cfv, e, c),
                        witness=d.path_to(node, st) if node is not None and (node.id, st.key()) in d.pred else None))

    # ---- C18.b exception flag at the point metadata is attached
    groups = {}
    for node, t, st, st_in in d.at_calls:
        if t.label != 'iface:Recording.add_metadata':
            continue
        args, kw = d.arg_values(node.ast, node.frame, st_in)
        md = args[0] if args else None
        flag = st_in.env.get(('S', md.name, repr(K_EXC))) if md is not None else None
        how = st_in.extra.get('scope_exit')
        if how is None:
            continue
        if how in ('next', 'ret'):
            want, cls_ = 'false', 'normal'
        elif how.startswith('exc:') and how[4:] in base_atoms:
            want, cls_ = None, 'interrupt'
        else:
            want, cls_ = 'true', 'exception'
        got = flag.kind if flag is not None else None
        g = groups.setdefault(cls_, dict(ok=True, n=0, bad=None))
        g['n'] += 1
        if got != want and g['ok']:
            g['ok'] = False
            g['bad'] = (node, st_in, how, got, want)
    cb.evaluations += sum(g['n'] for g in groups.values())
    for cls_ in ('normal', 'exception', 'interrupt'):
        g = groups.get(cls_)
        if g is None:
            raise AnalysisError('no saving path found for scope exit class %s' % cls_)
        cb.instance('scope left by %s edge: exception flag %s' % (cls_, {'normal': 'False', 'exception': 'True', 'interrupt': 'unset'}[cls_]),
                    roles.start.qualname, g['ok'], detail='%d states' % g['n'])
        if not g['ok']:
            node, st, how, got, want = g['bad']
            res.add(Finding('C18', 'C18.b', 'R-TYPESTATE', roles.start.file, roles.start.qualname, roles.start.node.lineno,
                            'exception flag on %s edge is %s' % (cls_, got),
                            'when the recording scope is left via %s the exception flag attached to the metadata is %s, expected %s: '
                            'the flag must be decided by the scope\'s own edge' % (how, got, want),
                            witness=d.path_to(node, st) if (node.id, st.key()) in d.pred else None))

    incomplete_flag_clause(ctx, res, cc, 'C18', 'C18.c')
    pm = roles.post_metadata
    op_alias = const_of(roles, 'OPERATION_OUTPUT_ALIAS')
    # ---- C18.c (ii) executor records on every non-interrupt exit (recording mode); framework-typed exceptions: known finding D12
    dx = rm.run_method(ctx, roles.op_executor, 'recording')
    cc.evaluations += dx.visited_pairs
    bad_ord = None
    bad_fw = None
    fw_atoms = set(excm.framework)
    for n, s in dx.exits:
        ek = rm.exit_kind(n)
        src = str(s.extra.get('exc_src', ''))
        if ek != 'return':
            if ek[6:] in base_atoms or not src.startswith('user-body:'):
                continue
        rec = dx.n(s, 'enter:record_output')
        # entering the output recorder is not enough: unless the recording was discarded meanwhile, the entry must be stored
        a_ = dx.field(s, roles.active)
        dead = a_ is not None and a_.kind == 'none'
        if rec == 1 and not dead and dx.n(s, 'store:active-recording') < 1:
            rec = 0
        if rec != 1:
            if ek != 'return' and ek[6:] in fw_atoms:
                bad_fw = bad_fw or (n, s)
            else:
                bad_ord = bad_ord or (n, s, rec)
    # converse: an interrupt-style termination of the operation (an exception outside Exception) is never given an operation output
    bad_int = None
    n_int = 0
    for n, s in dx.exits:
        ek = rm.exit_kind(n)
        src = str(s.extra.get('exc_src', ''))
        if ek != 'return' and ek[6:] in base_atoms and src.startswith('user-body:'):
            n_int += 1
            if dx.n(s, 'enter:record_output') != 0:
                bad_int = bad_int or (n, s)
    # ... including when the executor's own handler swallowed it (the exit is then a return / another exception)
    def always_raises(stmts):
        if not stmts:
            return False
        s_ = stmts[-1]
        if isinstance(s_, ast.Raise):
            return True
        if isinstance(s_, ast.If):
            return always_raises(s_.body) and always_raises(s_.orelse)
        return False
    rec_name = roles.record_output.name if getattr(roles, 'record_output', None) is not None else None
    handled_base = [h for h in walk_own(roles.op_executor.node) if isinstance(h, ast.ExceptHandler) and
                    (h.type is None or (excm.handler_atoms(h.type) & set(base_atoms))) and
                    (not always_raises(h.body) or any(isinstance(c, ast.Call) and _self_attr(c.func) == rec_name for c in ast.walk(h)))]
    cc.instance('operation executor: an interrupt-style termination (outside Exception) is not recorded as an outcome (%d exits)' % n_int,
                roles.op_executor.qualname, bad_int is None and not handled_base and n_int > 0)
    if bad_int or handled_base:
        h = handled_base[0] if handled_base else None
        n, s = bad_int if bad_int else (None, None)
        res.add(Finding('C18', 'C18.c', 'R-MUSTPASS', roles.op_executor.file, roles.op_executor.qualname,
                        h.lineno if h is not None else roles.op_executor.node.lineno, norm(h.type) if h is not None and h.type is not None else 'interrupt outcome',
                        'the operation executor catches an exception class outside Exception (%s) and treats it as the operation\'s outcome: a run '
                        'cut short by it is saved with an operation output, i.e. as a complete recording' % (
                            ', '.join(sorted(excm.handler_atoms(h.type) & set(base_atoms))) if h is not None and h.type is not None else 'interrupt'),
                        witness=dx.path_to(n, s) if n is not None else None))
    cc.instance('operation executor: output recorded on return and on every ordinary exception of the operation', roles.op_executor.qualname, bad_ord is None)
    cc.instance('operation executor: output recorded when the operation raises a framework-typed exception', roles.op_executor.qualname, bad_fw is None)
    if bad_ord:
        n, s, rec = bad_ord
        res.add(Finding('C18', 'C18.c', 'R-MUSTPASS', roles.op_executor.file, roles.op_executor.qualname, roles.op_executor.node.lineno,
                        'exit=%s without the operation output recorded' % rm.exit_kind(n),
                        'a run that returned or raised an ordinary exception leaves the executor without an operation-output entry: it would be flagged incomplete',
                        witness=dx.path_to(n, s), exit=rm.exit_kind(n)))
    if bad_fw:
        n, s = bad_fw
        h = None
        for x in walk_own(roles.op_executor.node):
            if isinstance(x, ast.ExceptHandler) and x.type is not None and 'TapeRecorderException' in norm(x.type):
                h = x
        res.add(Finding('C18', 'C18.c', 'R-MUSTPASS', roles.op_executor.file, roles.op_executor.qualname, h.lineno if h else roles.op_executor.node.lineno,
                        norm(h) if h else 'framework exception handler',
                        'an operation that raises a TapeRecorderException subclass while recording (an ordinary exception) is re-raised '
                        'without recording the operation output, so the saved recording is flagged incomplete',
                        witness=dx.path_to(n, s), exit=rm.exit_kind(n)))

    # ---- C18.c (iii) while recording the recorder raises nothing of the family its own executor lets pass unrecorded: such an exception,
    # raised into an operation body (e.g. by a nested operation's scope guard) and propagated, would make a *completed* run look cut short
    from . import common
    fam = set(excm.framework)
    raisers = []
    for m in roles.cls.methods.values():
        if m in (roles.reader, roles.play):
            continue
        fns = [m]
        stack = [f for f in m.nested.values() if not isinstance(f, list)]
        while stack:
            f = stack.pop()
            fns.append(f)
            stack.extend(x for x in f.nested.values() if not isinstance(x, list))
        for f in fns:
            for st_, conds in common.guards_of(f.node, lambda x: isinstance(x, ast.Raise) and x.exc is not None):
                for r_ in [x for x in ast.walk(st_) if isinstance(x, ast.Raise) and x.exc is not None]:
                    cn = r_.exc.func if isinstance(r_.exc, ast.Call) else r_.exc
                    nm = norm(cn).split('.')[-1]
                    try:
                        atom = excm.atom_of(nm)
                    except AnalysisError:
                        continue
                    if atom not in fam:
                        continue
                    lits = [l for t_, p_ in conds for l in common.split_literals(t_, p_)]
                    def replay_literal(t_, p_):
                        if 'in_playback_mode' in norm(t_):
                            return p_
                        # the property's own expression written in place: `self.<playback field> is not None`
                        if isinstance(t_, ast.Compare) and len(t_.ops) == 1 and _self_attr(t_.left) == roles.playback and \
                                isinstance(t_.comparators[0], ast.Constant) and t_.comparators[0].value is None:
                            return p_ if isinstance(t_.ops[0], ast.IsNot) else (not p_ if isinstance(t_.ops[0], ast.Is) else False)
                        return False
                    in_replay = any(replay_literal(t_, p_) for t_, p_ in lits)
                    if not in_replay:
                        raisers.append((f, r_, nm))
    cc.instance('while recording the recorder raises no exception of the pass-through (framework) family', roles.cls.name, not raisers)
    cc.evaluations += 1
    for f, r_, nm in raisers[:2]:
        res.add(Finding('C18', 'C18.c', 'R-MUSTPASS', f.file, f.qualname, r_.lineno, norm(r_)[:100],
                        '%s raises %s outside replay: when that reaches an operation body (a nested operation on the same recorder) and propagates, '
                        'the operation executor lets it pass without recording the outcome, so a run that ended with an ordinary exception is saved as '
                        'incomplete' % (f.qualname, nm)))
    # ---- C18.d duration
    st_fn = roles.start.node
    dur_ok, why = duration_shape(roles, K_DUR)
    cd.instance('duration = clock() - start, start read before the try that runs the body', roles.start.qualname, dur_ok, detail=why)
    cd.evaluations += 1
    if not dur_ok:
        res.add(Finding('C18', 'C18.d', 'R-PROV', roles.start.file, roles.start.qualname, roles.start.node.lineno, 'duration', why))
    # stored under the duration key
    stored = any(isinstance(n, ast.Assign) and isinstance(n.targets[0], ast.Subscript) and
                 ((isinstance(n.targets[0].slice, ast.Attribute) and n.targets[0].slice.attr == 'DURATION') or
                  (isinstance(n.targets[0].slice, ast.Constant) and n.targets[0].slice.value == K_DUR)) and
                 isinstance(n.value, ast.Name) and (n.value.id in pm.params or (pm is roles.start and dur_ok and ('%s =' % n.value.id) in why))
                 for n in walk_own(pm.node))
    cd.instance('metadata[DURATION] = the duration handed to the metadata step', pm.qualname, stored)
    if not stored:
        res.add(Finding('C18', 'C18.d', 'R-PROV', pm.file, pm.qualname, pm.node.lineno, 'duration store',
                        'the duration entry is not the duration parameter computed by the scope'))

    # timestamp: read from the UTC clock in the metadata step
    K_AT = const_of(roles, 'RECORDED_AT')
    ts = [n for n in walk_own(pm.node) if isinstance(n, ast.Assign) and isinstance(n.targets[0], ast.Subscript) and
          ((isinstance(n.targets[0].slice, ast.Attribute) and n.targets[0].slice.attr == 'RECORDED_AT') or
           (isinstance(n.targets[0].slice, ast.Constant) and n.targets[0].slice.value == K_AT))]
    okt = False
    whyt = 'no RECORDED_AT entry written by the metadata step'
    if ts:
        calls = [norm(c.func) for c in ast.walk(ts[0].value) if isinstance(c, ast.Call)]
        utc = any(c.endswith('utcnow') for c in calls) or any(c.endswith('.now') and 'utc' in norm(ts[0].value).lower() for c in calls)
        okt = utc
        whyt = norm(ts[0].value)
    cd.instance('recording timestamp read from the UTC clock', pm.qualname, okt, detail=whyt)
    if not okt:
        res.add(Finding('C18', 'C18.d', 'R-PROV', pm.file, pm.qualname, ts[0].lineno if ts else pm.node.lineno, whyt,
                        'the recording timestamp is not read from the UTC clock (`%s`): in a process whose local zone is not UTC it is off by the zone offset' % whyt))

    # ---- C18.e extractor containment and atomic merge
    ok, why = extractor_merge(pm)
    ce.instance('extractor call inside try/except Exception, result consumed by exactly one update in that try', pm.qualname, ok, detail=why)
    ce.evaluations += 1
    if not ok:
        res.add(Finding('C18', 'C18.e', 'R-CONTAIN', pm.file, pm.qualname, pm.node.lineno, 'extractor merge', why))
    # the user's extractor runs for every saved recording, whatever the outcome: the only guard is "an extractor was given"
    from . import common
    ext_param = None
    for p in pm.params:
        if any(isinstance(x, ast.Call) and isinstance(x.func, ast.Name) and x.func.id == p for x in ast.walk(pm.node)):
            ext_param = p
    if ext_param is None:
        raise AnalysisError('anchor-lost role=extractor parameter of the metadata step')
    sites = common.guards_of(pm.node, lambda x: isinstance(x, ast.Call) and isinstance(x.func, ast.Name) and x.func.id == ext_param)
    extra_guards = []
    for st_, conds in sites:
        for t, pol in conds:
            for lit, lp in common.split_literals(t, pol):
                names = {x.id for x in ast.walk(lit) if isinstance(x, ast.Name)}
                if names and names <= {ext_param}:
                    continue
                extra_guards.append((st_, lit, lp))
    ce.instance('extractor call guarded only by "an extractor was given" (%d call site(s))' % len(sites), pm.qualname, bool(sites) and not extra_guards)
    ce.evaluations += len(sites)
    for st_, lit, lp in extra_guards[:1]:
        res.add(Finding('C18', 'C18.e', 'R-CONTAIN', pm.file, pm.qualname, st_.lineno, norm(lit),
                        'the user\'s metadata extractor is only called when `%s%s` holds: recordings of the other runs are saved without the '
                        'user\'s metadata (and cannot be found by it)' % ('' if lp else 'not ', norm(lit))))
    # called from the finally of the scope (after the body)
    in_finally = False
    for t in [n for n in walk_own(st_fn) if isinstance(n, ast.Try)]:
        for s_ in t.finalbody:
            for x in ast.walk(s_):
                if isinstance(x, ast.Call) and isinstance(x.func, ast.Attribute) and x.func.attr == pm.name:
                    in_finally = True
    ce.instance('metadata step (extractor, timestamp) runs in the scope\'s finally, after the body', roles.start.qualname, in_finally)
    if not in_finally:
        res.add(Finding('C18', 'C18.e', 'R-CONTAIN', roles.start.file, roles.start.qualname, roles.start.node.lineno,
                        'metadata step position', 'the post-operation metadata step is not executed in the finally of the recording scope'))

    # ... and what the user's extractor returned is what is merged: the wrapper the decorator hands to the scope passes the result on as it is
    # (a rebuilt / filtered copy drops entries the user extracted - values that are falsy but meaningful, say)
    from ..loader import expand_locals as _xl18
    fac_params = set(fac.all_param_names) if hasattr(fac, 'all_param_names') else set(fac.params)
    for nd_ in [x for x in ast.walk(cl.node) if isinstance(x, ast.FunctionDef) and x is not cl.node]:
        ucalls = [c_ for c_ in ast.walk(nd_) if isinstance(c_, ast.Call) and isinstance(c_.func, ast.Name) and c_.func.id in fac_params and
                  'extract' in c_.func.id]
        if len(ucalls) != 1:
            continue
        rets = [r_ for r_ in ast.walk(nd_) if isinstance(r_, ast.Return) and r_.value is not None]
        as_is = bool(rets) and all(norm(_xl18(nd_, r_.value)) == norm(ucalls[0]) for r_ in rets)
        ce.instance('the wrapper around the user\'s extractor returns its result unchanged', cl.qualname, as_is)
        if not as_is:
            bad_r = [r_ for r_ in rets if norm(_xl18(nd_, r_.value)) != norm(ucalls[0])]
            res.add(Finding('C18', 'C18.e', 'R-CONTAIN', cl.file, cl.qualname, (bad_r[0] if bad_r else nd_).lineno, norm(bad_r[0].value)[:90] if bad_r else nd_.name,
                            'the decorator does not hand the result of the user\'s metadata extractor on as it is (`%s`): entries the user extracted are '
                            'dropped or rewritten before they reach the recording\'s metadata' % (norm(bad_r[0].value)[:70] if bad_r else nd_.name)))
    # ---- C18.f lookup helper
    lk = None
    for m in ctx.repo.modules.values():
        if 'find_matching_recording_ids' in m.functions:
            lk = m.functions['find_matching_recording_ids']
    if lk is None:
        raise AnalysisError('anchor-lost function=find_matching_recording_ids')
    okf = False
    why = 'no assignment under the incomplete-flag constant'
    for n in walk_own(lk.node):
        if isinstance(n, ast.Assign) and isinstance(n.targets[0], ast.Subscript):
            k = n.targets[0].slice
            same = (isinstance(k, ast.Attribute) and k.attr == 'INCOMPLETE_RECORDING' and isinstance(k.value, ast.Name) and
                    k.value.id == roles.cls.name) or (isinstance(k, ast.Constant) and k.value == K_INC)
            if same and isinstance(n.value, ast.List):
                vals = [e.value for e in n.value.elts if isinstance(e, ast.Constant)]
                okf = False in vals and None in vals and True not in vals and len(vals) == len(n.value.elts)
                why = 'filter alternatives %s' % vals
    cf.instance('find_matching_recording_ids: metadata[INCOMPLETE_RECORDING] = [False, None]', lk.qualname, okf, detail=why)
    cf.evaluations += 1
    if not okf:
        res.add(Finding('C18', 'C18.f', 'R-AGREE', lk.file, lk.qualname, lk.node.lineno, 'skip-incomplete filter', why))
    # ---- C18.h the metadata handed to the recording is what is stored: after the hand-over (add_metadata receives the dict itself, a cassette
    # may apply it later) the scope does not touch it again
    from . import common as _cm18
    ch18 = res.clause('C18.h', 'R-ORDER', 'the metadata object is not modified after it was handed to the recording', floor=1)
    pm_ = roles.post_metadata
    handover = []
    for n in ast.walk(roles.start.node):
        if isinstance(n, ast.Call) and isinstance(n.func, ast.Attribute) and (n.func.attr == 'add_metadata' or (pm_ is not None and n.func.attr == pm_.name)):
            for a in n.args:
                if isinstance(a, ast.Name):
                    handover.append((n, a.id))
    late = []
    for call_, nm_ in handover:
        for n in ast.walk(roles.start.node):
            if getattr(n, 'lineno', 0) <= call_.lineno:
                continue
            mut = (isinstance(n, ast.Call) and isinstance(n.func, ast.Attribute) and n.func.attr in _cm18.MUTATORS and isinstance(n.func.value, ast.Name) and
                   n.func.value.id == nm_) or \
                  (isinstance(n, (ast.Assign, ast.AugAssign, ast.Delete)) and any(
                      isinstance(t_, ast.Subscript) and isinstance(t_.value, ast.Name) and t_.value.id == nm_
                      for t_ in (n.targets if isinstance(n, (ast.Assign, ast.Delete)) else [n.target])))
            if mut:
                late.append((n, nm_))
    ch18.instance('%d hand-over(s) of the metadata in the scope; nothing writes into it afterwards' % len(handover), roles.start.qualname, bool(handover) and not late)
    if not handover:
        raise AnalysisError('anchor-lost role=metadata hand-over in the recording scope')
    for n, nm_ in late[:1]:
        res.add(Finding('C18', 'C18.h', 'R-ORDER', roles.start.file, roles.start.qualname, n.lineno, norm(n)[:100],
                        '`%s` modifies the metadata after it was handed to the recording: a recording that applies it later (the asynchronous cassette '
                        'queues the very dict) stores the modified version - flags set for this run are missing from what is saved' % norm(n)[:80]))
    # ---- C18.g the entry that decides "incomplete" is written by the scope's own operation only: an operation invoked while a recording
    # is already active (nested) must not put its result into that recording
    cg18 = res.clause('C18.g', 'R-TYPESTATE', 'an operation entered while a recording is active writes nothing into that recording', floor=1)
    dn = rm.run_closure(ctx, 'operation', 'recording')
    cg18.evaluations += dn.visited_pairs
    badn = None
    nex = 0
    for n_, s_ in dn.exits:
        nex += 1
        if dn.n(s_, 'store:active-recording') or dn.n(s_, 'enter:executor'):
            badn = badn or (n_, s_)
    fac_g, deco_g, cl_g = roles.closures['operation']
    cg18.instance('operation decorator entered with an active recording: no entry stored into it on %d exits' % nex, cl_g.qualname, badn is None and nex > 0)
    if badn or not nex:
        n_, s_ = badn if badn else (None, None)
        res.add(Finding('C18', 'C18.g', 'R-TYPESTATE', cl_g.file, cl_g.qualname, cl_g.node.lineno, 'nested operation writes into the enclosing recording',
                        'an operation invoked while another recording is active runs through the executor and stores its result under the operation-'
                        'output key of the enclosing recording: if the outer operation is then interrupted, its recording already holds an operation '
                        'output and is saved as complete (incomplete flag false, no exception flag)',
                        witness=dn.path_to(n_, s_) if n_ is not None else None, exit=rm.exit_kind(n_) if n_ is not None else None))
    # ---- C18.i the default lookup is an observation point of the incomplete flag: the matcher applies the documented rule to it (shared with C14.b)
    _cm18.import_clauses(ctx, res, 'C14', ['C14.b'], 'C18', 'C18.i', 'R-DECISION', 'the metadata matcher decides `[False, None]` by the documented rules', floor=4)
    from . import common as _r7
    _r7.import_clauses(ctx, res, 'C04', ['C04.d'], 'C18', 'C18.j', 'R-CONTAIN', 'framework steps around the operation do not replace its outcome (exception flag / incomplete flag describe the operation)', floor=1)
    return res


def duration_shape(roles, K_DUR):
    fn = roles.start.node
    tries = [s for s in fn.body if isinstance(s, ast.Try)]
    if not tries:
        return False, 'no try statement in the recording scope'
    t = tries[0]
    pre = {}
    for s in fn.body:
        if s is t:
            break
        if isinstance(s, ast.Assign) and isinstance(s.targets[0], ast.Name) and isinstance(s.value, ast.Call):
            pre[s.targets[0].id] = s.value
    for n in ast.walk(t):
        if isinstance(n, ast.Assign) and isinstance(n.value, ast.BinOp) and isinstance(n.value.op, ast.Sub):
            l, r = n.value.left, n.value.right
            if isinstance(l, ast.Call) and isinstance(r, ast.Name) and r.id in pre and norm(l.func) == norm(pre[r.id].func):
                inside_body = any(x is n for b in t.body for x in ast.walk(b))
                if inside_body:
                    return False, 'the second clock read happens inside the try body (before the operation ends)'
                # the value handed to the metadata step is that difference (or its total_seconds()), not a component of it
                diff_name = n.targets[0].id if isinstance(n.targets[0], ast.Name) else None
                pm = roles.post_metadata
                calls = [c for c in ast.walk(fn) if isinstance(c, ast.Call) and isinstance(c.func, ast.Attribute) and c.func.attr == pm.name]
                for c in calls:
                    dur = c.args[-1] if c.args else None
                    for k in c.keywords:
                        if k.arg == pm.params[-1]:
                            dur = k.value
                    e = dur
                    if isinstance(e, ast.Name) and e.id != diff_name:
                        ds = [a.value for a in ast.walk(fn) if isinstance(a, ast.Assign) and isinstance(a.targets[0], ast.Name) and a.targets[0].id == e.id]
                        e = ds[0] if len(ds) == 1 else e
                    ok_whole = (isinstance(e, ast.Name) and e.id == diff_name) or \
                        (isinstance(e, ast.Call) and isinstance(e.func, ast.Attribute) and e.func.attr == 'total_seconds' and
                         isinstance(e.func.value, ast.Name) and e.func.value.id == diff_name)
                    if not ok_whole:
                        return False, 'the duration handed to the metadata step is `%s`, a component of the clock difference `%s` rather than the ' \
                                      'difference itself (whole seconds / days are dropped)' % (norm(e), norm(n.value))
                # the clock is the wall clock: CPU-time clocks leave out all waiting (I/O, sleep, locks)
                mod_ = roles.start.module
                clock = norm(l.func)
                dotted = mod_.imports.get(clock.split('.')[0], clock.split('.')[0])
                full = dotted if '.' not in clock else '%s.%s' % (dotted, clock.split('.', 1)[1])
                if full.split('.')[-1] in ('process_time', 'thread_time', 'clock', 'process_time_ns', 'thread_time_ns'):
                    return False, 'the duration is measured with `%s`, a CPU-time clock: time spent waiting (I/O, sleep, locks) is not counted, so the ' \
                                  'recorded duration is not consistent with wall time' % full
                return True, '%s: second read of %s() minus `%s` read before the try' % (norm(n), norm(l.func), r.id)
    # the first read kept on the recorder instead of in the scope: any other scope attempt (a nested operation whose assertion
    # fails, another thread) overwrites it while this run is still going on
    for n in ast.walk(t):
        if isinstance(n, ast.Assign) and isinstance(n.value, ast.BinOp) and isinstance(n.value.op, ast.Sub):
            l, r = n.value.left, expand_locals(fn, n.value.right)
            if isinstance(l, ast.Call) and _self_attr(r):
                return False, 'the start of the run is kept in the recorder field `self.%s` (`%s`), not in the scope: another scope attempt on the ' \
                              'same recorder (nested operation, other thread) overwrites it, so the saved duration is not this run\'s' % (
                                  _self_attr(r), norm(n.value))
    raise AnalysisError('duration computation has a shape the rule does not model (expected `clock() - start` in the scope with '
                        '`start = clock()` before the try)')


def extractor_merge(pm):
    ext = pm.params[2] if len(pm.params) > 2 else None
    calls = [n for n in ast.walk(pm.node) if isinstance(n, ast.Call) and isinstance(n.func, ast.Name) and n.func.id == ext]
    if len(calls) != 1:
        return False, 'extractor `%s` is called %d times' % (ext, len(calls))
    call = calls[0]
    tr = None
    for t in [n for n in ast.walk(pm.node) if isinstance(n, ast.Try)]:
        if any(x is call for b in t.body for x in ast.walk(b)):
            tr = t
    if tr is None:
        return False, 'extractor call is not inside a try'
    catches = any(h.type is not None and norm(h.type) in ('Exception', 'BaseException') and
                  not any(isinstance(x, ast.Raise) for x in ast.walk(h)) for h in tr.handlers)
    if not catches:
        return False, 'the try around the extractor does not swallow Exception'
    # consumed by exactly one update(...) inside the same try body, directly or through one local
    consumers = []
    for b in tr.body:
        for x in ast.walk(b):
            if isinstance(x, ast.Call) and isinstance(x.func, ast.Attribute) and x.func.attr == 'update' and x.args:
                a = x.args[0]
                if a is call:
                    consumers.append(x)
                elif isinstance(a, ast.Name) and any(isinstance(s, ast.Assign) and s.value is call and
                                                     isinstance(s.targets[0], ast.Name) and s.targets[0].id == a.id for s in tr.body):
                    consumers.append(x)
    local = None
    for s in tr.body:
        if isinstance(s, ast.Assign) and s.value is call and isinstance(s.targets[0], ast.Name):
            local = s.targets[0].id
    if local:
        outside = [x for x in ast.walk(pm.node) if isinstance(x, ast.Name) and x.id == local and isinstance(x.ctx, ast.Load) and
                   not any(x is y for b in tr.body for y in ast.walk(b))]
        if outside:
            return False, 'the extractor result `%s` is used outside the try that contains the call' % local
    if len(consumers) != 1:
        return False, 'the extractor result is merged by %d update calls inside the try (expected exactly one)' % len(consumers)
    return True, 'one call, one update, inside try/except Exception'


def incomplete_flag_clause(ctx, res, cc, prop, cid):
    roles = ctx.roles
    K_INC = const_of(roles, 'INCOMPLETE_RECORDING')
    pm = roles.post_metadata
    if pm is None:
        raise AnalysisError('anchor-lost role=post-operation metadata step')
    store = None
    for n in walk_own(pm.node):
        if isinstance(n, ast.Assign) and isinstance(n.targets[0], ast.Subscript):
            k = n.targets[0].slice
            if isinstance(k, ast.Attribute) and k.attr == 'INCOMPLETE_RECORDING' or (isinstance(k, ast.Constant) and k.value == K_INC):
                store = n
    if store is None:
        raise AnalysisError('anchor-lost role=incomplete flag store')
    # explaining variables are seen through; the collection the expression ranges over is the extractor applied to the recording
    expr = expand_locals(pm.node, store.value)
    coll = None
    src_ok = False
    direct = None
    for x in ast.walk(expr):
        if isinstance(x, ast.comprehension) and isinstance(x.iter, ast.Call) and isinstance(x.iter.func, ast.Attribute) and \
                x.iter.func.attr == roles.extractor.name:
            c = x.iter
            src_ok = bool(c.args) and isinstance(c.args[0], ast.Name) and c.args[0].id == pm.params[0]
            if not src_ok and c.args and pm is roles.start:
                # the metadata step written in place in the scope: the recording is the scope's own (a local bound to the active field)
                src_ok = _self_attr(expand_locals(pm.node, c.args[0])) == roles.active
            from . import c11 as _c11d
            direct = _c11d.selects_direct(roles.extractor, _c11d.accessor_selector(roles.extractor), c)     # whatever the option is called
            coll = '__recorded_outputs__'
            x.iter = ast.Name(id=coll, ctx=ast.Load())
    op_alias = const_of(roles, 'OPERATION_OUTPUT_ALIAS')
    kb_out = roles.key_builders['output']
    tmpl = None
    for n in walk_own(kb_out.node):
        if isinstance(n, ast.Return):
            for k in ast.walk(n.value):
                if isinstance(k, ast.Constant) and isinstance(k.value, str) and '{}' in k.value:
                    tmpl = k.value
    mk = lambda alias, i: Rec(key=tmpl.replace('{}', alias, 1).replace('{}', str(i), 1) + '.output', value=None)
    samples = [([], True, 'no outputs at all'),
               ([mk(op_alias, 1)], False, 'only the operation output'),
               ([mk('send', 1), mk('send', 2)], True, 'intercepted outputs but no operation output'),
               ([mk('send', 1), mk(op_alias, 1)], False, 'intercepted outputs and the operation output'),
               ([mk('store', 12)], True, 'one intercepted output, ordinal 12')]
    wrong = []
    try:
        for outs, expect, what in samples:
            got = bool(eval_pred(expr, {coll: outs}, pm.module)) if coll else None
            cc.evaluations += 1
            if got != expect:
                wrong.append((what, expect, got))
    except Undecidable as u:
        raise AnalysisError('incomplete-flag expression uses a construct the evaluator does not model: %s' % u)
    cc.instance('incomplete flag expression on %d sample output sets' % len(samples), pm.qualname, not wrong and src_ok,
                detail='expr: %s; outputs from extractor(recording)=%s' % (norm(expr)[:120], src_ok))
    if wrong or not src_ok:
        res.add(Finding(prop, cid, 'R-MUSTPASS', pm.file, pm.qualname, store.lineno, norm(store),
                        'the incomplete flag is not "no operation-output entry among the recorded outputs": %s' % (
                            '; '.join('%s -> %s (expected %s)' % w for w in wrong) or 'outputs are not extracted from this recording')))
    cc.instance('incomplete flag reads the live recording (direct access, recording phase only)', pm.qualname, direct is True)
    if direct is not True:
        res.add(Finding(prop, cid, 'R-MUSTPASS', pm.file, pm.qualname, store.lineno, 'extractor access mode in the metadata step',
                        'the post-operation metadata step must read the recording directly (no serializer copy that may fail in the scope\'s tail)'))
