"""Shared recorder analyses for the rules C01-C05, C09, C17, C18: the three decorator closures and `play`,
propagated from the relevant start valuations, with the events the rules query."""
import ast

from ..flow import V, NONE, TRUE, FALSE, EMPTY, sym, State
from ..recorder import RecorderDomain, RecorderPolicy, build_closure, build_method, _self_attr
from ..loader import norm, walk_own

RECORDER_SCOPE = ('playback.tape_recorder', 'playback.utils.is_iterable', 'playback.utils.pickle_copy',
                  'playback.recording', 'playback.recordings.memory.memory_recording', 'playback.exceptions')

ACTIVE = V('obj', ('active-recording',), EMPTY)
ACTIVE_PARAMS = V('obj', ('active-params',), EMPTY)
PLAYBACK = V('obj', ('playback-recording',), EMPTY)


class RecDom(RecorderDomain):
    """adds: stores into the active recording, appends to the playback outputs, counter increments,
    sampling decision, constant keys stored into dicts, effective discards"""

    def __init__(self, *a, **kw):
        self.variant = kw.pop('variant', 'idle')
        track_attrs = kw.pop('track_attrs', ())
        self.assume_attrs = dict(kw.pop('assume_attrs', None) or {})     # option of the active parameters -> truth assumed for the whole run
        RecorderDomain.__init__(self, *a, **kw)
        self.track_attrs = set(track_attrs) | set(self.assume_attrs)
        self.at_calls = []      # (node, target, state) for selected labels, for rules that inspect call-site states
        self.at_enters = []     # (node, state after parameter binding) for inlined record-output calls

    def initial_states(self):
        st = RecorderDomain.initial_states(self)[0]
        r = self.roles
        if self.variant == 'recording':
            st.env[('F', 'self', r.active)] = ACTIVE
            st.env[('F', 'self', r.params)] = ACTIVE_PARAMS
        elif self.variant == 'playback':
            st.env[('F', 'self', r.playback)] = PLAYBACK
        elif self.variant == 'both':
            # play() called from inside a recorded operation: a recording is being made and another one is being replayed
            st.env[('F', 'self', r.active)] = ACTIVE
            st.env[('F', 'self', r.params)] = ACTIVE_PARAMS
            st.env[('F', 'self', r.playback)] = PLAYBACK
        for attr, truth in sorted(self.assume_attrs.items()):
            st = self._assume_truth(('attr', ACTIVE_PARAMS.name, attr), st, truth)
        return [st]

    def e_Subscript(self, e, frame, state):
        # reads of the invocation counter carry the number of increments made so far on this path
        if _self_attr(e.value) == self.roles.counter:
            idx = self.eval(e.slice, frame, state)
            return sym(('counter-read', state.extra.get(('n', 'counter-inc'), 0), idx.name))
        return RecorderDomain.e_Subscript(self, e, frame, state)

    def is_active_recording(self, v):
        return v.kind == 'obj' and v.name in (('active-recording',), ('created-recording',))

    def on_store(self, node, target, base, value, state):
        st = state
        r = self.roles
        if isinstance(target, ast.Subscript):
            if self.is_active_recording(base):
                st = st.bump(('n', 'store:active-recording'))
                tag = self._envelope_tag(value)
                st = st.with_extra(**{'last_store': tag})
            else:
                idx = self.eval(target.slice, node.frame, state)
                if idx.kind == 'const' and isinstance(idx.name, str):
                    ks = st.extra.get('stored_keys', frozenset())
                    if idx.name not in ks:
                        st = st.with_extra(stored_keys=ks | {idx.name})
            fld = _self_attr(target.value)
            if fld == r.counter:
                st = st.bump(('n', 'counter-inc'))
        elif isinstance(target, ast.Attribute) and target.attr == 'append' and _self_attr(target.value) == r.outputs:
            st = st.bump(('n', 'outputs-append'))
        return st

    def _envelope_tag(self, value):
        n = value.name
        if value.kind == 'obj' and isinstance(n, tuple) and n and n[0] == 'lit':
            return 'dict-literal'
        return value.kind

    def on_call_attempt(self, node, t, state):
        st = RecorderDomain.on_call_attempt(self, node, t, state)
        lab = t.label
        if t.role == 'body':
            st = self._check_body_args(node, st)
            # the body may run nested output / input interceptions: they number outputs and (in replay) append them
            # - only while a scope is open; from idle they are pass-through (C09.d, by mutual induction)
            r = self.roles
            pb = st.env.get(('F', 'self', r.playback))
            ac = st.env.get(('F', 'self', r.active))
            replaying = pb is not None and self.is_none(pb, st) is not True
            recording = ac is not None and self.is_none(ac, st) is not True
            if replaying or recording:
                st = st.copy()
                st.env[('F', 'self', r.counter)] = V('obj', ('havoc', 'counter-after-body'), EMPTY)
                if replaying:
                    st.env[('F', 'self', r.outputs)] = V('obj', ('havoc', 'outputs-after-body'), EMPTY)
        if lab == 'iface:TapeCassette.abort_recording' and node.frame.func is self.roles.discard:
            st = st.bump(('n', 'discard-abort'))
        if t.role in ('body', 'plugin'):
            self.at_calls.append((node, t, st, state))
        if lab in ('iface:TapeCassette.save_recording', 'iface:TapeCassette.abort_recording',
                   'iface:TapeCassette.create_new_recording',
                   'iface:Recording.add_metadata', 'ctor:Playback') or lab.startswith('libobj:random.Random.random') or \
                (lab.startswith('method:get') and isinstance(node.ast, ast.Call) and isinstance(node.ast.func, ast.Attribute)
                 and _self_attr(node.ast.func.value) == self.roles.class_params):
            self.at_calls.append((node, t, st, state))
        if lab.startswith('libobj:random.Random.random'):
            st = st.bump(('n', 'draw'))
        return st

    def _check_body_args(self, node, st):
        """the wrapped function must be called with the decorator's own *args / **kwargs, unmodified"""
        c = node.ast
        root = self.g.root
        ok = isinstance(c, ast.Call) and len(c.args) == 1 and isinstance(c.args[0], ast.Starred) and \
            len(c.keywords) == 1 and c.keywords[0].arg is None
        if ok:
            a = self.eval(c.args[0].value, node.frame, st)
            k = self.eval(c.keywords[0].value, node.frame, st)
            rf = root.func
            va, ka = rf.node.args.vararg, rf.node.args.kwarg
            if va is not None and ka is not None:
                ok = a.name == ('free', rf.qualname, va.arg) and k.name == ('free', rf.qualname, ka.arg)
            else:
                # analysed from a helper root: its own args / kwargs parameters
                ok = a.kind == 'sym' and k.kind == 'sym' and a.name[0] == 'free' and k.name[0] == 'free'
        if not ok:
            bad = st.extra.get('body_args_modified', frozenset())
            st = st.with_extra(body_args_modified=bad | {(node.line, norm(c))})
        return st

    def on_call_event(self, node, t, args, state):
        if t.role == 'body':
            r = state.env.get(('R', node.frame.id, id(node.ast)))
            if r is not None:
                return state.with_extra(body_result=r.name)
        return state

    def on_stmt(self, node, state):
        r = self.roles
        if node.kind == 'stmt' and node.frame.parent is None and isinstance(node.ast, (ast.Assign, ast.Expr, ast.AugAssign, ast.Return)) and \
                not state.extra.get('argtouch'):
            fa = node.frame.func.node.args
            star = {a.arg for a in (fa.vararg, fa.kwarg) if a is not None}
            if star and any(isinstance(x, ast.Subscript) and isinstance(x.value, ast.Name) and x.value.id in star for x in ast.walk(node.ast)):
                state = state.with_extra(argtouch=True)
        if node.kind == 'enter' and node.info.get('reentry'):
            # the body calls the public API after having run nested interceptions: ordinals / captured outputs are already used
            pb = state.env.get(('F', 'self', r.playback))
            ac = state.env.get(('F', 'self', r.active))
            replaying = pb is not None and self.is_none(pb, state) is not True
            recording = ac is not None and self.is_none(ac, state) is not True
            if replaying or recording:
                state = state.copy()
                state.env[('F', 'self', r.counter)] = V('obj', ('havoc', 'counter-after-body'), EMPTY)
                if replaying:
                    state.env[('F', 'self', r.outputs)] = V('obj', ('havoc', 'outputs-after-body'), EMPTY)
        if node.kind == 'join' and node.info.get('finally_tag') and node.frame.func is r.start:
            state = state.with_extra(scope_exit=node.info['finally_tag'])
        if node.kind == 'stmt' and isinstance(node.ast, ast.Assign) and node.frame.func is r.force and \
                any(_self_attr(t) == r.force_flag for t in node.ast.targets):
            state = state.with_extra(force_requested=True)
        if node.kind == 'enter' and node.info['callee'].func is r.discard:
            ac = state.env.get(('F', 'self', r.active))
            if ac is not None and self.is_none(ac, state) is not True:
                state = state.with_extra(discard_requested=True)
        if node.kind == 'enter' and node.info['callee'].func is r.force and not node.info.get('reentry'):
            state = state.with_extra(internal_force=True)
        if node.kind == 'enter' and node.info['callee'].func in (r.sampler, r.start):
            self.at_enters.append((node, state))
        if node.kind == 'leave' and node.info.get('mode') == 'value' and node.info['callee'].func is self.roles.reader:
            rv = state.env.get(('R', node.frame.id, id(node.ast)))
            if rv is not None:
                state = state.with_extra(reader_result=rv.name)
        if node.kind == 'leave' and node.info.get('mode') == 'test' and node.info['callee'].func is self.roles.sampler:
            keep = node.info['what'].startswith('true-from')
            return state.with_extra(decision='keep' if keep else 'drop')
        if node.kind == 'leave' and node.info.get('mode') == 'value' and node.info['callee'].func is self.roles.sampler:
            return state.with_extra(decision='value')
        if node.kind == 'enter' and node.info['callee'].func is self.roles.record_output:
            self.at_enters.append((node, state))
            return state.bump(('n', 'enter:record_output'))
        if node.kind == 'enter' and node.info['callee'].func is self.roles.executor:
            return state.bump(('n', 'enter:executor'))
        if node.kind == 'enter' and node.info['callee'].func is self.roles.reader:
            return state.bump(('n', 'enter:reader'))
        if node.kind == 'enter' and node.info['callee'].func is self.roles.start:
            return state.bump(('n', 'enter:start_recording'))
        return state


def recorder_excm(ctx):
    return ctx.excm(RECORDER_SCOPE)


def run_closure(ctx, kind, variant, track_free=(), reentry=True, cls=RecDom, key_extra=None, framework_faults=False, **domkw):
    key = ('closure-run', kind, variant, tuple(sorted(track_free)), reentry, cls.__name__, key_extra, framework_faults,
           tuple(sorted((k, repr(v)) for k, v in domkw.items())))

    def make():
        ex = recorder_excm(ctx)
        roles = ctx.roles
        pol = RecorderPolicy(ctx.repo, ex, roles, summaries=ctx.get(('summ', 'rec'), lambda: __import__('sa.summaries', fromlist=['Summaries']).Summaries(ctx.repo, ex)), reentry=reentry,
                             framework_faults=framework_faults)
        b, g, pol = build_closure(ctx.repo, ex, roles, kind, policy=pol)
        dom = cls(g, ctx.repo, ex, pol, roles, variant=variant, track_free=track_free, **domkw)
        dom.builder = b
        dom.run()
        return dom
    return ctx.get(key, make)


def run_method(ctx, func, variant, track_free=(), reentry=True, cls=RecDom, framework_faults=False, **domkw):
    key = ('method-run', func.qualname, variant, tuple(sorted(track_free)), reentry, cls.__name__, framework_faults,
           tuple(sorted((k, repr(v)) for k, v in domkw.items())))

    def make():
        ex = recorder_excm(ctx)
        roles = ctx.roles
        pol = RecorderPolicy(ctx.repo, ex, roles, summaries=ctx.get(('summ', 'rec'), lambda: __import__('sa.summaries', fromlist=['Summaries']).Summaries(ctx.repo, ex)), reentry=reentry,
                             framework_faults=framework_faults)
        b, g, pol = build_method(ctx.repo, ex, roles, func, policy=pol)
        dom = cls(g, ctx.repo, ex, pol, roles, variant=variant, track_free=track_free, **domkw)
        dom.builder = b
        dom.run()
        return dom
    return ctx.get(key, make)


def exit_kind(node):
    return node.info['exit']


def describe_state(dom, s):
    r = dom.roles
    d = {}
    for nm in (r.active, r.params, r.playback, r.force_flag, r.enabled):
        v = dom.field(s, nm)
        if v is None:
            d[nm] = 'unset'
        elif v.kind in ('none', 'true', 'false'):
            d[nm] = v.kind
        elif v.kind == 'obj':
            d[nm] = 'set'
        else:
            t = dom.truth(v, s)
            d[nm] = {True: 'truthy', False: 'falsy', None: '?'}[t]
    for k, v in s.extra.items():
        if isinstance(k, tuple) and k[0] == 'n':
            d[k[1]] = v
    return d


def initial_flags(dom, s):
    """(E, I) as assumed on this path about the *initial* recorder state: True / False / None (never tested)"""
    r = dom.roles
    fe = s.facts.get(('field', 'self', r.enabled))
    e = fe[1] if fe else None
    tl = ('field', 'self', r.thread_local)
    i = None
    for k, f in s.facts.items():
        if isinstance(k, tuple) and k[0] == 'pure' and k[1] == 'builtin:hasattr' and k[2] and k[2][0] == tl:
            if f[1] is False:
                i = False
        if isinstance(k, tuple) and k[0] == 'attr' and k[1] == tl:
            if f[1] is not None and i is None:
                i = f[1]
    return e, i


def interception_due(dom, s):
    """the decorator was entered with recording enabled and outside any other interception (as far as the path
    tested): the call must be intercepted"""
    e, i = initial_flags(dom, s)
    return i is not True and e is not False


def per_run_fields(roles):
    """fields of the recorder that some method other than __init__ re-assigns as part of a recording / replay scope"""
    return [roles.active, roles.params, roles.force_flag, roles.counter, roles.playback, roles.outputs]


def idle_value(dom, state, field):
    """does `field` hold the value __init__ gives it? returns (ok, description)"""
    roles = dom.roles
    init = roles.init_values.get(field)
    v = dom.field(state, field)
    if v is None:
        return True, 'untouched'
    dirty = state.extra.get('dirty', frozenset())
    if isinstance(init, ast.Constant):
        if init.value is None:
            return v.kind == 'none', v.kind
        if init.value is False:
            return v.kind == 'false', v.kind
        if init.value is True:
            return v.kind == 'true', v.kind
    if isinstance(init, ast.Call) and isinstance(init.func, ast.Name):
        ctor = init.func.id
        ok = v.kind == 'obj' and isinstance(v.name, tuple) and v.name[0] in ('new', 'init') and v.name[1] == ctor and \
            v.name not in dirty
        return ok, ('fresh %s()' % ctor) if ok else 'not a fresh %s(): %s' % (ctor, v.name if v.kind == 'obj' else v.kind)
    if isinstance(init, (ast.List, ast.Dict)) and not (init.elts if isinstance(init, ast.List) else init.keys):
        ok = v.kind == 'obj' and isinstance(v.name, tuple) and ((v.name[0] == 'lit' and v.name[-1] is True) or
                                                              v.name[0] == 'init') and v.name not in dirty
        return ok, 'fresh empty container' if ok else 'not a fresh empty container: %s' % (v.name if v.kind == 'obj' else v.kind,)
    return True, 'not modelled'


def replay_idle_clause(ctx, res, prop, clause_id, title):
    """shared obligation (also decided by C09.b): every exit of play() leaves the invocation counter and the playback
    outputs fresh - otherwise the next run numbers its outputs from a stale counter and answers from shifted keys"""
    from ..report import Finding
    roles = ctx.roles
    c = res.clause(clause_id, 'R-TYPESTATE', title, floor=2)
    d = run_method(ctx, roles.play, 'idle')
    c.evaluations += d.visited_pairs
    groups = {}
    for n, s in d.exits:
        bad = []
        for f in (roles.counter, roles.outputs, roles.playback):
            ok, desc = idle_value(d, s, f)
            if not ok:
                bad.append('%s %s' % (f, desc))
        g = groups.setdefault(exit_kind(n), dict(ok=True, bad=None, n=0))
        g['n'] += 1
        if bad and g['ok']:
            g['ok'] = False
            g['bad'] = (n, s, bad)
    okall = all(g['ok'] for g in groups.values())
    for ek, g in sorted(groups.items()):
        c.instance('play() exit=%s: counter / outputs / playback recording reset' % ek, roles.play.qualname, g['ok'], detail='%d states' % g['n'])
    bads = [(ek, g['bad']) for ek, g in sorted(groups.items()) if not g['ok']]
    if bads:
        ek, (n, s, bad) = bads[0]
        res.add(Finding(prop, clause_id, 'R-TYPESTATE', roles.play.file, roles.play.qualname, roles.play.node.lineno,
                        'play() not reset on exit(s) %s: %s' % (','.join(e for e, _ in bads), '; '.join(sorted(bad))),
                        'a replay can end (%s) with per-run state left behind (%s): the next recording or replay on this recorder numbers its '
                        'outputs from the stale counter / sees stale outputs' % (ek, '; '.join(sorted(bad))), witness=d.path_to(n, s), exit=ek))
    return okall


def interception_flag_clause(ctx, res, prop, clause_id, variants=('recording', 'playback')):
    """shared obligation (also decided by C09.c): every exit of the input / output decorators - including the exits taken when
    the intercepted function raises - leaves the thread-local in-interception flag false; otherwise every later interception
    on that thread is skipped (bodies run live in replay, outputs are not captured, recordings miss entries)"""
    from ..report import Finding
    roles = ctx.roles
    c = res.clause(clause_id, 'R-TYPESTATE', 'in-interception flag false at every exit of the input / output decorators', floor=2)
    for kind in ('input', 'output'):
        fac, deco, cl = roles.closures[kind]
        bad = None
        n_exits = 0
        for variant in variants:
            d = run_closure(ctx, kind, variant)
            c.evaluations += d.visited_pairs
            for n, s in d.exits:
                n_exits += 1
                for k, v in s.env.items():
                    if k[0] == 'F' and k[2] == 'currently_in_interception' and v.kind != 'false':
                        bad = bad or (d, n, s, v.kind, variant)
        c.instance('%s decorator: flag false on %d exits' % (kind, n_exits), cl.qualname, bad is None)
        if bad:
            d, n, s, k, variant = bad
            res.add(Finding(prop, clause_id, 'R-TYPESTATE', cl.file, cl.qualname, cl.node.lineno,
                            '%s decorator leaves the in-interception flag %s (exit %s)' % (kind, k, exit_kind(n)),
                            'the %s decorator can be left (%s, %s valuation) with the thread-local in-interception flag still set: every later '
                            'interception on this thread is skipped' % (kind, exit_kind(n), variant), witness=d.path_to(n, s), exit=exit_kind(n)))


def replay_body_context_clause(ctx, res, prop, clause_id):
    """a body that runs during replay (run-original policy, output functions without a recorded result) runs *outside* the
    interception context: interceptions nested in it are answered from the recording, not bypassed"""
    from ..report import Finding
    roles = ctx.roles
    c = res.clause(clause_id, 'R-TYPESTATE', 'bodies executed during replay run outside the interception context', floor=1)
    for kind in ('input', 'output'):
        fac, deco, cl = roles.closures[kind]
        d = run_closure(ctx, kind, 'playback')
        c.evaluations += d.visited_pairs
        bad = None
        nb = 0
        for node, t, st, st_in in d.at_calls:
            if t.role != 'body':
                continue
            nb += 1
            for k, v in st_in.env.items():
                if k[0] == 'F' and k[2] == 'currently_in_interception' and v.kind != 'false':
                    bad = bad or (node, st_in, v.kind)
        if nb:
            c.instance('%s decorator: %d replay-time body call states, flag false at each' % (kind, nb), cl.qualname, bad is None)
        if bad:
            node, st, k = bad
            res.add(Finding(prop, clause_id, 'R-TYPESTATE', node.file, node.frame.func.qualname, node.line, ast.unparse(node.ast),
                            'during replay the intercepted function is executed with the in-interception flag %s: every interception nested in it '
                            'is bypassed, so its inputs come from the live system instead of the recording and an unrecorded nested input is not '
                            'reported' % k, witness=d.path_to(node, st) if (node.id, st.key()) in d.pred else None))


def extractor_runs_idle_clause(ctx, res, prop, clause_id):
    """user code that runs after the operation finished (the post-operation metadata extractor) runs with no active recording:
    what it calls is not part of the run and must not be captured into the recording"""
    from ..report import Finding
    roles = ctx.roles
    c = res.clause(clause_id, 'R-TYPESTATE', 'the post-operation extractor runs after the recording was detached from the recorder', floor=1)
    d = run_closure(ctx, 'operation', 'idle')
    c.evaluations += d.visited_pairs
    pm = roles.post_metadata
    bad = None
    nb = 0
    body_labels = {t.label for n_, t in d.builder.call_sites if t.role == 'body'}
    for node, t, st, st_in in d.at_calls:
        if t.role != 'plugin' or not any(d.n(st_in, lab) for lab in body_labels):
            continue            # only user code that runs after the operation body
        nb += 1
        a = st_in.env.get(('F', 'self', roles.active))
        if a is None or d.is_none(a, st_in) is not True:
            bad = bad or (node, st_in)
    c.instance('%d states at plug-in calls of the metadata step: no active recording' % nb, pm.qualname, bad is None and nb > 0)
    if bad:
        node, st = bad
        res.add(Finding(prop, clause_id, 'R-TYPESTATE', node.file, node.frame.func.qualname, node.line, ast.unparse(node.ast),
                        'the post-operation extractor is called while the recording is still the recorder\'s active recording: intercepted '
                        'calls it makes are captured as if the operation had made them (replay never runs the extractor, so unchanged code '
                        'shows recorded-only entries)', witness=d.path_to(node, st) if (node.id, st.key()) in d.pred else None))


def api_leaves_replay_state_clause(ctx, res, prop, clause_id):
    """the public API a replayed operation may call (discard / force / enable / disable) does not touch the replay's own state:
    the per-alias ordinals, the captured outputs and the recording being replayed"""
    from ..report import Finding
    roles = ctx.roles
    c = res.clause(clause_id, 'R-DOM', 'during a replay the re-entrant public API leaves ordinals / captured outputs / replayed recording alone', floor=2)
    for m in roles.reentrant:
        d = run_method(ctx, m, 'playback')
        c.evaluations += d.visited_pairs
        init = d.initial_states()[0]
        bad = None
        for n, s in d.exits:
            for f in (roles.counter, roles.outputs, roles.playback):
                k = ('F', 'self', f)
                if s.env.get(k) != init.env.get(k) and bad is None:
                    bad = (n, s, f)
        c.instance('%s called during a replay: replay state untouched on %d exits' % (m.qualname, len(d.exits)), m.qualname, bad is None and bool(d.exits))
        if bad:
            n, s, f = bad
            res.add(Finding(prop, clause_id, 'R-DOM', m.file, m.qualname, m.node.lineno, 'replay state field %s' % f,
                            '%s, called by replayed code (or by the recorder itself when a data handler fails), re-assigns `%s` although no recording '
                            'is active: the ordinals of later output calls restart, so they are answered from / compared with the wrong '
                            'recorded entries' % (m.qualname, f), witness=d.path_to(n, s), exit=exit_kind(n)))


def options_forwarded_clause(ctx, res, prop, clause_id, kinds=('input', 'output')):
    """every option of a public decorator reaches the shared implementation: a forgotten argument silently becomes the
    implementation's default (sibling agreement between the instance and the static variant)"""
    from ..report import Finding
    roles = ctx.roles
    c = res.clause(clause_id, 'R-SIBLING', 'public decorator variants forward every option to the shared implementation', floor=2)
    for kind in kinds:
        fac = roles.closures[kind][0]
        for m in roles.cls.methods.values():
            if m is fac or m.name.startswith('_'):
                continue
            calls = [n for n in walk_own(m.node) if isinstance(n, ast.Call) and _self_attr(n.func) == fac.name]
            if not calls:
                continue
            call = calls[0]
            passed = {x.id for a in list(call.args) + [k.value for k in call.keywords] for x in ast.walk(a) if isinstance(x, ast.Name)}
            missing = [p for p in m.params if p != 'self' and p not in passed]
            c.instance('%s -> %s: all %d options forwarded' % (m.qualname, fac.name, len(m.params) - 1), m.qualname, not missing)
            c.evaluations += 1
            if missing:
                res.add(Finding(prop, clause_id, 'R-SIBLING', m.file, m.qualname, call.lineno, 'options %s of %s' % (missing, m.name),
                                'the public decorator %s accepts %s but does not hand %s to %s: the option is silently ignored for this '
                                'variant (the implementation falls back to its default)' % (m.name, missing, 'it' if len(missing) == 1 else 'them', fac.name)))


def ordinals_only_when_intercepted_clause(ctx, res, prop, clause_id):
    """an output call that is not intercepted (nested in another interception, recording disabled, no scope open) consumes no
    ordinal: otherwise recorded and replayed ordinals differ, because calls nested in an intercepted input do not happen in replay"""
    from ..report import Finding
    roles = ctx.roles
    c = res.clause(clause_id, 'R-DOM', 'a pass-through output call consumes no ordinal and appends nothing', floor=2)
    fac, deco, cl = roles.closures['output']
    for variant in ('idle', 'recording', 'playback'):
        d = run_closure(ctx, 'output', variant)
        c.evaluations += d.visited_pairs
        bad = None
        n_pt = 0
        for n, s in d.exits:
            if variant != 'idle' and interception_due(d, s):
                continue
            if d.n(s, 'enter:executor') or d.n(s, 'enter:reader') or d.n(s, 'enter:record_output'):
                continue          # the call was intercepted after all (flags not decisive on this path)
            n_pt += 1
            w = [k for k in ('counter-inc', 'outputs-append') if d.n(s, k)]
            if w and bad is None:
                bad = (n, s, w)
        c.instance('output decorator (%s valuation): %d pass-through exits without counter / outputs writes' % (variant, n_pt), cl.qualname,
                   bad is None)
        if bad:
            n, s, w = bad
            res.add(Finding(prop, clause_id, 'R-DOM', cl.file, cl.qualname, cl.node.lineno, 'pass-through writes: ' + ','.join(w),
                            'an output call that is not intercepted still performs %s: ordinals recorded for the intercepted calls are shifted by '
                            'calls that do not take place (or are not numbered) during replay' % ','.join(w),
                            witness=d.path_to(n, s), entry=cl.qualname, exit=exit_kind(n)))


def helper_closure(ctx, seeds):
    """seeds plus the package functions they call (module-level functions by name, methods through self / the class name)"""
    repo = ctx.repo
    out = []
    todo = list(seeds)
    while todo:
        f = todo.pop()
        if f is None or f in out:
            continue
        out.append(f)
        for n in ast.walk(f.node):
            if not isinstance(n, ast.Call):
                continue
            g = None
            if isinstance(n.func, ast.Name):
                g = f.module.functions.get(n.func.id)
                if g is None and f.module.imports.get(n.func.id, '').startswith(repo.package + '.'):
                    dotted = f.module.imports[n.func.id]
                    m = repo.modules.get(dotted.rsplit('.', 1)[0])
                    g = m.functions.get(dotted.rsplit('.', 1)[1]) if m is not None else None
            elif isinstance(n.func, ast.Attribute) and isinstance(n.func.value, ast.Name) and f.cls is not None and \
                    n.func.value.id in ('self', 'cls', f.cls.name):
                g = f.cls.lookup(n.func.attr)
            if g is not None and g not in out:
                todo.append(g)
    return out


def key_helpers_stateless_clause(ctx, res, prop, clause_id):
    """the key builders and everything they call keep no state between calls (no memo keyed by ==, no counters): the key of a call
    is a function of that call alone"""
    from ..report import Finding
    roles = ctx.roles
    c = res.clause(clause_id, 'R-PROV', 'key builders and their helpers are stateless', floor=2)
    for h in helper_closure(ctx, [roles.key_builders['input'], roles.key_builders['output']]):
        bad = stateful_constructs(h)
        c.instance('%s keeps no state across calls' % h.qualname, h.qualname, not bad)
        c.evaluations += 1
        for n, what in bad[:2]:
            res.add(Finding(prop, clause_id, 'R-PROV', h.file, h.qualname, getattr(n, 'lineno', h.node.lineno), what,
                            'a helper on the key path keeps state between calls (%s): two different calls can share one key (values that '
                            'compare equal but serialize differently, objects mutated between calls), so replay hands one call the other\'s '
                            'recorded value' % what))


def stateful_constructs(func):
    """constructs by which a helper keeps state across calls: stores into module / class level objects, `global`, mutation of
    module-level containers, memoisation decorators"""
    out = []
    mod = func.module
    cls_names = set(mod.classes)
    for d in func.decorators:
        if d.split('.')[-1] in ('lru_cache', 'cache', 'cached', 'memoize', 'memoized'):
            out.append((func.node, 'memoisation decorator @%s' % d))
    # a mutable default value is created once and shared by every call: writing into it (or handing it out) keeps state
    a_ = getattr(func.node, 'args', None)
    if a_ is not None:
        pos = a_.args[len(a_.args) - len(a_.defaults):] if a_.defaults else []
        for p_, d_ in list(zip(pos, a_.defaults)) + [(p2, d2) for p2, d2 in zip(a_.kwonlyargs, a_.kw_defaults) if d2 is not None]:
            mutable = isinstance(d_, (ast.Dict, ast.List, ast.Set)) or (
                isinstance(d_, ast.Call) and isinstance(d_.func, ast.Name) and d_.func.id in ('dict', 'list', 'set', 'defaultdict', 'OrderedDict', 'Counter'))
            if not mutable:
                continue
            nm = p_.arg
            for n in ast.walk(func.node):
                wr = (isinstance(n, (ast.Assign, ast.AugAssign)) and any(
                    isinstance(t, ast.Subscript) and isinstance(t.value, ast.Name) and t.value.id == nm
                    for t in (n.targets if isinstance(n, ast.Assign) else [n.target]))) or \
                    (isinstance(n, ast.Call) and isinstance(n.func, ast.Attribute) and isinstance(n.func.value, ast.Name) and n.func.value.id == nm and
                     n.func.attr in ('add', 'append', 'update', 'setdefault', 'pop', 'clear', 'discard', 'remove', 'extend', 'insert')) or \
                    (isinstance(n, ast.Return) and isinstance(n.value, ast.Name) and n.value.id == nm)
                if wr:
                    out.append((n, 'mutable default argument `%s=%s` is written / handed out' % (nm, norm(d_))))
                    break
    for n in ast.walk(func.node):
        if isinstance(n, ast.Global):
            out.append((n, 'global statement'))
        targets = []
        if isinstance(n, ast.Assign):
            targets = n.targets
        elif isinstance(n, ast.AugAssign):
            targets = [n.target]
        for t in targets:
            base = t
            while isinstance(base, (ast.Subscript, ast.Attribute)):
                base = base.value
            if isinstance(base, ast.Name) and (base.id in mod.globals or base.id in cls_names) and not isinstance(t, ast.Name):
                out.append((n, 'store into module / class level object `%s`' % base.id))
        if isinstance(n, ast.Call) and isinstance(n.func, ast.Attribute) and n.func.attr in ('add', 'append', 'update', 'setdefault', 'pop', 'clear', 'discard', 'remove'):
            base = n.func.value
            while isinstance(base, (ast.Subscript, ast.Attribute)):
                base = base.value
            if isinstance(base, ast.Name) and (base.id in mod.globals or base.id in cls_names):
                out.append((n, 'mutation of module / class level object `%s`' % base.id))
    return out
