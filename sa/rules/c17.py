"""C17 - The sampling policy alone decides which recordings are kept.

  C17.a  R-DECISION  keep decision of the recorder and of the S3 size-based calculator, per cell of their guards:
                     forced / no calculator -> keep; rate >= 1 -> keep; otherwise keep iff draw <= rate
  C17.b  R-TYPESTATE at most one draw per decision, from the instance's seeded generator (never the module-level one)
  C17.c  R-TAINT     the recorder's decision does not depend on the recording's content, metadata or outcome
  C17.d  R-ORDER     skipped classes open no recording; the force flag reaches the decision as requested by the body
                     (read before the reset), is only set under an active recording whose class does not ignore forcing
  C17.e  R-AGREE     skip / rate / ignore are looked up in the same table under the same class object
"""
import ast

from ..report import Result, Finding
from ..loader import walk_own, norm, AnalysisError
from ..recorder import _self_attr
from ..resolve import RepoPolicy
from ..cfg import Target
from .. import small
from . import recmodel as rm


class SamplerPolicy(RepoPolicy):
    def user_role(self, owner, param):
        return 'plugin' if param == 'sampling_calculator' else None

    def decide_inline(self, func, call, frame):
        return func.cls is None or func.is_static or True


def decision_table(res, clause, cb, dom, func, who, forced_desc, is_forced, rate_desc):
    """evaluate each return path: outcome class and the facts it assumed"""
    cells = []
    bad = []
    for n, s in dom.exits:
        if n.info['exit'] != 'return':
            continue
        rv = dom.rv(s)
        draws = dom.n(s, 'draw')
        forced = is_forced(dom, s)
        # the rate >= 1 test: a comparison fact between something and the constant 1
        ge1 = None
        for k, f in s.facts.items():
            if isinstance(k, tuple) and k and k[0] == 'cmp' and len(k) == 4:
                op, l, r = k[1], k[2], k[3]
                if r == 1 and op in ('GtE', 'Gt') and f[1] is not None:
                    ge1 = f[1]
                if l == 1 and op in ('LtE', 'Lt') and f[1] is not None:
                    ge1 = f[1]
        if rv is None:
            bad.append((n, s, 'decision returns nothing'))
            continue
        if rv.kind == 'true':
            outcome = 'keep'
        elif rv.kind in ('false', 'none'):
            outcome = 'drop'
        elif rv.kind == 'sym' and isinstance(rv.name, tuple) and rv.name[0] == 'cmp':
            outcome = 'compare'
        else:
            outcome = 'other:%s' % (rv.name,)
        cells.append((forced, ge1, draws, outcome))
        if outcome == 'keep':
            if not (forced is True or ge1 is True):
                bad.append((n, s, 'unconditional keep although neither %s nor rate >= 1 holds on this path' % forced_desc))
            if draws:
                bad.append((n, s, 'a draw is made although the recording is kept unconditionally'))
        elif outcome == 'compare':
            op, l, r = rv.name[1], rv.name[2], rv.name[3]
            # the compared value is the draw itself (the result of the random() call site), not something computed from it
            sites = {dom.site(c_) for c_ in ast.walk(func.node) if isinstance(c_, ast.Call) and isinstance(c_.func, ast.Attribute) and c_.func.attr == 'random'}
            draw_left = isinstance(l, tuple) and len(l) == 3 and l[0] == 'call' and l[2] in sites
            draw_right = isinstance(r, tuple) and len(r) == 3 and r[0] == 'call' and r[2] in sites
            if not (draw_left or draw_right) and any(st_ in str(l) or st_ in str(r) for st_ in sites) or \
                    (not (draw_left or draw_right) and draws == 1):
                bad.append((n, s, 'the value compared with the rate is `%s`, not the draw itself: rounding / scaling the draw moves the boundary, so '
                                  'recordings are kept with a probability other than the rate (a rate of 0 keeps some)' % (l if not isinstance(l, (int, float)) else r,)))
                continue
            okdir = (draw_left and op in ('LtE', 'Lt')) or (draw_right and op in ('GtE', 'Gt'))
            if not okdir:
                bad.append((n, s, 'comparison direction: kept iff `%s %s %s`, expected draw <= rate' % (l, op, r)))
            if draws != 1:
                bad.append((n, s, '%d draws on a comparing path (expected exactly 1)' % draws))
            if forced is True or ge1 is True:
                bad.append((n, s, 'a draw decides although %s / rate >= 1 already holds' % forced_desc))
        elif outcome == 'drop':
            bad.append((n, s, 'a path drops the recording without consulting the draw'))
        else:
            bad.append((n, s, 'decision returns %s' % outcome))
    clause.evaluations += dom.visited_pairs
    clause.instance('%s: %d return paths: forced/none -> keep, rate>=1 -> keep, else draw <= rate' % (who, len(cells)),
                    func.qualname, not bad, detail=str(sorted(set(cells), key=str))[:300])
    maxdraw = max([c[2] for c in cells] or [0])
    cb.instance('%s: at most one draw per decision (max %d)' % (who, maxdraw), func.qualname, maxdraw <= 1)
    cb.evaluations += len(cells)
    seen = set()
    for n, s, msg in bad:
        if msg in seen:
            continue
        seen.add(msg)
        res.add(Finding('C17', 'C17.a' if 'draws' not in msg else 'C17.b', 'R-DECISION', func.file, func.qualname, func.node.lineno,
                        '%s: %s' % (who, msg), msg, witness=dom.path_to(n, s)))
    return cells


def run(ctx):
    res = Result('C17')
    roles = ctx.roles
    repo = ctx.repo
    res.explanation = (
        'Decides the sampling policy as a decision table: every return path of the recorder\'s keep decision and of the '
        'S3 size-based decision is classified (keep / compare draw with rate) together with the guard facts it assumed; '
        'number and source of random draws; taint from the recording into the decision; precedence of skip, discard and '
        'forcing on the inlined operation decorator; the parameter table looked up under one class object. Not decided: '
        'long-run kept fraction, equality of seeded histories.')
    res.not_decided = ['long-run kept fraction (statistics of random.Random)', 'equality of two seeded histories (runtime)']
    res.assumptions = ['random.Random.random() is uniform on [0, 1)']
    ca = res.clause('C17.a', 'R-DECISION', 'keep decision table (recorder and S3 sibling)', floor=2)
    cb = res.clause('C17.b', 'R-TYPESTATE', 'at most one draw, from the seeded instance generator', floor=4)
    cc = res.clause('C17.c', 'R-TAINT', 'decision independent of recording content, metadata and outcome', floor=2)
    cd = res.clause('C17.d', 'R-ORDER', 'precedence: skipped, discard, forcing', floor=4)
    ce = res.clause('C17.e', 'R-AGREE', 'parameters looked up in one table under one class object', floor=2)

    excm = ctx.excm()
    smp = roles.sampler
    cnt = lambda lab: 'random' in lab and lab.endswith('.random')
    # ---- recorder decision
    pol = SamplerPolicy(repo, excm)
    dom = small.analyse(repo, excm, smp, policy=pol, count=lambda l: False, domain=DrawDomain)
    # parameters of the decision by what the call site hands them (not by position): the force flag, the recording
    from ..loader import expand_locals as _xl0
    site = [n for n in ast.walk(roles.start.node) if isinstance(n, ast.Call) and _self_attr(n.func) == smp.name]
    if len(site) != 1:
        raise AnalysisError('anchor-lost role=call site of the sampling decision in %s' % roles.start.qualname)
    force_param = rec_param = None
    bound = list(zip(smp.params[1:], site[0].args)) + [(k.arg, k.value) for k in site[0].keywords if k.arg]
    def origins(a):
        """what the argument may be: itself expanded, or - for a local bound at several places - each of its bindings"""
        e = _xl0(roles.start.node, a, depth=2)
        out = [e]
        if isinstance(e, ast.Name):
            out += [n.value for n in walk_own(roles.start.node) if isinstance(n, ast.Assign) and len(n.targets) == 1 and
                    isinstance(n.targets[0], ast.Name) and n.targets[0].id == e.id]
        return out
    for prm, a0 in [(p_, x) for p_, a_ in bound for x in origins(a_)]:
        a = a0
        f = _self_attr(a)
        if f is None:
            continue
        pm = roles.cls.lookup(f)
        if pm is not None and pm.is_property:
            rets = [n.value for n in walk_own(pm.node) if isinstance(n, ast.Return) and n.value is not None]
            f = _self_attr(rets[0]) if len(rets) == 1 else f
        if f == roles.force_flag:
            force_param = prm
        elif f == roles.active:
            rec_param = prm
    if force_param is None:
        raise AnalysisError('anchor-lost role=force parameter of the sampling decision')

    def forced_rec(d, s):
        f = s.facts.get(('free', smp.qualname, force_param))
        return f[1] if f else None
    decision_table(res, ca, cb, dom, smp, 'recorder decision', 'forced', forced_rec, 'sampling_rate')
    # ---- S3 sibling
    s3 = repo.find_class('S3TapeCassette')
    f3s = [m for m in s3.methods.values() if any(isinstance(n, ast.Call) and _self_attr(n.func) == 'sampling_calculator' for n in ast.walk(m.node))] if s3 else []
    if len(f3s) != 1:
        raise AnalysisError('anchor-lost role=S3 size-based sampling decision')
    f3 = f3s[0]
    dom3 = small.analyse(repo, excm, f3, policy=pol, domain=DrawDomain)

    def forced_s3(d, s):
        f = s.facts.get(('field', 'self', 'sampling_calculator'))
        return f[0] if f else None          # calculator is None
    decision_table(res, ca, cb, dom3, f3, 'S3 size-based decision', 'no calculator configured', forced_s3, 'ratio')
    # the size the calculator judges is the size of the object that is stored: len() of the very payload handed to the bucket
    from ..loader import expand_locals as _xl
    sv3 = s3.lookup('_save_recording')
    if sv3 is None:
        raise AnalysisError('anchor-lost method=S3TapeCassette._save_recording')
    scalls = [n for n in ast.walk(sv3.node) if isinstance(n, ast.Call) and _self_attr(n.func) == f3.name]
    puts = [n for n in ast.walk(sv3.node) if isinstance(n, ast.Call) and isinstance(n.func, ast.Attribute) and n.func.attr == 'put_string' and len(n.args) >= 2]
    if len(scalls) != 1 or not puts:
        raise AnalysisError('anchor-lost role=S3 sampling call / payload upload in the save routine')
    size_arg = scalls[0].args[-1] if scalls[0].args else None
    size_e = size_arg
    for _ in range(3):      # through explaining variables, but not into the payload's own definition
        if isinstance(size_e, ast.Name):
            size_e = _xl(sv3.node, size_e, depth=1)
    measured = size_e.args[0].id if isinstance(size_e, ast.Call) and isinstance(size_e.func, ast.Name) and size_e.func.id == 'len' and size_e.args and \
        isinstance(size_e.args[0], ast.Name) else None
    first_put = sorted(puts, key=lambda n: (n.lineno, n.col_offset))[0]
    stored = first_put.args[1].id if isinstance(first_put.args[1], ast.Name) else None
    oksz = measured is not None and measured == stored
    cb.instance('S3: the calculator is given len(%s), the payload stored is `%s`' % (measured, stored), sv3.qualname, oksz)
    cb.evaluations += 1
    if not oksz:
        res.add(Finding('C17', 'C17.b', 'R-DECISION', sv3.file, sv3.qualname, scalls[0].lineno, norm(scalls[0])[:100],
                        'the size-based calculator is given `%s`, not the size of the object that is stored (`%s`): recordings fall into the wrong size '
                        'tier, so which ones are kept does not follow the configured size policy' % (norm(size_e) if size_e is not None else None, stored)))

    # ---- generator provenance
    for func, cls, fld in ((smp, roles.cls, roles.random), (f3, s3, None)):
        draws = [n for n in ast.walk(func.node) if isinstance(n, ast.Call) and isinstance(n.func, ast.Attribute) and n.func.attr == 'random']
        ok = bool(draws)
        why = ''
        for dcall in draws:
            recv = dcall.func.value
            f = _self_attr(recv)
            init = cls.lookup('__init__')
            seeded = False
            if f:
                for n in ast.walk(init.node):
                    if isinstance(n, ast.Assign) and _self_attr(n.targets[0]) == f and isinstance(n.value, ast.Call) and \
                            isinstance(n.value.func, ast.Name) and n.value.func.id == 'Random' and n.value.args:
                        a0 = n.value.args[0]
                        seeded = isinstance(a0, ast.Constant) or (isinstance(a0, ast.Name) and a0.id in init.params)
                        why = 'self.%s = %s' % (f, norm(n.value))
            if not seeded:
                ok = False
                why = 'draw `%s` is not on a generator constructed from a seed in __init__' % norm(dcall)
        # one generator per object for its whole life: the decisions are the successive draws of Random(seed); re-creating or re-seeding it
        # anywhere else rewinds the sequence (every session would repeat the same first draws)
        gfields = {_self_attr(d_.func.value) for d_ in draws if _self_attr(d_.func.value)}
        for m_ in cls.methods.values():
            if m_.name == '__init__':
                continue
            for n in ast.walk(m_.node):
                rebinds = isinstance(n, ast.Assign) and any(_self_attr(t) in gfields for t in n.targets)
                reseeds = isinstance(n, ast.Call) and isinstance(n.func, ast.Attribute) and n.func.attr in ('seed', 'setstate') and _self_attr(n.func.value) in gfields
                if rebinds or reseeds:
                    ok = False
                    why = '%s %s the generator (`%s`)' % (m_.qualname, 're-creates' if rebinds else 're-seeds', norm(n)[:60])
            # ... and nothing but the decision draws from it: any other consumer shifts every later decision
            if m_ is not func:
                others_ = [n for n in ast.walk(m_.node) if isinstance(n, ast.Attribute) and isinstance(n.ctx, ast.Load) and _self_attr(n) in gfields]
                if others_:
                    ok = False
                    why = '%s also uses the sampling generator (`%s`): the i-th decision is no longer the i-th draw of the seeded sequence' % (
                        m_.qualname, norm(others_[0])[:50])
        cb.instance('%s draws from the instance generator built from the seed' % func.qualname, func.qualname, ok, detail=why)
        cb.evaluations += len(draws)
        if not ok:
            res.add(Finding('C17', 'C17.b', 'R-TYPESTATE', func.file, func.qualname, func.node.lineno, 'draw source', why))

    # ---- C17.c taint
    tainted = taint_closure(smp, {rec_param} if rec_param else set())
    sinks = set()
    for n in walk_own(smp.node):
        if isinstance(n, ast.If):
            sinks |= {x.id for x in ast.walk(n.test) if isinstance(x, ast.Name)}
        if isinstance(n, ast.Return) and n.value is not None:
            sinks |= {x.id for x in ast.walk(n.value) if isinstance(x, ast.Name)}
    # values the returned names are computed from
    back = backward_closure(smp, sinks)
    ok = not (back & {rec_param}) if rec_param else True
    cc.instance('recorder decision: parameter `%s` (the recording) flows only into logging' % rec_param, smp.qualname, ok,
                detail='decision depends on: %s' % sorted(back))
    cc.evaluations += len(back)
    if not ok:
        res.add(Finding('C17', 'C17.c', 'R-TAINT', smp.file, smp.qualname, smp.node.lineno, 'decision depends on the recording',
                        'the keep decision reads the recording (%s): it must be independent of the operation\'s content and outcome' % rec_param))
    # call site: arguments do not mention metadata / exception state
    calls = [n for n in ast.walk(roles.start.node) if isinstance(n, ast.Call) and _self_attr(n.func) == smp.name]
    okc = bool(calls)
    mparam = roles.start.params[2] if len(roles.start.params) > 2 else 'metadata'
    for c in calls:
        names = {x.id for a in c.args for x in ast.walk(a) if isinstance(x, ast.Name)}
        if mparam in names:
            okc = False
    cc.instance('decision call site passes no metadata / outcome', roles.start.qualname, okc)
    if not okc:
        res.add(Finding('C17', 'C17.c', 'R-TAINT', roles.start.file, roles.start.qualname, roles.start.node.lineno,
                        'sampling decision call site', 'the keep decision receives the metadata / outcome of the run'))

    # ---- C17.d precedence on the inlined operation decorator
    d = rm.run_closure(ctx, 'operation', 'idle', track_attrs=('skipped', 'ignore_enforced_sampling'),
                       track_free=('class_function',), key_extra='c17')
    cd.evaluations += d.visited_pairs
    fac, deco, cl = roles.closures['operation']
    bad_skip = None
    bad_force = None
    nforce = 0
    for node, st in d.at_enters:
        callee = node.info['callee']
        if callee.func is roles.sampler:
            fv = st.env.get(('L', callee.id, force_param))
            if st.extra.get('force_requested'):
                nforce += 1
                if fv is None or fv.kind != 'true':
                    bad_force = bad_force or (node, st, fv)
            elif fv is None or fv.kind != 'false':
                bad_force = bad_force or (node, st, fv)
    for node, t, st, st_in in d.at_calls:
        if t.label == 'iface:TapeCassette.create_new_recording':
            sk = [f for k, f in st_in.facts.items() if isinstance(k, tuple) and k[0] == 'attr' and k[2] == 'skipped']
            if not sk or any(f[1] is not False for f in sk):
                bad_skip = bad_skip or (node, st_in)
    cd.instance('a recording is created only after the class was found not skipped', cl.qualname, bad_skip is None)
    cd.instance('force request of the body reaches the decision (read before reset) on %d states' % nforce, roles.start.qualname,
                bad_force is None and nforce > 0)
    if bad_skip:
        node, st = bad_skip
        res.add(Finding('C17', 'C17.d', 'R-ORDER', node.file, node.frame.func.qualname, node.line, ast.unparse(node.ast),
                        'a recording is created on a path that did not establish `skipped` false for this class',
                        witness=d.path_to(node, st) if (node.id, st.key()) in d.pred else None))
    if bad_force or nforce == 0:
        node, st, fv = bad_force if bad_force else (None, None, None)
        res.add(Finding('C17', 'C17.d', 'R-ORDER', roles.start.file, roles.start.qualname, roles.start.node.lineno,
                        'force flag at the decision',
                        'the force flag handed to the keep decision (%s) is not the one requested during the operation: it must be '
                        'read before the reset clears it' % (fv.kind if fv is not None else 'n/a'),
                        witness=d.path_to(node, st) if node is not None and (node.id, st.key()) in d.pred else None))
    # an explicit discard always wins: once discard_recording was called on the active recording nothing is saved
    badd = None
    nd = 0
    for n, s in d.exits:
        if s.extra.get('discard_requested'):
            nd += 1
            if d.n(s, 'iface:TapeCassette.save_recording') or d.n(s, 'iface:TapeCassette.abort_recording') != 1:
                badd = badd or (n, s)
    cd.instance('explicit discard always wins: no save and exactly one abort on %d exits after a discard request' % nd, roles.discard.qualname,
                badd is None and nd > 0)
    if badd or not nd:
        n, s = badd if badd else (None, None)
        res.add(Finding('C17', 'C17.d', 'R-ORDER', roles.discard.file, roles.discard.qualname, roles.discard.node.lineno,
                        'discard request not honoured',
                        'discard_recording() was called while a recording was active, yet the scope ends with %s save and %s abort attempts '
                        '(e.g. recording disabled in between): an explicit discard must always win' % (
                            d.n(s, 'iface:TapeCassette.save_recording') if s else '?', d.n(s, 'iface:TapeCassette.abort_recording') if s else '?'),
                        witness=d.path_to(n, s) if n is not None else None, exit=rm.exit_kind(n) if n is not None else None))
    # forcing is requested by the user's code only: the recorder never forces by itself (e.g. depending on the outcome)
    internal = [(m, n) for m in roles.cls.methods.values() for n in ast.walk(m.node)
                if isinstance(n, ast.Call) and _self_attr(n.func) == roles.force.name]
    writes = [(m, n) for m in roles.cls.methods.values() if m not in (roles.force, roles.reset, roles.init) for n in ast.walk(m.node)
              if isinstance(n, ast.Assign) and any(_self_attr(t) == roles.force_flag for t in n.targets) and
              not (isinstance(n.value, ast.Constant) and n.value.value is False)]      # clearing is not forcing
    cc.instance('the recorder never requests forcing itself (decision independent of the outcome)', roles.cls.name, not internal and not writes)
    for m, n in internal + writes:
        res.add(Finding('C17', 'C17.c', 'R-TAINT', m.file, m.qualname, n.lineno, norm(n),
                        'the recorder itself forces sampling (in %s): whether a recording is kept then depends on the run (its outcome / content) '
                        'instead of the rate and the user\'s own requests' % m.qualname))
    # force_sample_recording: writes the flag only under an active recording whose class does not ignore forcing
    for variant in ('idle', 'recording'):
        df = rm.run_method(ctx, roles.force, variant, track_attrs=('ignore_enforced_sampling',))
        bad = None
        for n, s in df.exits:
            fv = df.field(s, roles.force_flag)
            ign = [f[1] for k, f in s.facts.items() if isinstance(k, tuple) and k[0] == 'attr' and k[2] == 'ignore_enforced_sampling']
            want_set = variant == 'recording' and ign and all(x is False for x in ign)
            if (fv.kind == 'true') != bool(want_set):
                bad = bad or (n, s, fv.kind, ign)
        cd.evaluations += df.visited_pairs
        cd.instance('force_sample_recording (%s): flag set iff recording active and class does not ignore forcing' % variant,
                    roles.force.qualname, bad is None)
        if bad:
            n, s, k, ign = bad
            res.add(Finding('C17', 'C17.d', 'R-ORDER', roles.force.file, roles.force.qualname, roles.force.node.lineno,
                            'force flag write (%s)' % variant,
                            'force flag is %s with ignore facts %s from the %s state' % (k, ign, variant), witness=df.path_to(n, s)))

    # ---- C17.e one table, one key: the operation class object (args[0] for class-level operations, its type otherwise)
    a0 = ('sub', ('free', cl.qualname, cl.node.args.vararg.arg), '0', None)
    sites = {}
    for node, t, st, st_in in d.at_calls:
        if t.label.startswith('method:get'):
            args, kw = d.arg_values(node.ast, node.frame, st_in)
            cf = st_in.facts.get(('free', fac.qualname, 'class_function'), (None, None))[1]
            want = a0 if cf is True else ('type-of', a0) if cf is False else None
            e = sites.setdefault((node.frame.func.qualname, node.line), dict(ok=True, n=0, bad=None, node=node))
            e['n'] += 1
            if not args or want is None or args[0].name != want:
                if e['ok']:
                    e['ok'] = False
                    e['bad'] = (st_in, cf, args[0].name if args else None)
    ce.evaluations += sum(e['n'] for e in sites.values())
    for k, e in sorted(sites.items()):
        ce.instance('parameter table lookup in %s keyed by the operation class object' % k[0], e['node'].where(), e['ok'],
                    detail='%d states' % e['n'])
        if not e['ok']:
            st, cf, got = e['bad']
            node = e['node']
            res.add(Finding('C17', 'C17.e', 'R-AGREE', node.file, node.frame.func.qualname, node.line, ast.unparse(node.ast),
                            'the per-class parameters are looked up under `%s` on a path where class_function is %s: skip, rate and '
                            'ignore-forcing must come from the table entry of the operation class object (args[0] for class-level '
                            'operations, type(args[0]) otherwise)' % (got, cf),
                            witness=d.path_to(node, st) if (node.id, st.key()) in d.pred else None))
    if len(sites) < 2:
        raise AnalysisError('anchor-lost: fewer than two lookups in the per-class parameter table')
    # ---- C17.f no leak of forcing into the next run
    cf_ = res.clause('C17.f', 'R-TYPESTATE', 'force flag cleared at every exit of the operation decorator (no leak into the next run)', floor=1)
    badf = None
    for n, s in d.exits:
        fv = d.field(s, roles.force_flag)
        if fv is not None and fv.kind != 'false':
            badf = badf or (n, s, fv.kind)
    cf_.evaluations += len(d.exits)
    cf_.instance('force flag false on %d exits' % len(d.exits), roles.start.qualname, badf is None)
    if badf:
        n, s, k = badf
        res.add(Finding('C17', 'C17.f', 'R-TYPESTATE', roles.start.file, roles.start.qualname, roles.start.node.lineno,
                        'force flag %s at exit' % k, 'forced sampling requested in one run survives into the next',
                        witness=d.path_to(n, s), exit=rm.exit_kind(n)))
    # and the key agrees with class_function
    # ---- C17.h the decision about a run is taken from that run's own class: the operation decorator keeps nothing between calls
    from . import common as _cm17
    chh = res.clause('C17.h', 'R-PROV', 'the operation decorator keeps no state between calls (parameters looked up per call)', floor=1)
    fac_, deco_, cl_ = roles.closures['operation']
    kept = [(o_, x) for o_ in (fac_, deco_) for x in _cm17.closure_state_writes(o_.node, cl_.node)] + \
        [(o_, (x[0], x[1], x[2])) for o_ in (fac_, deco_) for x in _cm17.one_shot_captures(o_.node, cl_.node)]
    chh.instance('operation decorator closure writes no variable of its factory', cl_.qualname, not kept)
    chh.evaluations += 1
    for o_, (n_, nm_, what_) in kept[:1]:
        res.add(Finding('C17', 'C17.h', 'R-PROV', o_.file, o_.qualname, n_.lineno, '%s: %s' % (nm_, what_),
                        'the operation decorator keeps `%s` between calls of the decorated function (%s): what was resolved for the first caller\'s '
                        'class (skipped / rate / ignore-forcing) is applied to every later caller, whatever its class' % (nm_, what_)))
    # ---- C17.g the sampling options are stored as given
    from . import common
    cg = res.clause('C17.g', 'R-PROV', 'sampling rate / enforced-sampling / skip options are stored as the caller gave them', floor=3)
    common.ctor_params_clause(ctx, res, cg, 'C17', 'C17.g', 'RecordingParameters')
    # ... and the object a caller registers is the caller's (possibly registered for several classes / reused): the registrar does not write to it
    tr17 = roles.recorder_cls if hasattr(roles, 'recorder_cls') else repo.cls('TapeRecorder')
    for m_ in tr17.methods.values():
        stores_ = [n for n in ast.walk(m_.node) if isinstance(n, ast.Subscript) and isinstance(n.ctx, ast.Store) and _self_attr(n.value) == roles.class_params]
        if not stores_:
            continue
        given = {a.arg for f_ in ast.walk(m_.node) if isinstance(f_, (ast.FunctionDef, ast.Lambda)) for a in f_.args.args if a.arg not in ('self', 'cls')}
        changed_ = True
        while changed_:
            changed_ = False
            for n in ast.walk(m_.node):
                if isinstance(n, ast.Assign) and len(n.targets) == 1 and isinstance(n.targets[0], ast.Name) and n.targets[0].id not in given:
                    v_ = n.value
                    srcs_ = [v_] if not isinstance(v_, (ast.BoolOp, ast.IfExp)) else (v_.values if isinstance(v_, ast.BoolOp) else [v_.body, v_.orelse])
                    if any(isinstance(x, ast.Name) and x.id in given for x in srcs_):
                        given.add(n.targets[0].id)
                        changed_ = True
        writes_ = [n for n in ast.walk(m_.node) if
                   (isinstance(n, ast.Call) and isinstance(n.func, ast.Name) and n.func.id in ('setattr', 'delattr') and n.args and
                    isinstance(n.args[0], ast.Name) and n.args[0].id in given) or
                   (isinstance(n, ast.Attribute) and isinstance(n.ctx, (ast.Store, ast.Del)) and isinstance(n.value, ast.Name) and n.value.id in given) or
                   (isinstance(n, ast.Call) and isinstance(n.func, ast.Attribute) and n.func.attr == 'update' and isinstance(n.func.value, ast.Attribute) and
                    n.func.value.attr == '__dict__' and isinstance(n.func.value.value, ast.Name) and n.func.value.value.id in given)]
        # every option the registrar accepts by name reaches the parameters object it builds
        named = [a.arg for a in m_.node.args.args[2:]] + [a.arg for a in m_.node.args.kwonlyargs]
        ctor_calls = [c_ for c_ in ast.walk(m_.node) if isinstance(c_, ast.Call) and isinstance(c_.func, ast.Name) and c_.func.id == 'RecordingParameters']
        if named and ctor_calls:
            passed = {x.id for c_ in ctor_calls for x in ast.walk(c_) if isinstance(x, ast.Name)}
            dropped_ = [p_ for p_ in named if p_ not in passed]
            cg.instance('%s hands every named option to RecordingParameters' % m_.name, m_.qualname, not dropped_)
            if dropped_:
                res.add(Finding('C17', 'C17.g', 'R-PROV', m_.file, m_.qualname, ctor_calls[0].lineno, 'options %s not passed on' % dropped_,
                                '%s accepts %s but does not hand %s to the RecordingParameters it builds: the option is silently ignored when given through '
                                'the keyword form of the decorator' % (m_.name, named, dropped_)))
        cg.instance('%s registers the parameters without writing to the object it was given' % m_.name, m_.qualname, not writes_)
        for n in writes_[:1]:
            res.add(Finding('C17', 'C17.g', 'R-PROV', m_.file, m_.qualname, n.lineno, norm(n)[:80],
                            '%s writes to the parameters object it was handed (`%s`): the same object registered for another class - or kept by the caller '
                            'as its defaults - changes with it, so that class is sampled / skipped by options it was never given' % (m_.name, norm(n)[:60])))
    # ---- C17.i one decision per recording: the storage-level decision is taken inside the cassette's store routine, which the public save
    # wrapper runs exactly once (a retry would draw again and shift every later decision); the decision keeps nothing between recordings
    ci17 = res.clause('C17.i', 'R-TYPESTATE', 'the store routine (and its sampling decision) runs once per save and keeps no state', floor=2)
    base17 = repo.cls('TapeCassette')
    sw = base17.methods.get('save_recording')
    if sw is None:
        raise AnalysisError('anchor-lost method=TapeCassette.save_recording')
    hooks = [n for n in ast.walk(sw.node) if isinstance(n, ast.Call) and _self_attr(n.func) == '_save_recording']
    in_loop = any(isinstance(l, (ast.For, ast.While)) and any(h is x for h in hooks for x in ast.walk(l)) for l in ast.walk(sw.node))
    once = len(hooks) == 1 and not in_loop
    ci17.instance('TapeCassette.save_recording calls the store routine exactly once (%d call site(s))' % len(hooks), sw.qualname, once)
    ci17.evaluations += 1
    if not once:
        res.add(Finding('C17', 'C17.i', 'R-TYPESTATE', sw.file, sw.qualname, hooks[1].lineno if len(hooks) > 1 else sw.node.lineno,
                        '%d calls of _save_recording' % len(hooks),
                        'save_recording can run the store routine more than once for one recording: the S3 cassette decides (and draws) inside it, so a '
                        'recording is decided twice and every later decision uses a shifted draw - the kept set no longer follows the seeded sequence'))
    from . import common as _cm17b
    _cm17b.stateless_methods_clause(res, ci17, 'C17', 'C17.i', s3, [f3.name], 'each recording is judged by the calculator\'s answer for it')
    _cm17b.import_clauses(ctx, res, 'C12', ['C12.a'], 'C17', 'C17.j', 'R-LOCKSET', 'a recording that was decided to be kept reaches the storage: nothing but the flusher takes requested operations out of the asynchronous buffer', floor=2)
    return res


class DrawDomain(small.SmallDomain):
    def on_call_attempt(self, node, t, state):
        st = small.SmallDomain.on_call_attempt(self, node, t, state)
        if t.label.endswith('.random') or t.label == 'lib:random.random':
            st = st.bump(('n', 'draw'))
        return st

    def call_result(self, node, t, args, kwargs, state):
        return None


def taint_closure(func, seeds):
    t = set(seeds)
    changed = True
    while changed:
        changed = False
        for n in walk_own(func.node):
            if isinstance(n, ast.Assign):
                names = {x.id for x in ast.walk(n.value) if isinstance(x, ast.Name)}
                if names & t:
                    for tg in n.targets:
                        for x in ast.walk(tg):
                            if isinstance(x, ast.Name) and x.id not in t:
                                t.add(x.id)
                                changed = True
    return t


def backward_closure(func, names):
    b = set(names)
    changed = True
    while changed:
        changed = False
        for n in walk_own(func.node):
            if isinstance(n, ast.Assign):
                tg = {x.id for t in n.targets for x in ast.walk(t) if isinstance(x, ast.Name)}
                if tg & b:
                    for x in ast.walk(n.value):
                        if isinstance(x, ast.Name) and x.id not in b:
                            b.add(x.id)
                            changed = True
    return b
