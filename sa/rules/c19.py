"""C19 - The studio plays each recording once under its own category's tuning.

  C19.a  R-PROV     within _play_category everything handed to the Equalizer derives from the tuning created in this call for
                    this category; no escaping closure / bound method reads state that a later category overwrites
  C19.b  R-CONTAIN  a failing tuner is returned as that category's result (the routine is not a generator, the handler returns
                    the exception); play() calls it once per category
  C19.c  R-PROV     explicit ids are grouped by the cassette's own category extraction, each id once, in a deterministic order
  C19.d  R-PROV     lookup-driven selection passes exactly this category; explicit ids are passed as given
"""
import ast

from ..report import Result, Finding
from ..loader import walk_own, norm, AnalysisError


def self_attr(e):
    if isinstance(e, ast.Attribute) and isinstance(e.value, ast.Name) and e.value.id == 'self':
        return e.attr
    return None


def run(ctx):
    res = Result('C19')
    repo = ctx.repo
    st = repo.find_class('PlaybackStudio')
    if st is None:
        raise AnalysisError('anchor-lost class=PlaybackStudio')
    res.explanation = (
        'Decides the provenance skeleton of the studio: every argument of the per-category Equalizer is traced to the tuning '
        'object created in that call for that category (closures and bound methods that escape into the lazily consumed result '
        'must not read fields the routine rewrites for the next category); the tuner failure path; the grouping of explicit ids; '
        'the category handed to the lookup helper. Not decided: overlapped consumption of the lazy per-category generators, '
        'cassette behaviour.')
    res.not_decided = ['interleaved consumption of the lazy per-category generators (they share one recorder)', 'cassette behaviour (C10)']
    ca = res.clause('C19.a', 'R-PROV', 'Equalizer arguments derive from this call\'s tuning; no late-bound shared state', floor=5)
    cb = res.clause('C19.b', 'R-CONTAIN', 'failing tuner isolated; routine is not a generator', floor=3)
    cc = res.clause('C19.c', 'R-PROV', 'explicit ids grouped by the cassette\'s category extraction, each once, deterministic order', floor=2)
    cd = res.clause('C19.d', 'R-PROV', 'lookup receives this category; explicit ids passed as given', floor=2)
    play = st.lookup('play')
    if play is None:
        raise AnalysisError('anchor-lost method=PlaybackStudio.play')
    # nothing is carried from one category to the next: a local that the per-category loop sets only on some paths (an error holder, a
    # tuning) and that was initialised before the loop would make a later category inherit an earlier one's outcome
    from . import common as _cm0
    carried = [(m_, lp_, nm_) for m_ in st.methods.values() for lp_, nm_ in _cm0.loop_carried(m_.node)]
    cb.instance('no local of the studio\'s loops is carried from one iteration into the next', st.name, not carried)
    cb.evaluations += 1
    for m_, lp_, nm_ in carried[:2]:
        res.add(Finding('C19', 'C19.b', 'R-CONTAIN', m_.file, m_.qualname, lp_.lineno, 'local `%s` of the loop' % nm_,
                        '`%s` is initialised before the loop in %s and afterwards only assigned on some paths of an iteration: once set (e.g. by a '
                        'failing tuner) it keeps its value for every later category, which then reports the earlier category\'s outcome' % (nm_, m_.qualname)))
    pcs = [m for m in st.methods.values() if any(isinstance(n, ast.Call) and isinstance(n.func, ast.Attribute) and n.func.attr == 'create_category_tuning'
                                                 for n in ast.walk(m.node))]
    grps = [m for m in st.methods.values() if m is not play and any(
        isinstance(n, ast.Attribute) and n.attr == 'extract_recording_category' for n in ast.walk(m.node))]
    if play is None or len(pcs) != 1 or len(grps) != 1:
        raise AnalysisError('anchor-lost studio methods (per-category routine / grouping routine)')
    pc, grp = pcs[0], grps[0]
    cat = pc.params[1]
    ids_p = pc.params[2]
    # tuning local
    tuning = None
    ttry = None
    for n in ast.walk(pc.node):
        if isinstance(n, ast.Assign) and isinstance(n.value, ast.Call) and isinstance(n.value.func, ast.Attribute) and \
                n.value.func.attr == 'create_category_tuning' and isinstance(n.targets[0], ast.Name):
            tuning = n.targets[0].id
            okarg = n.value.args and isinstance(n.value.args[0], ast.Name) and n.value.args[0].id == cat
            ca.instance('tuning created for this call\'s category: %s' % norm(n), pc.qualname, bool(okarg))
            if not okarg:
                res.add(Finding('C19', 'C19.a', 'R-PROV', pc.file, pc.qualname, n.lineno, norm(n), 'the tuning is not created for the category being played'))
    if tuning is None:
        raise AnalysisError('anchor-lost role=tuning local (create_category_tuning must be called in _play_category)')
    written = set()
    for n in ast.walk(pc.node):
        if isinstance(n, (ast.Assign, ast.AugAssign)):
            for t in (n.targets if isinstance(n, ast.Assign) else [n.target]):
                if self_attr(t):
                    written.add(self_attr(t))
    eqc = [n for n in ast.walk(pc.node) if isinstance(n, ast.Call) and isinstance(n.func, ast.Name) and n.func.id == 'Equalizer']
    if len(eqc) != 1:
        raise AnalysisError('anchor-lost: %d Equalizer constructions in _play_category' % len(eqc))
    e = eqc[0]
    nested = {f.name: f for f in pc.nested.values() if not isinstance(f, list)}
    locals_assigned = {}
    for n in walk_own(pc.node):
        if isinstance(n, ast.Assign) and isinstance(n.targets[0], ast.Name):
            locals_assigned.setdefault(n.targets[0].id, []).append(n.value)

    def reads_overwritten(fn_node):
        out = []
        for x in ast.walk(fn_node):
            if isinstance(x, ast.Attribute) and self_attr(x) in written and isinstance(x.ctx, ast.Load):
                out.append(x)
        return out
    args = [(i, a) for i, a in enumerate(e.args)] + [(k.arg, k.value) for k in e.keywords]
    for name, a in args:
        ok = False
        why = norm(a)
        if isinstance(a, ast.Attribute) and isinstance(a.value, ast.Name) and a.value.id == tuning:
            ok = True
        elif isinstance(a, ast.Name) and a.id in nested:
            f = nested[a.id]
            bound = set(f.all_param_names)
            free = {x.id for x in ast.walk(f.node) if isinstance(x, ast.Name)} - bound
            stale = reads_overwritten(f.node)
            loopvars = set()
            ok = not stale and free <= {tuning, 'self', cat, ids_p} | set(nested)
            why = 'closure %s reads %s%s' % (a.id, sorted(free), ' and overwritten field(s) %s' % [norm(x) for x in stale] if stale else '')
        elif isinstance(a, ast.Lambda):
            bound = {x.arg for x in ast.walk(a.args) if isinstance(x, ast.arg)}
            free = {x.id for x in ast.walk(a.body) if isinstance(x, ast.Name)} - bound
            stale = reads_overwritten(a)
            ok = not stale and free <= {tuning, 'self', cat, ids_p} | set(nested)
            why = 'lambda reads %s%s' % (sorted(free), ' and overwritten field(s) %s' % [norm(x) for x in stale] if stale else '')
        elif isinstance(a, ast.Name) and a.id in locals_assigned:
            # ids iterator
            def leaves(v):
                if isinstance(v, ast.IfExp):
                    return leaves(v.body) + leaves(v.orelse)
                return [v]
            ok = all(isinstance(x, ast.Call) for v in locals_assigned[a.id] for x in leaves(v))
            # the ids come as a one-shot iterator: the equalizer must be its only reader (a log line that joins / counts it first leaves
            # nothing to replay)
            if name == 0:
                reads = [x for x in walk_own(pc.node) if isinstance(x, ast.Name) and x.id == a.id and isinstance(x.ctx, ast.Load)]
                if len(reads) != 1:
                    ok = False
                    other = [x for x in reads if x is not a]
                    why = 'the id iterator `%s` is read %d times (line %s): whatever consumes it before the equalizer leaves nothing to replay' % (
                        a.id, len(reads), ', '.join(str(x.lineno) for x in other))
        elif self_attr(a) is not None:
            f = self_attr(a)
            m = st.lookup(f)
            if m is not None:
                # bound method escaping into the lazy generator
                stale = reads_overwritten(m.node)
                ok = not stale
                why = 'bound method self.%s reads %s' % (f, [norm(x) for x in stale])
            else:
                ok = f not in written
                why = 'self.%s%s' % (f, ' (re-assigned by _play_category for every category)' if f in written else ' (configuration)')
        ca.instance('Equalizer argument %s: %s' % (name, why[:110]), pc.qualname, ok)
        ca.evaluations += 1
        if not ok:
            res.add(Finding('C19', 'C19.a', 'R-PROV', pc.file, pc.qualname, a.lineno, norm(a),
                            'Equalizer argument %s (%s) does not derive from the tuning created in this call alone: the per-category result is '
                            'consumed lazily, so it would run under the state left by the last category' % (name, why)))
    # ---------------- C19.b
    is_gen = pc.is_generator
    cb.instance('_play_category is a plain function (its `return ex` reaches the caller)', pc.qualname, not is_gen)
    if is_gen:
        res.add(Finding('C19', 'C19.b', 'R-CONTAIN', pc.file, pc.qualname, pc.node.lineno, 'yield in _play_category',
                        '_play_category contains a yield: it became a generator, so `return ex` for a failing tuner only sets StopIteration.value '
                        'and the category silently yields nothing; tuning and lookup are deferred to consumption time'))
    okh = False
    from .. import paths as _paths
    for t in [n for n in walk_own(pc.node) if isinstance(n, ast.Try)]:
        if any(isinstance(x, ast.Call) and isinstance(x.func, ast.Attribute) and x.func.attr == 'create_category_tuning' for b in t.body for x in ast.walk(b)):
            hs = [h for h in t.handlers if h.type is not None and norm(h.type) in ('Exception',) and h.name]
            if len(hs) != 1 or any(isinstance(x, ast.Raise) for x in ast.walk(hs[0])):
                continue
            # path table of the function: every path that went through this handler returns the caught exception itself
            try:
                table = _paths.return_paths(pc.node)
            except _paths.Unsupported as ex:
                raise AnalysisError('per-category routine has a shape the path table does not model: %s' % ex)
            mark = '<exception %s>' % norm(hs[0].type)
            via = [p for p in table if any(isinstance(c, ast.Name) and c.id == mark and pol for c, pol in p.conds)]
            okh = bool(via) and all(not p.raises and isinstance(p.value, ast.Name) and p.value.id == hs[0].name for p in via)
    from .common import fragile_handler_steps as _fragile
    frag = [x for t in walk_own(pc.node) if isinstance(t, ast.Try) for h in t.handlers
            if any(isinstance(x, ast.Call) and isinstance(x.func, ast.Attribute) and x.func.attr == 'create_category_tuning' for b in t.body for x in ast.walk(b))
            for x in _fragile(h)]
    cb.instance('the handler of a failing tuner has no step that can fail on its own', pc.qualname, not frag)
    for x in frag[:1]:
        res.add(Finding('C19', 'C19.b', 'R-CONTAIN', pc.file, pc.qualname, x.lineno, norm(x)[:80],
                        'the handler that turns a failing tuner into that category\'s result evaluates `%s`, which fails for some exceptions (one raised '
                        'without arguments / without that attribute): the new error leaves the per-category routine and takes the other categories '
                        'down with it' % norm(x)[:60]))
    cb.instance('tuner call inside try; handler returns the exception as this category\'s result', pc.qualname, okh)
    if not okh:
        res.add(Finding('C19', 'C19.b', 'R-CONTAIN', pc.file, pc.qualname, pc.node.lineno, 'tuner failure handler',
                        'a tuner that raises is not turned into that category\'s result: other categories would be affected'))
    loops = [n for n in walk_own(play.node) if isinstance(n, ast.For)]
    okp = False
    for l in loops:
        calls = [x for x in ast.walk(l) if isinstance(x, ast.Call) and self_attr(x.func) == pc.name]
        if len(calls) == 1:
            c0 = calls[0]
            tv = [x.id for x in ast.walk(l.target) if isinstance(x, ast.Name)]
            okp = len(c0.args) >= 2 and isinstance(c0.args[0], ast.Name) and c0.args[0].id in tv and \
                any(isinstance(s, ast.Assign) and isinstance(s.targets[0], ast.Subscript) and isinstance(s.targets[0].slice, ast.Name) and
                    s.targets[0].slice.id == c0.args[0].id for s in l.body)
    # the same written as a dict comprehension: {category: self._play_category(category, ids) for category, ids in ...}
    for dc in [n for n in ast.walk(play.node) if isinstance(n, ast.DictComp)]:
        calls = [x for x in ast.walk(dc) if isinstance(x, ast.Call) and self_attr(x.func) == pc.name]
        if len(calls) == 1 and calls[0] is dc.value and len(dc.generators) == 1 and not dc.generators[0].ifs:
            c0 = calls[0]
            tv = [x.id for x in ast.walk(dc.generators[0].target) if isinstance(x, ast.Name)]
            okp = okp or (len(c0.args) >= 2 and isinstance(c0.args[0], ast.Name) and c0.args[0].id in tv and
                          isinstance(dc.key, ast.Name) and dc.key.id == c0.args[0].id)
    cb.instance('play(): one _play_category call per category, result stored under that category', play.qualname, okp)
    cb.evaluations += 3
    if not okp:
        res.add(Finding('C19', 'C19.b', 'R-CONTAIN', play.file, play.qualname, play.node.lineno, 'per-category loop',
                        'play() does not call _play_category exactly once per category and store the result under that category'))
    # ---------------- C19.c grouping
    okg, why = grouping_shape(grp)
    cc.instance('grouping: every id appended once to the group of extract_recording_category(id)', grp.qualname, okg, detail=why)
    if not okg:
        res.add(Finding('C19', 'C19.c', 'R-PROV', grp.file, grp.qualname, grp.node.lineno, 'grouping', why))
    # the groups are exactly the categories of the given ids: a `defaultdict` creates a group whenever it is *read* by subscript, so the only
    # subscripts on it are the ones the ids are appended through
    dd = {t_.id for n in walk_own(grp.node) if isinstance(n, ast.Assign) and isinstance(n.value, ast.Call) and norm(n.value.func).split('.')[-1] == 'defaultdict'
          for t_ in n.targets if isinstance(t_, ast.Name)}
    appended_through = {id(x.func.value) for x in ast.walk(grp.node) if isinstance(x, ast.Call) and isinstance(x.func, ast.Attribute) and x.func.attr == 'append'}
    stray = [x for x in ast.walk(grp.node) if isinstance(x, ast.Subscript) and isinstance(x.value, ast.Name) and x.value.id in dd and
             isinstance(x.ctx, ast.Load) and id(x) not in appended_through]
    cc.instance('grouping: no group is created by merely looking one up', grp.qualname, not stray)
    for x in stray[:1]:
        res.add(Finding('C19', 'C19.c', 'R-PROV', grp.file, grp.qualname, x.lineno, norm(x)[:60],
                        '`%s` reads the defaultdict of groups by subscript: that creates an (empty) group for a category none of the given ids belongs to, '
                        'and a category with an empty id list is looked up in the cassette instead - recordings nobody selected are replayed' % norm(x)[:40]))
    sets = [n for n in ast.walk(grp.node) if isinstance(n, ast.Call) and isinstance(n.func, ast.Name) and n.func.id in ('set', 'frozenset')]
    det = any(isinstance(n, ast.Call) and isinstance(n.func, ast.Name) and n.func.id == 'sorted' for n in ast.walk(grp.node)) and not sets
    cc.instance('deterministic category order (sorted, no set iteration)', grp.qualname, det)
    cc.evaluations += 2
    if not det:
        res.add(Finding('C19', 'C19.c', 'R-PROV', grp.file, grp.qualname, grp.node.lineno, 'category order', 'categories are not reported in a deterministic (sorted) order'))
    # ---------------- C19.d
    lk = [n for n in ast.walk(pc.node) if isinstance(n, ast.Call) and isinstance(n.func, ast.Name) and n.func.id == 'find_matching_recording_ids']
    okl = len(lk) == 1 and len(lk[0].args) >= 2 and isinstance(lk[0].args[1], ast.Name) and lk[0].args[1].id == cat
    cd.instance('lookup helper receives this category', pc.qualname, okl, detail=norm(lk[0])[:100] if lk else '')
    if not okl:
        res.add(Finding('C19', 'C19.d', 'R-PROV', pc.file, pc.qualname, lk[0].lineno if lk else pc.node.lineno, norm(lk[0])[:120] if lk else 'lookup',
                        'lookup-driven selection does not pass exactly the category being played'))
    it = [n for n in ast.walk(pc.node) if isinstance(n, ast.Call) and isinstance(n.func, ast.Name) and n.func.id == 'iter' and n.args and
          isinstance(n.args[0], ast.Name) and n.args[0].id == ids_p]
    cd.instance('explicit ids passed as given (iter(%s))' % ids_p, pc.qualname, bool(it))
    cd.evaluations += 2
    if not it:
        res.add(Finding('C19', 'C19.d', 'R-PROV', pc.file, pc.qualname, pc.node.lineno, 'explicit ids', 'explicit recording ids are not handed to the equalizer as given'))
    from . import c10
    cx = res.clause('C19.e', 'R-SIBLING', 'lookup-driven selection is category-exact on the listing cassettes (shared with C10.a)', floor=2)
    excm = ctx.excm(['playback.tape_cassette'])
    c10.category_exactness_loops(ctx, res, cx, 'C19', 'C19.e', c10.ListingPolicy(repo, excm), excm,
                                 (repo.cls('InMemoryTapeCassette'), repo.cls('FileBasedTapeCassette')))
    cy = res.clause('C19.f', 'R-ABSINT', 'the equalizer hands each recording to a worker at most once (shared with C13.e)', floor=1)
    from . import c13
    c13.dispatch_once_clause(ctx, res, cy, 'C19', 'C19.f')
    # ---- C19.i the default lookup window is produced in the convention its consumer expects (naive UTC, localised by the S3 facade)
    ci = res.clause('C19.i', 'R-AGREE', 'default lookup start: clock convention agrees with the S3 facade (naive UTC <-> localize)', floor=1)
    dflt = st.lookup_const('DEFAULT_LOOKUP_PROPERTIES')
    fac = repo.find_class('S3BasicFacade')
    if dflt is None or fac is None or fac.lookup('iter_keys') is None:
        raise AnalysisError('anchor-lost role=default lookup properties / S3 facade listing')
    clock = [c for c in ast.walk(dflt) if isinstance(c, ast.Call) and isinstance(c.func, ast.Attribute) and c.func.attr in ('utcnow', 'now', 'today', 'utcfromtimestamp', 'fromtimestamp')]
    if not clock:
        raise AnalysisError('default lookup properties read no clock: shape not modelled')
    ik_ = fac.lookup('iter_keys').node
    consumer = 'naive' if any(isinstance(c, ast.Call) and isinstance(c.func, ast.Attribute) and c.func.attr == 'localize' for c in ast.walk(ik_)) else \
        ('aware' if any(isinstance(c, ast.Call) and isinstance(c.func, ast.Attribute) and c.func.attr == 'astimezone' for c in ast.walk(ik_)) else 'unknown')
    for c in clock:
        if c.func.attr == 'utcnow':
            producer = 'naive'
        elif c.func.attr == 'now' and (c.args or c.keywords):
            producer = 'aware'
        else:
            producer = 'naive-local'
        ok = (consumer == 'unknown' and producer != 'naive-local') or producer == consumer
        ci.instance('default start `%s` is %s, the facade expects %s bounds' % (norm(c), producer, consumer), st.name, ok)
        ci.evaluations += 1
        if not ok:
            res.add(Finding('C19', 'C19.i', 'R-AGREE', st.module.relpath, st.name, c.lineno, norm(c),
                            'the default lookup window starts at `%s` (%s datetime) but the S3 listing %s: a lookup-driven run with default '
                            'properties %s' % (norm(c), producer,
                                               'localises its bounds as naive UTC values' if consumer == 'naive' else 'treats bounds as %s' % consumer,
                                               'raises on the S3 cassette' if producer == 'aware' else 'is shifted by the local UTC offset')))
    # ---- C19.j the lookup helper keeps no state: every lookup-driven run asks the cassette again
    from . import recmodel as _rm
    lk_ = None
    for m__ in repo.modules.values():
        if 'find_matching_recording_ids' in m__.functions:
            lk_ = m__.functions['find_matching_recording_ids']
    if lk_ is None:
        raise AnalysisError('anchor-lost function=find_matching_recording_ids')
    cj = res.clause('C19.j', 'R-PROV', 'the lookup helper is stateless (no memo of the one-shot id iterator)', floor=1)
    badl = _rm.stateful_constructs(lk_)
    cj.instance('%s keeps no state across calls' % lk_.qualname, lk_.qualname, not badl)
    cj.evaluations += 1
    for n_, what in badl[:1]:
        res.add(Finding('C19', 'C19.j', 'R-PROV', lk_.file, lk_.qualname, getattr(n_, 'lineno', lk_.node.lineno), what,
                        'the lookup helper keeps state between calls (%s): a later run with the same arguments gets the iterator an earlier run '
                        'already consumed - it replays the left-overs or nothing, and never sees recordings saved in between' % what))
    # ---- C19.h lookup-driven selection: the per-category lookups are lazy and consumed interleaved, so a cassette lookup keeps no state
    from . import common as _cm
    ch = res.clause('C19.h', 'R-PROV', 'cassette lookups keep no state on the cassette (categories are consumed lazily, possibly interleaved)', floor=3)
    for cn in ('InMemoryTapeCassette', 'FileBasedTapeCassette', 'S3TapeCassette'):
        c_ = repo.find_class(cn)
        if c_ is None:
            raise AnalysisError('anchor-lost class=%s' % cn)
        _cm.stateless_methods_clause(res, ch, 'C19', 'C19.h', c_, ['iter_recording_ids'],
                                     'each category draws its recordings from its own lookup')
    # ---- C19.g the categories and the explicit ids are stored as given (order preserved)
    from . import common
    cg = res.clause('C19.g', 'R-PROV', 'categories and explicit ids are stored as the caller gave them', floor=2)
    common.ctor_params_clause(ctx, res, cg, 'C19', 'C19.g', 'PlaybackStudio', params=['categories', 'recording_ids'])
    # ---- C19.k a reported comparison stems from the replay of its own recording: answers of a previous worker cannot be taken for
    # those of the current one (shared with C08.e)
    from . import common as _cm19
    _cm19.import_clauses(ctx, res, 'C08', ['C08.e'], 'C19', 'C19.k', 'R-AGREE',
                         'worker answers are correlated with the recording they were asked for (fresh channels per worker)', floor=1)
    # ---- C19.l selection: the lookup hands the cassette the caller's filter; S3 prefixes end at the category; the worker serves every task
    _cm19.import_clauses(ctx, res, 'C10', ['C10.a', 'C10.b'], 'C19', 'C19.l', 'R-SIBLING', 'lookup filter and listing prefixes select exactly the category\'s recordings', floor=4)
    _cm19.import_clauses(ctx, res, 'C08', ['C08.c'], 'C19', 'C19.m', 'R-CONTAIN', 'the worker keeps serving: a selected recording is replayed, not failed for a worker that left', floor=3)
    from . import common as _r7
    _r7.import_clauses(ctx, res, 'C08', ['C08.a', 'C08.g', 'C08.h'], 'C19', 'C19.n', 'R-TYPESTATE', 'every selected recording gets exactly one comparison from the equalizer', floor=1)
    return res


def grouping_shape(grp):
    # form (i): loop over self.recording_ids; category = <cassette>.extract_recording_category(id); grouping[category].append(id)
    for l in [n for n in walk_own(grp.node) if isinstance(n, ast.For)]:
        if not any(self_attr(x) == 'recording_ids' for x in ast.walk(l.iter)):
            continue
        idv = l.target.id if isinstance(l.target, ast.Name) else None
        catv = None
        for s in l.body:
            if isinstance(s, ast.Assign) and isinstance(s.value, ast.Call) and isinstance(s.value.func, ast.Attribute) and \
                    s.value.func.attr == 'extract_recording_category' and s.value.args and isinstance(s.value.args[0], ast.Name) and \
                    s.value.args[0].id == idv and isinstance(s.targets[0], ast.Name):
                catv = s.targets[0].id
        appends = [x for x in ast.walk(l) if isinstance(x, ast.Call) and isinstance(x.func, ast.Attribute) and x.func.attr == 'append']
        if catv and len(appends) == 1:
            a = appends[0]
            tgt = a.func.value
            if isinstance(tgt, ast.Subscript) and isinstance(tgt.slice, ast.Name) and tgt.slice.id == catv and a.args and \
                    isinstance(a.args[0], ast.Name) and a.args[0].id == idv:
                return True, 'loop: %s[%s].append(%s)' % (norm(tgt.value), catv, idv)
        if not catv and len(appends) == 1:
            # the category written in place as the subscript: grouping[<cassette>.extract_recording_category(id)].append(id)
            a = appends[0]
            tgt = a.func.value
            k = tgt.slice if isinstance(tgt, ast.Subscript) else None
            if isinstance(k, ast.Call) and isinstance(k.func, ast.Attribute) and k.func.attr == 'extract_recording_category' and k.args and \
                    isinstance(k.args[0], ast.Name) and k.args[0].id == idv and a.args and isinstance(a.args[0], ast.Name) and a.args[0].id == idv:
                return True, 'loop: %s[extract_recording_category(%s)].append(%s)' % (norm(tgt.value), idv, idv)
        return False, 'the grouping loop does not append each id exactly once to the group of its extracted category'
    # form (ii): groupby over input sorted by the same key
    for n in ast.walk(grp.node):
        if isinstance(n, ast.Call) and norm(n.func).endswith('groupby'):
            src = n.args[0] if n.args else None
            key = [k.value for k in n.keywords if k.arg == 'key'] or (n.args[1:2])
            sorted_same = isinstance(src, ast.Call) and isinstance(src.func, ast.Name) and src.func.id == 'sorted' and key and \
                any(k.arg == 'key' and norm(k.value) == norm(key[0]) for k in src.keywords)
            if sorted_same:
                return True, 'groupby over input sorted by the same key'
            return False, 'itertools.groupby only merges adjacent ids: with an id list in which a category\'s ids are not adjacent, a later run ' \
                          'replaces the earlier one and those recordings are never played (the input is not sorted by the grouping key first)'
    raise AnalysisError('grouping of explicit ids has a shape the rule does not model (expected a loop appending each id to the group of '
                        'extract_recording_category(id), or groupby over input sorted by that key)')
