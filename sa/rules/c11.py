"""C11 - Recorded data cannot be altered through the values handed out.

  C11.a  R-PROV      every Recording.get_data returns a value that passed through the codec copy inside that call;
                     __getitem__ delegates to get_data
  C11.b  R-WHOCALLS  get_data_direct is called only from get_data and from the output extractor under direct_access, and
                     direct_access=True is requested only by the recording-phase metadata step
  C11.c  R-PROV      every cassette fetch decodes afresh: the rebuilt recording derives from a decode() made in that call,
                     and no decoded object is parked in a cassette field (no cache)
  C11.d  R-PROV      the replay reader obtains the envelope through the copying read
  C11.e  R-DOM       with the copy flag set, the datum recorded for an intercepted input passed through pickle_copy (the copy-
                     failure handler falls back by design); the same obligation on recorded output arguments
"""
import ast

from ..report import Result, Finding
from ..loader import walk_own, norm, AnalysisError
from ..flow import State
from . import recmodel as rm


def self_attr(e):
    if isinstance(e, ast.Attribute) and isinstance(e.value, ast.Name) and e.value.id == 'self':
        return e.attr
    return None


def enclosing(repo, module, node):
    best = None
    for f in repo.all_functions():
        if f.module is module and f.node.lineno <= node.lineno <= getattr(f.node, 'end_lineno', f.node.lineno):
            if best is None or f.node.lineno >= best.node.lineno:
                best = f
    return best


def copy_option_clause(ctx, res, ce, prop, cid, outputs=True):
    """with the copy option of the operation class on, every value recorded for an interception passed through the codec copy"""
    roles = ctx.roles
    ex = roles.executor
    State.strip_deps = False
    try:
        class CopyDom(rm.RecDom):
            def __init__(self, *a, **kw):
                rm.RecDom.__init__(self, *a, **kw)
                self.stores = []

            def on_store(self, node, target, base, value, state):
                if isinstance(target, ast.Subscript) and self.is_active_recording(base):
                    self.stores.append((node, value, state))
                return rm.RecDom.on_store(self, node, target, base, value, state)
        # the copy option of the operation class is an atom of the analysis: the executor is interpreted under "copy is on" from its entry,
        # so a store on a path that never asked for the option (or asked together with something else) still counts
        copy_opt = 'copy_data_on_intercepion'       # the documented (misspelled) option of RecordingParameters: public API
        dx = rm.run_method(ctx, ex, 'recording', cls=CopyDom, assume_attrs={copy_opt: True})
    finally:
        State.strip_deps = True
    ce.evaluations += dx.visited_pairs
    bad = None
    n_copy = 0
    copy_handlers = set()
    for n in walk_own(ex.node):
        if isinstance(n, ast.Try) and any(isinstance(x, ast.Call) and isinstance(x.func, ast.Name) and x.func.id == 'pickle_copy' for b in n.body for x in ast.walk(b)):
            for h in n.handlers:
                copy_handlers.add(h.lineno)
    flag_attr = None
    for n in ast.walk(ex.node):
        if isinstance(n, ast.Attribute) and self_attr(n.value) == roles.params:
            flag_attr = n.attr
    if flag_attr is None:
        # the executor never looks at the parameters of the recording in progress: whatever decides the copy instead (a snapshot taken when the
        # recording started, kept per thread / per recorder) is not the option of the operation that this interception belongs to
        other = [n for n in ast.walk(ex.node) if (isinstance(n, ast.Attribute) and 'copy' in n.attr.lower() and n.attr != 'pickle_copy') or
                 (isinstance(n, ast.Constant) and isinstance(n.value, str) and 'copy' in n.value.lower())]
        if not other:
            raise AnalysisError('anchor-lost role=copy flag read in the executor')
        ce.instance('the executor reads the copy option from the active recording parameters', ex.qualname, False)
        res.add(Finding(prop, cid, 'R-DOM', ex.file, ex.qualname, other[0].lineno, norm(other[0])[:80],
                        'the executor decides whether to copy from `%s`, not from the parameters of the recording in progress: a snapshot kept elsewhere '
                        '(per thread, per recorder) is not set for interceptions made on the operation\'s worker threads or is stale for the next '
                        'operation - values are then recorded uncopied although the class asked for copies' % norm(other[0])[:60]))
        return
    for node, value, st in dx.stores:
        deps = set(value.deps)
        if any(str(d).startswith('exc-from:') for d in deps):
            continue        # exception envelope
        flag = [f[1] for k, f in st.facts.items() if isinstance(k, tuple) and k[0] == 'attr' and k[2] == flag_attr]
        if not flag or not all(x is True for x in flag):
            continue
        n_copy += 1
        # "copying failed" = the exception handled by the copy's handler came out of the copy primitive itself (not out of a check the
        # executor makes on the copy afterwards)
        failed = any(h in copy_handlers and 'pickle_copy' in src for h, src in st.extra.get('root_handler_sources', frozenset()))
        copied = any('pickle_copy' in str(d) for d in deps)
        if not copied and not failed:
            bad = bad or (node, st)
    ce.instance('executor: with the copy flag set the recorded input value passed through pickle_copy (%d store states)' % n_copy, ex.qualname,
                bad is None and n_copy > 0)
    if bad or not n_copy:
        node, st = bad if bad else (None, None)
        res.add(Finding(prop, cid, 'R-DOM', ex.file, ex.qualname, node.line if node else ex.node.lineno,
                        'recorded input value with the copy flag set',
                        'on some path the copy flag is set, copying did not fail, and the datum recorded for the intercepted input did not pass '
                        'through pickle_copy: later mutation of the live object changes the recording',
                        witness=dx.path_to(node, st) if node is not None and (node.id, st.key()) in dx.pred else None))
    # the copy flag is read from the parameters installed when the scope was opened: nothing else replaces them
    pw = [(m, n) for m in roles.cls.methods.values() if m not in (roles.init, roles.start, roles.reset) for n in ast.walk(m.node)
          if isinstance(n, ast.Assign) and any(self_attr(t) == roles.params for t in n.targets)]
    ce.instance('recording parameters (copy flag) are installed by the scope only, never replaced while it is open', roles.cls.name, not pw)
    for m, n in pw:
        res.add(Finding(prop, cid, 'R-DOM', m.file, m.qualname, n.lineno, norm(n)[:120],
                        '%s replaces the parameters of the open recording: copy-on-interception configured for the operation class is silently dropped '
                        'for the rest of that recording' % m.qualname))
    if not outputs:
        return
    # output arguments
    ro = roles.record_output
    reads_flag = any(isinstance(n, ast.Attribute) and n.attr == flag_attr for n in ast.walk(ro.node))
    copies = any(isinstance(n, ast.Call) and isinstance(n.func, ast.Name) and n.func.id == 'pickle_copy' for n in ast.walk(ro.node))
    oko = reads_flag and copies
    ce.instance('output recorder: recorded output arguments copied under the copy flag', ro.qualname, oko)
    if not oko:
        asg = [n for n in walk_own(ro.node) if isinstance(n, ast.Assign) and isinstance(n.value, ast.Dict)]
        a = asg[0] if asg else None
        res.add(Finding(prop, cid, 'R-DOM', ro.file, ro.qualname, a.lineno if a else ro.node.lineno,
                        'output entry value: the arguments as given',
                        'the arguments of an intercepted output are recorded uncopied although copy-on-interception is enabled: appending to a list '
                        'after it was sent to the output changes what is recorded'))


def run(ctx):
    res = Result('C11')
    repo = ctx.repo
    roles = ctx.roles
    res.explanation = (
        'Decides the copy discipline structurally: which accessor returns what (get_data through the codec copy, get_data_direct '
        'only to the recording phase), that each fetch rebuilds from a decode made in that call and nothing decoded is cached in '
        'a cassette, that replay injection uses the copying read, and - on the executor\'s graph with the copy flag as an atom - that '
        'the recorded datum passed through pickle_copy whenever the flag is set. Not decided: depth of pickle_copy on a given value.')
    res.not_decided = ['that pickle_copy is a deep copy for a given value (jsonpickle semantics: shared sub-objects, custom classes)',
                       'get_metadata() returns the live dict of that one fetched object (copies are promised for data reads and across fetches)']
    ca = res.clause('C11.a', 'R-PROV', 'get_data returns a codec copy made in that call', floor=2)
    cb = res.clause('C11.b', 'R-WHOCALLS', 'get_data_direct confined to get_data and the recording-phase extractor', floor=2)
    cc = res.clause('C11.c', 'R-PROV', 'every fetch decodes afresh; no decoded object cached in a cassette', floor=4)
    cd = res.clause('C11.d', 'R-PROV', 'replay reader uses the copying read', floor=1)
    ce = res.clause('C11.e', 'R-DOM', 'copy flag set => recorded datum passed through pickle_copy', floor=2)

    # ---------------- C11.a
    recs = [repo.cls('Recording')] + repo.subclasses('Recording')
    for c in recs:
        gd = c.methods.get('get_data')
        if gd is None or gd.is_abstract:
            continue
        rets = [n for n in walk_own(gd.node) if isinstance(n, ast.Return)]
        ok = bool(rets)
        for r in rets:
            v = r.value
            copied = isinstance(v, ast.Call) and isinstance(v.func, ast.Name) and v.func.id in ('pickle_copy', 'decode', 'deepcopy')
            ok = ok and copied
        ca.instance('%s.get_data: every return is pickle_copy(...) / decode(...)' % c.name, gd.qualname, ok, detail='; '.join(norm(r)[:70] for r in rets))
        ca.evaluations += len(rets)
        if not ok:
            res.add(Finding('C11', 'C11.a', 'R-PROV', gd.file, gd.qualname, gd.node.lineno, '; '.join(norm(r) for r in rets),
                            '%s.get_data hands out a value that did not pass through the codec copy in this call: callers can alter the recording' % c.name))
    pcf = None
    for m_ in repo.modules.values():
        if 'pickle_copy' in m_.functions:
            pcf = m_.functions['pickle_copy']
    if pcf is None:
        raise AnalysisError('anchor-lost function=pickle_copy')
    from . import c01
    okpc, whypc = c01.is_decode_encode(pcf)
    ca.instance('pickle_copy copies through the codec on every path (no type is handed back as is)', pcf.qualname, okpc, detail=whypc)
    if not okpc:
        res.add(Finding('C11', 'C11.a', 'R-PROV', pcf.file, pcf.qualname, pcf.node.lineno, 'pickle_copy', whypc + ' (a tuple / frozenset can hold mutable members)'))
    gi = repo.cls('Recording').methods.get('__getitem__')
    okg = gi is not None and any(isinstance(n, ast.Call) and isinstance(n.func, ast.Attribute) and n.func.attr == 'get_data' for n in ast.walk(gi.node)) and \
        not any(isinstance(n, ast.Call) and isinstance(n.func, ast.Attribute) and n.func.attr == 'get_data_direct' for n in ast.walk(gi.node))
    ca.instance('Recording.__getitem__ delegates to get_data', gi.qualname if gi else 'Recording', okg)
    if not okg:
        res.add(Finding('C11', 'C11.a', 'R-PROV', gi.file if gi else 'playback/recording.py', gi.qualname if gi else 'Recording', gi.node.lineno if gi else 1,
                        '__getitem__', 'recording[key] does not go through the copying read'))

    # ---------------- C11.b
    ext = roles.extractor
    sites = []
    for m in repo.modules.values():
        for n in ast.walk(m.tree):
            if isinstance(n, ast.Attribute) and n.attr == 'get_data_direct' and isinstance(n.ctx, ast.Load):
                f = enclosing(repo, m, n)
                sites.append((f, n))
    bad = []
    for f, n in sites:
        root = f
        while root is not None and root.parent is not None:
            root = root.parent
        if root is not None and root.name == 'get_data':
            continue
        if root is ext:
            # must be selected by the direct_access parameter
            guarded = any(isinstance(x, ast.IfExp) and any(isinstance(y, ast.Name) and y.id in ext.params for y in ast.walk(x.test)) and
                          any(y is n for y in ast.walk(x)) for x in ast.walk(ext.node)) or \
                any(isinstance(x, ast.If) and any(isinstance(y, ast.Name) and y.id in ext.params for y in ast.walk(x.test)) and
                    any(y is n for y in ast.walk(x)) for x in ast.walk(ext.node))
            if guarded:
                continue
        bad.append((f, n))
    cb.instance('%d uses of get_data_direct: only get_data and the extractor under its direct_access parameter' % len(sites), 'playback/', not bad and len(sites) >= 2)
    cb.evaluations += len(sites)
    for f, n in bad:
        res.add(Finding('C11', 'C11.b', 'R-WHOCALLS', f.file if f else '?', f.qualname if f else '<module>', n.lineno, norm(n),
                        'the non-copying accessor is used outside get_data / the recording-phase extractor: the stored object itself is handed out'))
    direct_sites = []
    sel = accessor_selector(ext)
    for m in repo.modules.values():
        for n in ast.walk(m.tree):
            if isinstance(n, ast.Call) and isinstance(n.func, ast.Attribute) and n.func.attr == ext.name:
                if selects_direct(ext, sel, n) is not False:
                    direct_sites.append((enclosing(repo, m, n), n))
    okd = all(f is roles.post_metadata for f, n in direct_sites) and len(direct_sites) >= 1
    cb.instance('direct_access requested only by the recording-phase metadata step (%d site(s))' % len(direct_sites), roles.post_metadata.qualname, okd)
    for f, n in direct_sites:
        if f is not roles.post_metadata:
            res.add(Finding('C11', 'C11.b', 'R-WHOCALLS', f.file, f.qualname, n.lineno, norm(n),
                            'recorded outputs are extracted with direct access outside the recording phase: the stored objects are handed out'))

    # ---------------- C11.c
    cass = [c for c in repo.subclasses('TapeCassette') if 'get_recording' in c.methods and
            not any(isinstance(x, ast.Raise) for x in c.methods['get_recording'].node.body)]
    for c in cass:
        g = c.methods['get_recording']
        ctor = [n for n in ast.walk(g.node) if isinstance(n, ast.Call) and isinstance(n.func, ast.Name) and n.func.id == 'MemoryRecording']
        decs = {}
        for n in walk_own(g.node):
            if isinstance(n, ast.Assign) and isinstance(n.targets[0], ast.Name) and any(
                    isinstance(x, ast.Call) and isinstance(x.func, ast.Name) and x.func.id == 'decode' for x in ast.walk(n.value)):
                decs[n.targets[0].id] = n
        # names derived from the decoded locals
        derived = set(decs)
        changed = True
        while changed:
            changed = False
            for n in walk_own(g.node):
                if isinstance(n, ast.Assign) and isinstance(n.targets[0], ast.Name) and n.targets[0].id not in derived:
                    if any(isinstance(x, ast.Name) and x.id in derived for x in ast.walk(n.value)):
                        derived.add(n.targets[0].id)
                        changed = True
        ok = bool(ctor) and bool(decs)
        if ok:
            for k in ctor[0].keywords:
                if k.arg in ('recording_data', 'recording_metadata'):
                    names = {x.id for x in ast.walk(k.value) if isinstance(x, ast.Name)}
                    if not names & derived:
                        ok = False
        cc.instance('%s.get_recording: data and metadata derive from a decode() made in this call' % c.name, g.qualname, ok)
        cc.evaluations += 1
        if not ok:
            res.add(Finding('C11', 'C11.c', 'R-PROV', g.file, g.qualname, g.node.lineno, norm(ctor[0])[:140] if ctor else 'rebuilt recording',
                            '%s.get_recording does not rebuild the recording from a decode() performed in this call: two fetches share objects' % c.name))
    no_decoded_cache(ctx, res, cc, 'C11', 'C11.c')

    # ---------------- C11.d
    rd = roles.reader
    reads = [n for n in ast.walk(rd.node) if isinstance(n, ast.Call) and isinstance(n.func, ast.Attribute) and n.func.attr in ('get_data', 'get_data_direct', '__getitem__')]
    okr = bool(reads) and all(n.func.attr == 'get_data' for n in reads) and not any(
        isinstance(n, ast.Subscript) and self_attr(n.value) == roles.playback for n in ast.walk(rd.node))
    cd.instance('reader obtains recorded entries through get_data (%d read(s))' % len(reads), rd.qualname, okr)
    cd.evaluations += len(reads)
    if not okr:
        n = [x for x in reads if x.func.attr != 'get_data']
        res.add(Finding('C11', 'C11.d', 'R-PROV', rd.file, rd.qualname, n[0].lineno if n else rd.node.lineno, norm(n[0]) if n else 'reader reads',
                        'the replay reader takes an entry from the recording without the copying read: replayed code receives (and can mutate) the stored object'))

    # ---------------- C11.e
    copy_option_clause(ctx, res, ce, 'C11', 'C11.e')
    # ---- C11.f nothing handed out during a replay is kept on the recorder and handed out again (shared with C09.e)
    from . import common as _ci
    _ci.import_clauses(ctx, res, 'C09', ['C09.e'], 'C11', 'C11.f', 'R-WHOCALLS',
                       'the recorder keeps no values between reads: outside the constructor it writes only the per-run fields', floor=4)
    # ---- C11.g what a cassette hands out is decoded afresh from what it stores: no live object is kept and handed out (shared with C07)
    _ci.import_clauses(ctx, res, 'C07', ['C07.c', 'C07.e'], 'C11', 'C11.g', 'R-PROV',
                       'cassettes store encoded text / rebuild fetched recordings from decoded parts: fetched values share nothing with the store', floor=5)
    from . import common as _r7
    _r7.import_clauses(ctx, res, 'C17', ['C17.e', 'C17.g'], 'C11', 'C11.h', 'R-AGREE', 'the copy-on-interception option is the one registered for the operation class object, stored as the caller gave it', floor=2)
    return res


def accessor_selector(ext):
    """the conditional expression in the extractor that chooses between get_data and get_data_direct: (test, direct_when_true)"""
    for n in ast.walk(ext.node):
        if isinstance(n, ast.IfExp):
            b, o = n.body, n.orelse
            names = lambda e: {x.attr for x in ast.walk(e) if isinstance(x, ast.Attribute)}
            if 'get_data_direct' in names(b) and 'get_data' in names(o):
                return n.test, True
            if 'get_data' in names(b) and 'get_data_direct' in names(o):
                return n.test, False
    for n in ast.walk(ext.node):
        if isinstance(n, ast.If):
            b = {x.attr for s_ in n.body for x in ast.walk(s_) if isinstance(x, ast.Attribute)}
            o = {x.attr for s_ in n.orelse for x in ast.walk(s_) if isinstance(x, ast.Attribute)}
            if 'get_data_direct' in b and 'get_data_direct' not in o:
                return n.test, True
            if 'get_data_direct' in o and 'get_data_direct' not in b:
                return n.test, False
    raise AnalysisError('anchor-lost role=accessor selection in the output extractor')


def selects_direct(ext, sel, call):
    """True / False if this call site makes the extractor use get_data_direct, None if it cannot be decided"""
    from ..predeval import eval_pred, Undecidable
    test, direct_when_true = sel
    params = ext.params
    env = {}
    for p in params:
        d = ext.param_default(p)
        if isinstance(d, ast.Constant):
            env[p] = d.value
    for i, a in enumerate(call.args):
        if i < len(params):
            if isinstance(a, ast.Constant):
                env[params[i]] = a.value
            else:
                env.pop(params[i], None)
    for k in call.keywords:
        if k.arg in params:
            if isinstance(k.value, ast.Constant):
                env[k.arg] = k.value.value
            else:
                env.pop(k.arg, None)
    try:
        v = bool(eval_pred(test, env, ext.module))
    except Undecidable:
        return None
    return v == direct_when_true


def no_decoded_cache(ctx, res, cc, prop, cid):
    repo = ctx.repo
    parked = []
    for c in repo.subclasses('TapeCassette'):
        for m in c.methods.values():
            dec_names = set()
            for n in walk_own(m.node):
                if isinstance(n, ast.Assign) and isinstance(n.targets[0], ast.Name) and any(
                        isinstance(x, ast.Call) and isinstance(x.func, ast.Name) and x.func.id == 'decode' for x in ast.walk(n.value)):
                    dec_names.add(n.targets[0].id)
            for n in ast.walk(m.node):
                if isinstance(n, ast.Assign):
                    for t in n.targets:
                        base = t.value if isinstance(t, ast.Subscript) else t
                        if self_attr(base) or (isinstance(base, ast.Attribute) and self_attr(base.value)):
                            vnames = {x.id for x in ast.walk(n.value) if isinstance(x, ast.Name)}
                            has_dec = any(isinstance(x, ast.Call) and isinstance(x.func, ast.Name) and x.func.id == 'decode' for x in ast.walk(n.value))
                            if vnames & dec_names or has_dec:
                                parked.append((m, n))
                if isinstance(n, ast.Call) and isinstance(n.func, ast.Attribute) and n.func.attr in ('setdefault', 'append', 'add', 'update') and \
                        (self_attr(n.func.value) or (isinstance(n.func.value, ast.Attribute) and self_attr(n.func.value.value))):
                    vnames = {x.id for a in n.args for x in ast.walk(a) if isinstance(x, ast.Name)}
                    if vnames & dec_names:
                        parked.append((m, n))
    cc.instance('no cassette method stores a decoded object in a field of the cassette', 'playback/tape_cassettes/', not parked)
    cc.evaluations += 1
    for m, n in parked:
        res.add(Finding(prop, cid, 'R-PROV', m.file, m.qualname, n.lineno, norm(n)[:140],
                        'a decoded recording object is kept in a field of the cassette: later fetches can be answered from it and share one '
                        'object graph'))

