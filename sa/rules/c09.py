"""C09 - The recorder returns to idle; every run is independent of history.

Idle = every per-run field holds the value __init__ gives it (active recording, its parameters, force flag,
invocation counter, playback recording, playback outputs) and the thread-local in-interception flag is false.

  C09.a  R-TYPESTATE  every exit of the operation decorator (recording scope inlined) is idle
  C09.b  R-TYPESTATE  every exit of play() is idle
  C09.c  R-TYPESTATE  every exit of the input / output decorators leaves the in-interception flag false
  C09.d  R-DOM        from the idle state the decorators and the public re-entrant API write no per-run field
  C09.r  R-AGREE      the reset routine assigns every recording-scope field its __init__ value
"""
import ast

from ..report import Result, Finding
from ..loader import walk_own, norm, AnalysisError
from ..recorder import _self_attr
from . import recmodel as rm


def check_idle(res, clause, dom, owner, entry, fields, tl=True, what='exit', prop='C09'):
    roles = dom.roles
    groups = {}
    for n, s in dom.exits:
        ek = rm.exit_kind(n)
        bad = []
        for f in fields:
            ok, desc = rm.idle_value(dom, s, f)
            if not ok:
                bad.append('%s %s' % (f, desc))
        # a lock taken explicitly (acquire()) inside the scope is part of the recorder's state: held at an exit = not idle
        acq = sum(v for k, v in s.extra.items() if isinstance(k, tuple) and k[0] == 'n' and isinstance(k[1], str) and
                  k[1].startswith('libobj:threading.') and k[1].endswith('.acquire'))
        rel = sum(v for k, v in s.extra.items() if isinstance(k, tuple) and k[0] == 'n' and isinstance(k[1], str) and
                  k[1].startswith('libobj:threading.') and k[1].endswith('.release'))
        if acq != rel:
            bad.append('a lock of the recorder was acquired %d time(s) and released %d time(s): the next scope (on another thread) blocks for ever' % (acq, rel))
        if tl:
            tlv = [v for k, v in s.env.items() if k[0] == 'F' and k[2] == 'currently_in_interception']
            for v in tlv:
                if v.kind != 'false':
                    bad.append('in-interception flag %s' % v.kind)
        g = groups.setdefault(ek, dict(ok=True, states=0, bad=None))
        g['states'] += 1
        if bad and g['ok']:
            g['ok'] = False
            g['bad'] = (n, s, bad)
    for ek, g in sorted(groups.items()):
        clause.instance('%s %s: recorder idle' % (entry, 'exit=' + ek), owner.qualname, g['ok'], detail='%d abstract states' % g['states'])
        if not g['ok']:
            n, s, bad = g['bad']
            res.add(Finding(prop, clause.id, clause.kind, owner.file, owner.qualname, owner.node.lineno,
                            'exit=%s not idle: %s' % (ek, '; '.join(sorted(bad))),
                            'the recorder is not idle when %s is left by %s: %s' % (entry, ek, '; '.join(sorted(bad))),
                            witness=dom.path_to(n, s), entry=entry, exit=ek))
    clause.evaluations += dom.visited_pairs


def run(ctx):
    res = Result('C09')
    roles = ctx.roles
    fields = rm.per_run_fields(roles)
    res.explanation = (
        'Decides return-to-idle as a typestate property of each scope: the operation decorator (recording scope, '
        'executor, discard/force/enable/disable re-entry inlined), play(), and the input/output decorators are '
        'propagated from the idle valuation (and from recording / replay valuations for the interception flag); at '
        'every exit - return and every exception atom, the wrapped body raising any kind - every per-run field must '
        'hold its __init__ value and the thread-local flag must be false. Induction over histories then needs no '
        'enumeration. Not decided: equality of a probe run\'s results with a fresh recorder\'s (needs determinism of '
        'the run), seeded generator state (history-dependent by design, C17).')
    res.not_decided = ['result equality of a probe run (needs determinism of the run itself)',
                       'state of the seeded generator (by design history dependent)']
    res.assumptions = ['raise policy of DESIGN 3.3', 'nested interceptions inside the wrapped body are modelled by '
                       'invalidating the invocation counter (and the playback outputs during replay) at the body call']

    # ---- C09.r reset routine covers every recording-scope field
    cr = res.clause('C09.r', 'R-AGREE', 'reset routine restores every recording-scope field to its __init__ value', floor=4)
    scope_fields = set()
    for m in (roles.start, roles.force, roles.discard):
        for n in ast.walk(m.node):
            if isinstance(n, (ast.Assign, ast.AugAssign)):
                for t in (n.targets if isinstance(n, ast.Assign) else [n.target]):
                    f = _self_attr(t)
                    if f:
                        scope_fields.add(f)
                    if isinstance(t, ast.Subscript) and _self_attr(t.value):
                        scope_fields.add(_self_attr(t.value))
    # fields the output decorator numbers calls with
    scope_fields.add(roles.counter)
    reset_assigns = {}
    for n in walk_own(roles.reset.node):
        if isinstance(n, ast.Assign) and len(n.targets) == 1 and _self_attr(n.targets[0]):
            reset_assigns[_self_attr(n.targets[0])] = n.value
    for f in sorted(scope_fields):
        init = roles.init_values.get(f)
        if init is None:
            continue
        rv = reset_assigns.get(f)
        ok = rv is not None and norm(rv) == norm(init)
        cr.instance('reset assigns self.%s = %s' % (f, norm(init)), roles.reset.qualname, ok,
                    detail='reset value: %s' % (norm(rv) if rv is not None else 'missing'))
        cr.evaluations += 1
        if not ok:
            res.add(Finding('C09', 'C09.r', 'R-AGREE', roles.reset.file, roles.reset.qualname, roles.reset.node.lineno,
                            'self.%s' % f, 'the reset routine does not restore per-run field %s to its __init__ value %s (%s)' % (
                                f, norm(init), 'assigns ' + norm(rv) if rv is not None else 'no assignment')))

    # ---- C09.a
    ca = res.clause('C09.a', 'R-TYPESTATE', 'operation decorator: every exit idle', floor=4)
    fac, deco, cl = roles.closures['operation']
    # fault model of C09: besides the usual one, every cassette call may fail (third-party cassette: "a failure inside the
    # framework") and every plug-in may be interrupted (BaseException)
    dom = rm.run_closure(ctx, 'operation', 'idle', framework_faults=True)
    check_idle(res, ca, dom, roles.start, cl.qualname, fields)
    if dom.exits:
        n, s = dom.exits[-1]
        ca.samples.append(dict(exit=rm.exit_kind(n), state=rm.describe_state(dom, s), path=dom.path_to(n, s, limit=12)))

    # ---- C09.b
    cb = res.clause('C09.b', 'R-TYPESTATE', 'play(): every exit idle', floor=3)
    dp = rm.run_method(ctx, roles.play, 'idle', framework_faults=True)
    check_idle(res, cb, dp, roles.play, roles.play.qualname, fields)

    # ---- C09.c
    cc = res.clause('C09.c', 'R-TYPESTATE', 'input/output decorators: in-interception flag false at every exit', floor=8)
    for kind in ('input', 'output'):
        fac, deco, cl = roles.closures[kind]
        for variant in ('recording', 'playback'):
            d = rm.run_closure(ctx, kind, variant)
            check_idle(res, cc, d, cl, '%s (%s)' % (cl.qualname, variant), [], tl=True)

    # ---- C09.d
    cd = res.clause('C09.d', 'R-DOM', 'from idle, decorators and re-entrant API write no per-run field', floor=4)
    for kind in ('input', 'output'):
        fac, deco, cl = roles.closures[kind]
        d = rm.run_closure(ctx, kind, 'idle')
        check_idle(res, cd, d, cl, '%s (idle)' % cl.qualname, fields)
        # and nothing was numbered / appended / stored
        bad = None
        for n, s in d.exits:
            w = [k for k in ('counter-inc', 'outputs-append', 'store:active-recording') if d.n(s, k)]
            if w and bad is None:
                bad = (n, s, w)
        cd.instance('%s idle: no counter / outputs / recording writes' % kind, cl.qualname, bad is None)
        if bad:
            n, s, w = bad
            res.add(Finding('C09', 'C09.d', 'R-DOM', cl.file, cl.qualname, cl.node.lineno, 'idle writes: ' + ','.join(w),
                            'the %s decorator writes per-run state (%s) although neither recording nor replaying' % (kind, ','.join(w)),
                            witness=d.path_to(n, s), entry=cl.qualname, exit=rm.exit_kind(n)))
    for m in roles.reentrant:
        d = rm.run_method(ctx, m, 'idle')
        check_idle(res, cd, d, m, '%s (idle)' % m.qualname, fields, tl=False)

    # ---- C09.f nothing consumable is prepared once at decoration time and shared by all calls of the decorated function
    from . import common as _cm9
    cfz = res.clause('C09.f', 'R-PROV', 'decorator closures capture no one-shot iterator prepared at decoration time', floor=3)
    for kind in ('operation', 'input', 'output'):
        fac, deco, cl = roles.closures[kind]
        caps = []
        for outer in (fac, deco):
            caps.extend((outer, x) for x in _cm9.one_shot_captures(outer.node, cl.node))
        for outer in (fac, deco):
            for n_, nm_, what_ in _cm9.closure_state_writes(outer.node, cl.node):
                caps.append((outer, (n_, nm_, 'written by every call: ' + what_)))
        cfz.instance('%s decorator: the closure reads no lazily consumed iterator of its factory and keeps no state in it' % kind, cl.qualname, not caps)
        cfz.evaluations += 1
        for outer, (n, nm, what) in caps[:1]:
            res.add(Finding('C09', 'C09.f', 'R-PROV', outer.file, outer.qualname, n.lineno, '%s = %s' % (nm, what),
                            '`%s` is a one-shot iterator (%s) created once when the function is decorated and read by every call: the first call '
                            'consumes it, so later runs on this recorder behave differently from the first (and from a fresh process)' % (nm, what)))
    # ---- C09.e the per-run fields proved idle above are all the state a run can leave on the recorder
    from . import common
    ce = res.clause('C09.e', 'R-WHOCALLS', 'outside the constructor the recorder writes only the per-run fields (proved idle) and the enabled switch', floor=4)
    per_run = set(roles.per_run_fields) | {roles.enabled}
    tl = getattr(roles, 'thread_local', None)
    for m in list(roles.cls.methods.values()) + list(roles.cls.setters.values()):
        if m.name == '__init__':
            continue
        todo = [m] + [f for f in m.nested.values() if not isinstance(f, list)]
        seen_fn = []
        while todo:
            f = todo.pop()
            if f in seen_fn:
                continue
            seen_fn.append(f)
            todo.extend(x for x in f.nested.values() if not isinstance(x, list))
        for f in seen_fn:
            for n, w in common.instance_writes(f.node):
                fld = w.split('self.')[1].split(' ')[0].split('.')[0].split('(')[0]
                ok = fld in per_run or (tl is not None and fld == tl) or fld in roles.cls.setters      # a property: its setter is examined itself
                if fld == roles.enabled and f.qualname.split('.')[1] in (roles.play.name, roles.start.name):
                    # the switch belongs to the user: a run that flips it (and means to flip it back) leaves it flipped on the exits in between
                    ok = False
                if 'an attribute of the object' in w:
                    # writing *into* the object a field refers to: only the thread-local store is the recorder's own; the parameters object is
                    # the per-class one shared by all later runs, the recordings belong to the cassette
                    ok = tl is not None and fld == tl
                # class-level configuration registered by decorators at import time (recording parameters per class)
                if not ok and w.startswith('an entry of') and any(isinstance(x, ast.Name) and x.id in f.all_param_names for x in ast.walk(n)) and \
                        f.qualname.split('.')[1] not in (roles.play.name, roles.start.name):
                    ok = True
                ce.instance('%s: %s' % (f.qualname, w), f.qualname, ok)
                ce.evaluations += 1
                if not ok:
                    res.add(Finding('C09', 'C09.e', 'R-WHOCALLS', f.file, f.qualname, n.lineno, norm(n)[:120],
                                    '%s in %s: this is recorder state outside the per-run fields that are reset when a run ends, so a later run '
                                    '(recording or replay) can depend on an earlier one' % (w, f.qualname)))
    # ---- C09.g what a user callback returned belongs to the user: the recorder does not write into it (a callback that hands out the same
    # object every time would carry one run's data into the next)
    cg9 = res.clause('C09.g', 'R-PROV', 'objects returned by user callbacks are never modified by the recorder', floor=1)
    MUT = {'update', 'append', 'extend', 'insert', 'pop', 'popitem', 'remove', 'clear', 'setdefault', 'sort', 'reverse', 'add', 'discard', '__setitem__'}
    nfun = 0
    for fn_ in [f for f in ctx.repo.all_functions() if f.module is roles.cls.module]:
        prm = set(fn_.all_param_names)
        called = {n.func.id for n in walk_own(fn_.node) if isinstance(n, ast.Call) and isinstance(n.func, ast.Name) and n.func.id in prm}
        if not called:
            continue
        nfun += 1
        owned = {}
        grew = True
        while grew:
            grew = False
            for n in walk_own(fn_.node):
                if isinstance(n, ast.Assign) and len(n.targets) == 1 and isinstance(n.targets[0], ast.Name) and n.targets[0].id not in owned:
                    v = n.value
                    if (isinstance(v, ast.Call) and isinstance(v.func, ast.Name) and v.func.id in called) or (isinstance(v, ast.Name) and v.id in owned):
                        owned[n.targets[0].id] = norm(v)
                        grew = True
        bad = []
        for n in walk_own(fn_.node):
            if isinstance(n, ast.Call) and isinstance(n.func, ast.Attribute) and n.func.attr in MUT and isinstance(n.func.value, ast.Name) and n.func.value.id in owned:
                bad.append(n)
            if isinstance(n, (ast.Assign, ast.AugAssign, ast.Delete)):
                tg = n.targets if isinstance(n, (ast.Assign, ast.Delete)) else [n.target]
                for t_ in tg:
                    if isinstance(t_, ast.Subscript) and isinstance(t_.value, ast.Name) and t_.value.id in owned:
                        bad.append(n)
                    if isinstance(n, ast.AugAssign) and isinstance(t_, ast.Name) and t_.id in owned:
                        bad.append(n)
        cg9.instance('%s: results of %s are only read' % (fn_.qualname, sorted(called)), fn_.qualname, not bad)
        cg9.evaluations += 1
        for n in bad[:1]:
            res.add(Finding('C09', 'C09.g', 'R-PROV', fn_.file, fn_.qualname, n.lineno, norm(n)[:100],
                            'the recorder writes into an object a user callback returned (`%s`): a callback that returns the same object on every call '
                            '(a shared tags dict) accumulates what earlier runs put there, so a later run - e.g. one cut short before a key is '
                            'rewritten - is saved with a previous run\'s data' % norm(n)[:80]))
    return res
