"""C01 - Replay on unchanged code reproduces the recorded run (structural skeleton: record side and replay side
of each interception are mirror images).

  C01.a  R-AGREE     key symmetry: the key the executor records under is the first key the reader consults
  C01.b  R-AGREE     envelope: tags written = tags read; the exception tag is raised, the value tag returned
  C01.c  R-AGREE     data-handler pairing: prepare on record iff handler; restore on replay iff handler
  C01.d  R-PROV      the recorded datum derives from the wrapped call's result / the caught exception
  C01.e  R-MUSTPASS  replayed operation: ordinary exception -> OperationExceptionDuringPlayback, absorbed by play() only
  C01.f  R-PROV      play(): the fetched recording is installed, extracted from and returned
  C01.g  R-AGREE     every jsonpickle.encode keeps type information (unpicklable=True); pickle_copy = decode(encode(.))
"""
import ast

from ..report import Result, Finding
from ..loader import walk_own, norm, AnalysisError, expand_locals
from ..flow import State
from . import recmodel as rm
from . import c02


def run(ctx):
    res = Result('C01')
    roles = ctx.roles
    repo = ctx.repo
    res.explanation = (
        'Decides that the record side and the replay side of each interception mirror each other: same key on both '
        'sides, same envelope tags with the exception tag raised and the value tag returned, data handler applied on '
        'both sides or on neither, recorded datum derived from the wrapped call, operation exceptions converted and '
        'absorbed symmetrically, the fetched recording used throughout play(), and the serializer called with type '
        'information everywhere. Not decided: value equality through jsonpickle, determinism of user code, thread '
        'schedules inside the operation.')
    res.not_decided = ['that jsonpickle is faithful on a given value', 'determinism of user code',
                       'worker threads inside the operation (schedule dependent counter / flag races)']
    res.assumptions = ['raise policy of DESIGN 3.3']
    ex = roles.executor
    rd = roles.reader

    # ---------------- C01.a
    ca = res.clause('C01.a', 'R-AGREE', 'record key = first key consulted on replay (input and output decorators)', floor=2)
    fac, deco, cl_in = roles.closures['input']
    ok, why = c02.key_order(cl_in, roles)
    ca.instance('input decorator', cl_in.qualname, ok, detail=why)
    ca.evaluations += 1
    if not ok:
        res.add(Finding('C01', 'C01.a', 'R-AGREE', cl_in.file, cl_in.qualname, cl_in.node.lineno, 'input key symmetry', why))
    fac, deco, cl_out = roles.closures['output']
    ok, why = c02.key_order(cl_out, roles)
    ca.instance('output decorator', cl_out.qualname, ok, detail=why)
    ca.evaluations += 1
    if not ok:
        res.add(Finding('C01', 'C01.a', 'R-AGREE', cl_out.file, cl_out.qualname, cl_out.node.lineno, 'output key symmetry', why))

    # ---------------- C01.b
    cb = res.clause('C01.b', 'R-AGREE', 'envelope tags written by the executor are the tags the reader raises / returns', floor=3)
    written = {}      # tag -> context ('handler' | 'normal')
    for n in ast.walk(ex.node):
        if isinstance(n, ast.Call) and isinstance(n.func, ast.Attribute) and n.func.attr == roles.record_data.name and len(n.args) == 2 \
                and isinstance(n.args[1], ast.Dict):
            for k in n.args[1].keys:
                if isinstance(k, ast.Constant):
                    in_handler = any(isinstance(h, ast.ExceptHandler) and any(x is n for x in ast.walk(h)) for h in ast.walk(ex.node))
                    written[k.value] = 'handler' if in_handler else 'normal'
    if not written:
        raise AnalysisError('anchor-lost role=envelope tags written by the executor (found %s)' % written)
    if len(written) < 2 or 'handler' not in written.values() or 'normal' not in written.values():
        res.add(Finding('C01', 'C01.b', 'R-AGREE', ex.file, ex.qualname, ex.node.lineno, 'envelope tags written: %s' % sorted(written.items()),
                        'the executor does not record both outcomes of the wrapped call (a value envelope on return, an exception envelope in its '
                        'handler): a call that raised while recording cannot raise again on replay'))
    env_vars = []
    for n in walk_own(rd.node):
        if isinstance(n, ast.Assign) and isinstance(n.value, ast.Call) and isinstance(n.value.func, ast.Attribute) and \
                n.value.func.attr in ('get_data', 'get_data_direct', '__getitem__') and isinstance(n.targets[0], ast.Name):
            env_vars.append(n.targets[0].id)
    if not env_vars:
        raise AnalysisError('anchor-lost role=envelope variable of the reader')
    env_var = env_vars[-1]
    raised = set()
    read = set()
    for n in ast.walk(rd.node):
        if isinstance(n, ast.Raise) and isinstance(n.exc, ast.Subscript) and isinstance(n.exc.value, ast.Name) and \
                n.exc.value.id in env_vars and isinstance(n.exc.slice, ast.Constant):
            raised.add(n.exc.slice.value)
        if isinstance(n, ast.Subscript) and isinstance(n.value, ast.Name) and n.value.id in env_vars and isinstance(n.slice, ast.Constant):
            read.add(n.slice.value)
        if isinstance(n, ast.Compare) and len(n.ops) == 1 and isinstance(n.ops[0], (ast.In, ast.NotIn)) and \
                isinstance(n.left, ast.Constant) and isinstance(n.comparators[0], ast.Name) and n.comparators[0].id in env_vars:
            read.add(n.left.value)
    exc_tag = [t for t, c in written.items() if c == 'handler']
    val_tag = [t for t, c in written.items() if c == 'normal']
    ok1 = set(written) == read
    cb.instance('tags written %s = tags read %s' % (sorted(written), sorted(read)), rd.qualname, ok1)
    ok2 = raised == set(exc_tag) and len(exc_tag) == 1
    cb.instance('reader raises the entry under the tag the executor writes in its exception handler (%s)' % exc_tag, rd.qualname, ok2,
                detail='raised tags: %s' % sorted(raised))
    # returned value derives from the value tag: follow the returned name back to a subscript of the envelope
    ret_ok, ret_why = returns_value_tag(rd, env_var, val_tag)
    cb.instance('reader returns a value derived from the entry under %s' % val_tag, rd.qualname, ret_ok, detail=ret_why)
    cb.evaluations += 3
    if not ok1:
        res.add(Finding('C01', 'C01.b', 'R-AGREE', rd.file, rd.qualname, rd.node.lineno, 'envelope tags',
                        'executor writes envelope tags %s but the reader reads %s' % (sorted(written), sorted(read))))
    if not ok2:
        res.add(Finding('C01', 'C01.b', 'R-AGREE', rd.file, rd.qualname, rd.node.lineno, 'recorded exception replay',
                        'a recorded exception (tag %s) must be raised by the reader; it raises tags %s' % (exc_tag, sorted(raised))))
    if not ret_ok:
        res.add(Finding('C01', 'C01.b', 'R-AGREE', rd.file, rd.qualname, rd.node.lineno, 'recorded value replay', ret_why))

    from .. import small
    from . import c07
    dr_ = small.analyse(repo, rm.recorder_excm(ctx), rd, policy=rm.RecorderPolicy(repo, rm.recorder_excm(ctx), roles), self_cls=roles.cls,
                        domain=c07.HandlerSrcDomain)
    caught = sorted(src for src in dr_.handler_srcs if str(src).startswith('raise ') and 'RecordingKeyError' not in str(src))
    escapes = any(n.info['exit'] != 'return' and str(s.extra.get('exc_src', '')).startswith('raise ') and 'RecordingKeyError' not in str(s.extra.get('exc_src'))
                  for n, s in dr_.exits)
    cb.instance('the raised recorded exception leaves the reader unchanged (no handler of the reader receives it)', rd.qualname, not caught and escapes)
    cb.evaluations += dr_.visited_pairs
    if caught or not escapes:
        res.add(Finding('C01', 'C01.b', 'R-AGREE', rd.file, rd.qualname, rd.node.lineno, 'recorded exception caught inside the reader (%s)' % (caught[:1] or 'never escapes'),
                        'the exception recorded for an intercepted call is raised inside a try whose handler catches it (%s): a recorded KeyError / '
                        'TypeError would replay as a different exception type' % (caught[:1] or 'it never escapes')))

    # ---------------- C01.c
    cc = res.clause('C01.c', 'R-AGREE', 'data handler applied on record iff given, and on replay iff given', floor=2)
    PREP = 'user-plugin:data_handler.prepare_input_for_recording'
    REST = 'user-plugin:data_handler.restore_input_from_recording'
    fac_in = roles.closures['input'][0]
    for variant, lab, what in (('recording', PREP, 'prepare on record'), ('playback', REST, 'restore on replay')):
        d = rm.run_closure(ctx, 'input', variant, track_free=('data_handler',) + (c02.OPTS if variant == 'playback' else ()),
                           key_extra='c01')
        cc.evaluations += d.visited_pairs
        bad = None
        cnt = 0
        for n, s in d.exits:
            if rm.exit_kind(n) != 'return':
                continue
            e, i = rm.initial_flags(d, s)
            if i is True or (variant == 'recording' and e is False):
                continue
            dh = s.facts.get(('free', fac_in.qualname, 'data_handler'), (None, None))[1]
            if variant == 'recording':
                if not d.n(s, 'store:active-recording'):
                    continue
            else:
                if s.extra.get('reader_result') is None or s.env.get(('RV', d.g.root.id)) is None or \
                        s.env.get(('RV', d.g.root.id)).name != s.extra.get('reader_result'):
                    continue
            cnt += 1
            k = d.n(s, lab)
            if (dh is True and k != 1) or (dh is False and k != 0) or dh is None:
                bad = bad or (n, s, dh, k)
        cc.instance('input decorator (%s): %s iff a data handler is configured, on %d exits' % (variant, what, cnt),
                    cl_in.qualname, bad is None and cnt > 0)
        if bad:
            n, s, dh, k = bad
            res.add(Finding('C01', 'C01.c', 'R-AGREE', cl_in.file, cl_in.qualname, cl_in.node.lineno,
                            'input decorator (%s): handler configured=%s, %s called %d times' % (variant, dh, lab.split('.')[-1], k),
                            'the data handler must be applied on the %s side exactly when it is configured' % variant,
                            witness=d.path_to(n, s), entry=cl_in.qualname, exit='return'))

    # ---------------- C01.d  (provenance; dependency tracking switched on for this small run)
    cd = res.clause('C01.d', 'R-PROV', 'recorded datum derives from the wrapped call\'s result / the caught exception', floor=2)
    State.strip_deps = False
    try:
        class ProvDom(rm.RecDom):
            def __init__(self, *a, **kw):
                rm.RecDom.__init__(self, *a, **kw)
                self.stores = []

            def on_store(self, node, target, base, value, state):
                if isinstance(target, ast.Subscript) and self.is_active_recording(base):
                    self.stores.append((node, value, state))
                return rm.RecDom.on_store(self, node, target, base, value, state)
        dx = rm.run_method(ctx, ex, 'recording', cls=ProvDom)
    finally:
        State.strip_deps = True
    cd.evaluations += dx.visited_pairs
    seen_val = seen_exc = 0
    badv = None
    for node, value, st in dx.stores:
        deps = set(value.deps)
        handler = any(str(k[0]) == 'hexc' for k in st.extra if isinstance(k, tuple))
        from_body = any(str(x).startswith('call:user-body:') for x in deps)
        from_exc = any(str(x).startswith('exc-from:user-body:') for x in deps)
        if from_exc:
            seen_exc += 1
        elif from_body:
            seen_val += 1
        else:
            badv = badv or (node, value, st)
    cd.instance('executor: %d value stores derive from the wrapped call\'s result' % seen_val, ex.qualname, seen_val > 0 and badv is None)
    cd.instance('executor: %d exception stores derive from the exception caught from the wrapped call' % seen_exc, ex.qualname,
                seen_exc > 0 and badv is None)
    if badv or not seen_val or not seen_exc:
        node = badv[0] if badv else None
        res.add(Finding('C01', 'C01.d', 'R-PROV', ex.file, ex.qualname, node.line if node else ex.node.lineno,
                        ast.unparse(node.ast) if node else 'executor stores',
                        'a datum stored by the executor does not derive from the wrapped call (value stores %d, exception stores %d)' % (seen_val, seen_exc)))

    # ---------------- C01.e
    ce = res.clause('C01.e', 'R-MUSTPASS', 'replayed operation: ordinary exception becomes OperationExceptionDuringPlayback, absorbed by play() only', floor=2)
    excm = rm.recorder_excm(ctx)
    oep = 'OperationExceptionDuringPlayback'
    if oep not in excm.parents:
        raise AnalysisError('anchor-lost role=OperationExceptionDuringPlayback handler')
    d = rm.run_closure(ctx, 'operation', 'playback', track_free=c02.OPTS)
    ce.evaluations += d.visited_pairs
    bad = None
    cnt = 0
    ordinary = set(excm.ordinary)
    for n, s in d.exits:
        ek = rm.exit_kind(n)
        if ek == 'return':
            continue
        src = str(s.extra.get('exc_src', ''))
        if ek[6:] in ordinary:
            # an ordinary exception leaving a replayed operation un-converted
            bad = bad or (n, s, src)
        if ek[6:] == oep:
            cnt += 1
    cl_op = roles.closures['operation'][2]
    ce.instance('replayed operation: no ordinary exception leaves un-converted; %d exits raise %s' % (cnt, oep), cl_op.qualname,
                bad is None and cnt > 0)
    if bad or cnt == 0:
        n, s, src = bad if bad else (None, None, None)
        res.add(Finding('C01', 'C01.e', 'R-MUSTPASS', cl_op.file, cl_op.qualname, cl_op.node.lineno,
                        'replayed operation exception conversion',
                        'an ordinary exception of the replayed operation (source %s) is not converted to %s' % (src, oep),
                        witness=d.path_to(n, s) if n is not None else None))
    dp = rm.run_method(ctx, roles.play, 'idle')
    ce.evaluations += dp.visited_pairs
    absorbed = 0
    leaked = None
    swallowed_other = None
    for n, s in dp.exits:
        ek = rm.exit_kind(n)
        if ek == 'return' and s.extra.get('root_handlers'):
            absorbed += 1
            # which atoms did the handlers absorb? recorded via hexc keys
            for k, v in s.extra.items():
                if isinstance(k, tuple) and k[0] == 'hexc' and str(v).startswith('user-body:'):
                    pass
        if ek != 'return' and ek[6:] == oep and str(s.extra.get('exc_src', '')).startswith('user-body:'):
            leaked = leaked or (n, s)
    # handler classes of play(): exactly the conversion class
    htypes = set()
    for n in walk_own(roles.play.node):
        if isinstance(n, ast.ExceptHandler):
            htypes |= set(excm.handler_atoms(n.type))
    only = htypes == set(excm.under(oep))
    ce.instance('play(): handlers absorb exactly %s (atoms %s)' % (oep, sorted(htypes)), roles.play.qualname,
                only and leaked is None and absorbed > 0)
    if not (only and leaked is None and absorbed > 0):
        res.add(Finding('C01', 'C01.e', 'R-MUSTPASS', roles.play.file, roles.play.qualname, roles.play.node.lineno,
                        'play() exception absorption',
                        'play() must absorb exactly the operation-exception-during-playback kind (absorbs atoms %s, leaks=%s)' % (
                            sorted(htypes), leaked is not None)))

    rm.replay_idle_clause(ctx, res, 'C01', 'C01.h', 'every exit of play() resets counter / outputs / playback recording (ordinals restart at 1)')
    rm.interception_flag_clause(ctx, res, 'C01', 'C01.i')
    rm.ordinals_only_when_intercepted_clause(ctx, res, 'C01', 'C01.j')
    rm.key_helpers_stateless_clause(ctx, res, 'C01', 'C01.k')
    # ---- C01.l / C01.m each call is looked up under its own key: capture selection and candidate order (shared with C06.d / C06.e)
    from . import c06 as _c06, c02 as _c02
    cl_ = res.clause('C01.l', 'R-DECISION', 'every captured argument reaches the key (capture selection table)', floor=4)
    _c06.capture_selection(ctx, res, cl_, roles.key_builders['input'], prop='C01', cid='C01.l')
    cm_ = res.clause('C01.m', 'R-AGREE', 'the reader tries the candidate keys in their own order (main key first)', floor=1)
    oks_, whys_ = _c02.reader_scan(roles.reader)
    cm_.instance('candidate keys looked up in the key builder\'s order', roles.reader.qualname, oks_, detail=whys_)
    if not oks_:
        res.add(Finding('C01', 'C01.m', 'R-AGREE', roles.reader.file, roles.reader.qualname, roles.reader.node.lineno, 'reader key scan',
                        whys_ + ': a call whose own key is recorded is answered with the value recorded under a fallback alias'))
    # ---------------- C01.f
    cf = res.clause('C01.f', 'R-PROV', 'play(): fetched recording installed as playback recording, extracted from, returned', floor=3)
    ok, why = play_uses_fetched(roles)
    for k, (o, w) in ok.items():
        cf.instance('play(): %s' % k, roles.play.qualname, o, detail=w)
        cf.evaluations += 1
        if not o:
            res.add(Finding('C01', 'C01.f', 'R-PROV', roles.play.file, roles.play.qualname, roles.play.node.lineno, k, w))

    # ---------------- C01.g
    cg = res.clause('C01.g', 'R-AGREE', 'every jsonpickle.encode keeps type information; pickle_copy is decode(encode(.))', floor=8)
    for m in repo.modules.values():
        names = {k for k, v in m.imports.items() if v == 'jsonpickle.encode'}
        if not names:
            continue
        for n in ast.walk(m.tree):
            if isinstance(n, ast.Call) and isinstance(n.func, ast.Name) and n.func.id in names:
                kw = [k for k in n.keywords if not (k.arg == 'unpicklable' and isinstance(k.value, ast.Constant) and k.value.value is True)]
                ok = not kw
                cg.instance('encode(...) at %s:%d' % (m.relpath, n.lineno), m.relpath, ok, detail=norm(n)[:80])
                cg.evaluations += 1
                if not ok:
                    fn = enclosing_function(repo, m, n)
                    res.add(Finding('C01', 'C01.g', 'R-AGREE', m.relpath, fn, n.lineno, norm(n),
                                    'jsonpickle.encode called with a fidelity-reducing option (%s): decode no longer returns an equal '
                                    'value (types, tuples / sets or shared sub-objects are lost)' % ', '.join('%s=%s' % (k.arg, norm(k.value)) for k in kw)))
    pc = None
    for m in repo.modules.values():
        if 'pickle_copy' in m.functions:
            pc = m.functions['pickle_copy']
    if pc is None:
        raise AnalysisError('anchor-lost function=pickle_copy')
    shared_codec = [n for n in ast.walk(pc.node) if isinstance(n, ast.Name) and isinstance(n.ctx, ast.Load) and n.id in pc.module.globals and
                    isinstance(pc.module.globals[n.id], ast.Call)]
    cg.instance('pickle_copy uses no module-level codec object (a fresh pickler / unpickler per copy)', pc.qualname, not shared_codec)
    for n in shared_codec[:1]:
        res.add(Finding('C01', 'C01.g', 'R-AGREE', pc.file, pc.qualname, n.lineno, norm(n),
                        'pickle_copy goes through the module-level object `%s` (%s): two copies that overlap (worker threads of an operation, a copy started '
                        'from a value\'s __getstate__) share its reference table, so back references resolve to the wrong object and the copy handed to the '
                        'replayed code is not equal to what was recorded' % (n.id, norm(pc.module.globals[n.id])[:60])))
    ok, why = is_decode_encode(pc)
    cg.instance('pickle_copy returns decode(encode(value)) on every path', pc.qualname, ok, detail=why)
    if not ok:
        res.add(Finding('C01', 'C01.g', 'R-AGREE', pc.file, pc.qualname, pc.node.lineno, 'pickle_copy', why))
    # ---- C01.n / C01.o the property's own premise and quantifier: with copy-on-interception on, captured inputs are shielded from later
    # mutation (shared with C11.e); a recording stored through the asynchronous cassette is the recording that was made (shared with C12)
    from . import c11 as _c11
    from . import common as _cmn
    cn_ = res.clause('C01.n', 'R-DOM', 'copy option on => the recorded input value is a copy (later mutation cannot change what replay injects)', floor=2)
    _c11.copy_option_clause(ctx, res, cn_, 'C01', 'C01.n', outputs=False)
    _cmn.import_clauses(ctx, res, 'C12', ['C12.a', 'C12.c', 'C12.d', 'C12.e', 'C12.f'], 'C01', 'C01.o', 'R-ORDER',
                        'a recording stored through the asynchronous cassette holds every captured entry, each applied once and in order', floor=4)
    # ---- C01.p user code that runs after the operation (the metadata extractor) is not part of the recorded run (shared with C03.i)
    rm.extractor_runs_idle_clause(ctx, res, 'C01', 'C01.p')
    # ---- C01.q the recorded outputs handed back by play() are exactly the writer's output entries (shared with C03.d)
    _cmn.import_clauses(ctx, res, 'C03', ['C03.d'], 'C01', 'C01.q', 'R-AGREE', 'the extractor selects exactly the output entries that were written', floor=6)
    from . import common as _r7
    _r7.import_clauses(ctx, res, 'C06', ['C06.e'], 'C01', 'C01.t', 'R-AGREE', 'the key built while replaying is the key the entry was recorded under (same text in every process, built from the call\'s own arguments)', floor=3)
    _r7.import_clauses(ctx, res, 'C20', ['C20.d'], 'C01', 'C01.r', 'R-PROV', 'file inputs: the replayed code finds the recorded bytes at the path it named', floor=1)
    _r7.import_clauses(ctx, res, 'C03', ['C03.a', 'C03.b'], 'C01', 'C01.s', 'R-PROV', 'the output entry captured in replay is formed like the recorded one (the comparison sees equal values for equal calls)', floor=1)
    return res


def enclosing_function(repo, m, node):
    best = None
    for f in repo.all_functions():
        if f.module is m and f.node.lineno <= node.lineno <= getattr(f.node, 'end_lineno', f.node.lineno):
            if best is None or f.node.lineno >= best.node.lineno:
                best = f
    return best.qualname if best else '<module>'


def is_decode_encode(pc):
    p = pc.params[0]
    rets = [n for n in walk_own(pc.node) if isinstance(n, ast.Return)]
    if not rets:
        return False, 'no return'
    for r in rets:
        v = expand_locals(pc.node, r.value) if r.value is not None else None
        if not (isinstance(v, ast.Call) and isinstance(v.func, ast.Name) and v.func.id == 'decode' and v.args and
                isinstance(v.args[0], ast.Call) and isinstance(v.args[0].func, ast.Name) and v.args[0].func.id == 'encode' and
                v.args[0].args and isinstance(v.args[0].args[0], ast.Name) and v.args[0].args[0].id == p):
            return False, 'a path returns `%s` instead of decode(encode(%s)): the "copy" may alias the original' % (norm(v), p)
    return True, '%d return(s), all decode(encode(%s))' % (len(rets), p)


def returns_value_tag(rd, env_var, val_tag):
    if len(val_tag) != 1:
        return False, 'executor does not write exactly one value tag (%s)' % val_tag
    tag = val_tag[0]
    defs = {}
    for n in walk_own(rd.node):
        if isinstance(n, ast.Assign) and isinstance(n.targets[0], ast.Name):
            defs.setdefault(n.targets[0].id, []).append(n.value)
    rets = [n for n in walk_own(rd.node) if isinstance(n, ast.Return)]
    if not rets:
        return False, 'reader never returns'

    def direct(e):
        return isinstance(e, ast.Subscript) and isinstance(e.value, ast.Name) and e.value.id == env_var and \
            isinstance(e.slice, ast.Constant) and e.slice.value == tag

    def derives(e, seen=frozenset()):
        if direct(e):
            return True
        if isinstance(e, ast.Name):
            if e.id in seen:
                return True         # re-definition in terms of itself (value = restore(value, ...)): grounded below
            ds = defs.get(e.id, [])
            return bool(ds) and any(direct(v) or (isinstance(v, ast.Name) and derives(v, seen | {e.id})) for v in ds) and \
                all(derives(v, seen | {e.id}) for v in ds)
        if isinstance(e, ast.Call):
            return any(derives(a, seen) for a in e.args)
        if isinstance(e, ast.IfExp):
            return derives(e.body, seen) and derives(e.orelse, seen)
        return False
    for r in rets:
        if not derives(r.value):
            return False, 'reader returns `%s`, which is not derived from %s[%r]' % (norm(r.value), env_var, tag)
    return True, 'all %d return(s) derive from %s[%r]' % (len(rets), env_var, tag)


def play_uses_fetched(roles):
    fn = roles.play.node
    rid = roles.play.params[1]
    fetched = None
    out = {}
    for n in walk_own(fn):
        if isinstance(n, ast.Assign) and isinstance(n.value, ast.Call) and isinstance(n.value.func, ast.Attribute) and \
                n.value.func.attr == 'get_recording' and isinstance(n.targets[0], ast.Name):
            fetched = n.targets[0].id
            a = n.value.args
            out['fetches the requested id'] = (bool(a) and isinstance(a[0], ast.Name) and a[0].id == rid,
                                                'get_recording(%s)' % (norm(a[0]) if a else ''))
    if fetched is None:
        raise AnalysisError('anchor-lost role=fetched recording local in play()')
    inst = [n for n in walk_own(fn) if isinstance(n, ast.Assign) and isinstance(n.targets[0], ast.Attribute) and
            n.targets[0].attr == roles.playback and not (isinstance(n.value, ast.Constant) and n.value.value is None)]
    out['installs the fetched recording as playback recording'] = (
        len(inst) == 1 and isinstance(inst[0].value, ast.Name) and inst[0].value.id == fetched,
        norm(inst[0]) if inst else 'no assignment')
    pb = [n for n in ast.walk(fn) if isinstance(n, ast.Call) and isinstance(n.func, ast.Name) and n.func.id == 'Playback']
    okp = bool(pb) and all(((c.args and isinstance(c.args[-1], ast.Name) and c.args[-1].id == fetched and len(c.args) == 5) or
                            any(k.arg == 'original_recording' and isinstance(k.value, ast.Name) and k.value.id == fetched for k in c.keywords))
                           for c in pb)
    out['returns the fetched recording as original_recording'] = (okp, norm(pb[0])[:100] if pb else 'no Playback(...)')
    return out, ''
