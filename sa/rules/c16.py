"""C16 - S3 time-window lookup is exact.

  C16.a  R-ABSINT    the day folders enumerated cover every calendar day from start's day to end's day
  C16.b  R-AGREE     the day text uses the DAY_FORMAT / id shape that create_new_recording writes; the day of a new
                     recording is read from the clock when it is created
  C16.c  R-DECISION  instant predicate: kept iff start <= last_modified <= end (each optional, inclusive), both bounds
                     localised the same way, evaluated per object (no late-bound closure), counted towards the limit only when kept
  C16.d  R-PROV      start / end reach the facade unchanged from the caller
"""
import ast

from ..report import Result, Finding, Clause
from ..loader import walk_own, norm, AnalysisError
from ..predeval import eval_pred, Undecidable, Rec

TOP = 'TOP'


def self_attr(e):
    if isinstance(e, ast.Attribute) and isinstance(e.value, ast.Name) and e.value.id == 'self':
        return e.attr
    return None


class DayAbs(object):
    """abstract values: ('dt', who) datetime with unknown time of day; ('date', who) calendar day / midnight;
    ('td', offsets) timedelta whose .days is DELTA + c for c in offsets (DELTA = end day - start day);
    ('int', offsets); TOP"""

    def __init__(self, fn, start, end):
        self.fn = fn
        self.start, self.end = start, end
        self.defs = {}
        self.busy = {}
        for n in walk_own(fn.node):
            if isinstance(n, ast.Assign) and isinstance(n.targets[0], ast.Name):
                self.defs.setdefault(n.targets[0].id, []).append(n.value)

    def ev(self, e, depth=0):
        if depth > 8:
            return TOP
        if isinstance(e, ast.Name):
            if e.id == self.start:
                return ('dt', 'start')
            if e.id == self.end:
                return ('dt', 'end')
            ds = self.defs.get(e.id, [])
            if len(ds) == 1:
                return self.ev(ds[0], depth + 1)
            if ds and e.id not in self.busy:
                # several definitions (a copy that is then defaulted: `x = end; x = x or now()`): all must denote the same value, the
                # ones that mention the name itself being judged under the value of the others
                self.busy[e.id] = None
                plain = [d for d in ds if not any(isinstance(x, ast.Name) and x.id == e.id for x in ast.walk(d))]
                vals = {self.ev(d, depth + 1) for d in plain}
                if len(vals) == 1 and TOP not in vals:
                    self.busy[e.id] = list(vals)[0]
                    rest = {self.ev(d, depth + 1) for d in ds if d not in plain}
                    del self.busy[e.id]
                    if rest <= vals:
                        return list(vals)[0]
                else:
                    del self.busy[e.id]
                return TOP
            if e.id in self.busy and self.busy[e.id] is not None:
                return self.busy[e.id]
            return TOP
        if isinstance(e, ast.BoolOp) and isinstance(e.op, ast.Or):
            # end_date or datetime.utcnow(): still "the end instant"
            vals = [self.ev(v, depth + 1) for v in e.values]
            if vals[0] == ('dt', 'end'):
                return ('dt', 'end')
            return TOP
        if isinstance(e, ast.Constant) and isinstance(e.value, int):
            return ('const', e.value)
        if isinstance(e, ast.Call) and isinstance(e.func, ast.Attribute):
            base = self.ev(e.func.value, depth + 1)
            a = e.func.attr
            if a == 'date' and isinstance(base, tuple) and base[0] in ('dt', 'date'):
                return ('date', base[1])
            if a == 'replace' and isinstance(base, tuple) and base[0] == 'dt':
                kws = {k.arg: k.value for k in e.keywords}
                if all(k in kws and isinstance(kws[k], ast.Constant) and kws[k].value == 0 for k in ('hour', 'minute', 'second', 'microsecond')):
                    return ('date', base[1])
                return base
            if a == 'total_seconds' and isinstance(base, tuple) and base[0] == 'td':
                return ('seconds', base[1])
            if a == 'toordinal' and isinstance(base, tuple) and base[0] in ('dt', 'date'):
                return ('ord', base[1])
            return TOP
        if isinstance(e, ast.Call) and isinstance(e.func, ast.Name) and e.func.id in ('int', 'abs') and e.args:
            return self.ev(e.args[0], depth + 1)
        if isinstance(e, ast.Attribute):
            base = self.ev(e.value, depth + 1)
            if e.attr == 'days' and isinstance(base, tuple) and base[0] == 'td':
                return ('int', base[1])
            return TOP          # .day, .month, ... : not a day count
        if isinstance(e, ast.BinOp):
            l, r = self.ev(e.left, depth + 1), self.ev(e.right, depth + 1)
            if isinstance(e.op, ast.Sub):
                if isinstance(l, tuple) and isinstance(r, tuple):
                    if l[0] in ('dt', 'date') and r[0] in ('dt', 'date') and l[1] == 'end' and r[1] == 'start':
                        if l[0] == 'date' and r[0] == 'date':
                            return ('td', frozenset({0}))
                        if l[0] == 'date' and r[0] == 'dt':
                            return ('td', frozenset({-1, 0}))
                        if l[0] == 'dt' and r[0] == 'date':
                            return ('td', frozenset({0}))
                        return ('td', frozenset({-1, 0}))
                    if l[0] == 'ord' and r[0] == 'ord' and l[1] == 'end' and r[1] == 'start':
                        return ('int', frozenset({0}))
                    if l[0] == 'int' and r[0] == 'const':
                        return ('int', frozenset(c - r[1] for c in l[1]))
                return TOP
            if isinstance(e.op, ast.Add):
                if isinstance(l, tuple) and isinstance(r, tuple):
                    if l[0] == 'int' and r[0] == 'const':
                        return ('int', frozenset(c + r[1] for c in l[1]))
                    if l[0] == 'const' and r[0] == 'int':
                        return ('int', frozenset(c + l[1] for c in r[1]))
                return TOP
            if isinstance(e.op, ast.FloorDiv) and isinstance(l, tuple) and l[0] == 'seconds' and isinstance(r, tuple) and r[0] == 'const' and r[1] == 86400:
                return ('int', l[1])
            return TOP
        return TOP


def run(ctx):
    res = Result('C16')
    repo = ctx.repo
    # the statelessness clause first: when the window lives in shared state the shape rules below have nothing to bind to
    from . import common
    cas0, fac0 = repo.cls('S3TapeCassette'), repo.cls('S3BasicFacade')
    cg = Clause('C16.g', 'R-PROV', 'time-window lookup keeps no state on the cassette or the facade', floor=2)
    common.stateless_methods_clause(res, cg, 'C16', 'C16.g', cas0, ['iter_recording_ids', 'iter_recordings_metadata'],
                                    'every lookup has its own window, evaluated against the clock and the bucket at that time')
    common.stateless_methods_clause(res, cg, 'C16', 'C16.g', fac0, ['iter_keys'],
                                    'the bounds of a listing belong to that listing alone (listings are lazy and may be consumed interleaved)')
    ci16 = res.clause('C16.i', 'R-PROV', 'a value that can be iterated once (day folders, listings) has one reader', floor=1)
    twice = [x for k_ in (repo.cls('S3TapeCassette'), repo.cls('S3BasicFacade')) for x in common.one_shot_results_read_twice(k_)]
    ci16.instance('no method of the S3 cassette / facade reads a one-shot result twice', 'S3TapeCassette', not twice)
    ci16.evaluations += 1
    for m_, nm_, reads_, prod_ in twice[:1]:
        res.add(Finding('C16', 'C16.i', 'R-PROV', m_.file, m_.qualname, reads_[0].lineno, '`%s` read %d times' % (nm_, len(reads_)),
                        '`%s` comes from %s, which hands out a value that can be iterated only once, and %s reads it %d times (lines %s): whatever reads '
                        'it first - a log line that joins it - leaves nothing for the listing, so the lookup returns no recordings' % (
                            nm_, prod_.qualname, m_.qualname, len(reads_), ', '.join(str(r.lineno) for r in reads_))))
    shared_dflt = [(m_, p_, n_) for k_ in (repo.cls('S3TapeCassette'), repo.cls('S3BasicFacade')) for m_ in k_.methods.values()
                   for p_, n_ in common.mutable_defaults_mutated(m_.node)]
    ci16.instance('no listing / lookup routine of the S3 cassette / facade fills a mutable default argument', 'S3BasicFacade', not shared_dflt)
    for m_, p_, n_ in shared_dflt[:1]:
        res.add(Finding('C16', 'C16.i', 'R-PROV', m_.file, m_.qualname, n_.lineno, '%s=%s filled by `%s`' % (p_.arg, '[]', norm(n_)[:50]),
                        '`%s` of %s has a mutable default that the routine changes in place: the one default object is shared by every call (and every '
                        'instance), so the conditions of earlier lookups stay in force - a later window returns only what also lay in the earlier ones' % (
                            p_.arg, m_.qualname)))
    common.import_clauses(ctx, res, 'C10', ['C10.a', 'C10.d'], 'C16', 'C16.h', 'R-SIBLING', 'S3 listing prefixes are the category followed by the id delimiter (and a day folder); listed keys are turned back into the ids that were saved', floor=2)
    common.import_clauses(ctx, res, 'C15', ['C15.e'], 'C16', 'C16.j', 'R-ORDER', 'what a window lookup lists can be fetched: the listed object is written after the full object', floor=1)
    try:
        _run_rest(ctx, res)
    except AnalysisError as ex:
        if not res.findings:
            raise
        res.not_decided.append('remaining clauses not bound on this tree (%s); the violation above stands on its own' % ex)
        res.clauses = [c for c in res.clauses if c.obligations >= c.floor]
    res.clauses.append(cg)
    return res


def _run_rest(ctx, res):
    repo = ctx.repo
    res.explanation = (
        'Decides the two mechanisms of the time-window lookup: the enumeration of day folders is interpreted over the domain '
        '(calendar day, unknown time of day) - a difference of raw datetimes has .days in {D-1, D} and therefore may stop one '
        'day short, differences of normalised operands are exact, anything else (day-of-month arithmetic) is unknown - and must '
        'provably reach end\'s calendar day; the per-object instant predicate of the facade is evaluated on sample instants '
        'for all combinations of absent / present bounds and checked for late-bound closures and for the position of the limit '
        'counter. Not decided: boto LastModified semantics; clock alignment between creation and save.')
    res.not_decided = ['boto listing / LastModified semantics', 'clock skew between today() at creation and LastModified (property assumes UTC and same-instant save)']
    res.assumptions = ['process clock in UTC']
    ca = res.clause('C16.a', 'R-ABSINT', 'enumerated day folders cover start.day .. end.day', floor=2)
    cb = res.clause('C16.b', 'R-AGREE', 'day text and id shape agree with create_new_recording; day read from the clock per recording', floor=3)
    cc = res.clause('C16.c', 'R-DECISION', 'inclusive optional-bound instant predicate, per object, before the limit counter', floor=4)
    cd = res.clause('C16.d', 'R-PROV', 'start / end reach the facade unchanged', floor=1)
    cas = repo.cls('S3TapeCassette')
    fac = repo.cls('S3BasicFacade')
    # ---- locate the prefix enumeration: method of the cassette that formats day prefixes with DAY_FORMAT over a range
    enum = None
    for m in cas.methods.values():
        if m.name == 'create_new_recording':
            continue
        if any(self_attr(n) == 'DAY_FORMAT' for n in ast.walk(m.node)):
            enum = m
    if enum is None:
        raise AnalysisError('anchor-lost role=day prefix enumeration')
    params = enum.params
    start, end = None, None
    for p in params:
        if 'start' in p:
            start = p
        if 'end' in p:
            end = p
    if not start or not end:
        raise AnalysisError('anchor-lost role=start/end parameters of %s' % enum.qualname)
    da = DayAbs(enum, start, end)
    # the comprehension / loop that produces the days
    ok = False
    why = 'no enumeration `start + timedelta(days=i) for i in range(N)` found'
    found = None
    for n in ast.walk(enum.node):
        if isinstance(n, (ast.ListComp, ast.GeneratorExp)) and len(n.generators) == 1:
            g = n.generators[0]
            if isinstance(g.iter, ast.Call) and isinstance(g.iter.func, ast.Name) and g.iter.func.id == 'range' and len(g.iter.args) == 1 \
                    and isinstance(g.target, ast.Name):
                elt = n.elt
                # start + timedelta(days=i)
                if isinstance(elt, ast.BinOp) and isinstance(elt.op, ast.Add):
                    base = da.ev(elt.left)
                    td = elt.right
                    is_td = isinstance(td, ast.Call) and norm(td.func).endswith('timedelta') and any(
                        k.arg == 'days' and isinstance(k.value, ast.Name) and k.value.id == g.target.id for k in td.keywords)
                    if isinstance(base, tuple) and base[1] == 'start' and is_td:
                        found = (n, g.iter.args[0])
    cursor_form = None
    if found is None:
        # the same written with a cursor: `day = <start>; while day <= <end>: ...; day += timedelta(days=1)`
        import copy as _copy
        for w in [x for x in walk_own(enum.node) if isinstance(x, ast.While) and isinstance(x.test, ast.Compare) and len(x.test.ops) == 1]:
            steps = [x for x in ast.walk(w) if (isinstance(x, ast.AugAssign) and isinstance(x.op, ast.Add) and isinstance(x.target, ast.Name) and
                                                 norm(x.value).replace(' ', '') in ('timedelta(days=1)', 'datetime.timedelta(days=1)', 'timedelta(1)')) or
                     (isinstance(x, ast.Assign) and isinstance(x.targets[0], ast.Name) and isinstance(x.value, ast.BinOp) and isinstance(x.value.op, ast.Add) and
                      isinstance(x.value.left, ast.Name) and x.value.left.id == x.targets[0].id and
                      norm(x.value.right).replace(' ', '') in ('timedelta(days=1)', 'datetime.timedelta(days=1)', 'timedelta(1)'))]
            if len(steps) != 1:
                continue
            cur = steps[0].target.id if isinstance(steps[0], ast.AugAssign) else steps[0].targets[0].id
            inits = [x for x in walk_own(enum.node) if isinstance(x, ast.Assign) and len(x.targets) == 1 and isinstance(x.targets[0], ast.Name) and
                     x.targets[0].id == cur and x is not steps[0] and x.lineno < w.lineno]
            if len(inits) != 1:
                continue

            class _Sub(ast.NodeTransformer):
                def visit_Name(self_, n):
                    return _copy.deepcopy(inits[0].value) if n.id == cur else n
            lhs, rhs, op = w.test.left, w.test.comparators[0], w.test.ops[0]
            if any(isinstance(x, ast.Name) and x.id == cur for x in ast.walk(rhs)):
                lhs, rhs = rhs, lhs
                op = {ast.GtE: ast.LtE, ast.Gt: ast.Lt, ast.LtE: ast.GtE, ast.Lt: ast.Gt}.get(type(op), type(op))()
            lv, rv_ = da.ev(_Sub().visit(_copy.deepcopy(lhs))), da.ev(rhs)
            if isinstance(lv, tuple) and isinstance(rv_, tuple) and lv[0] in ('dt', 'date') and rv_[0] in ('dt', 'date') and lv[1] == 'start' and rv_[1] == 'end':
                cursor_form = (w, lv, rv_, op, rhs)
    if cursor_form is not None:
        w, lv, rv_, op, rhs_end = cursor_form
        ok = isinstance(op, ast.LtE) and lv[0] == 'date'
        why = 'cursor loop `while %s`: the cursor is start\'s %s advanced by whole days and is compared with end\'s %s' % (
            norm(w.test), 'calendar day' if lv[0] == 'date' else 'instant (time of day kept)', 'calendar day' if rv_[0] == 'date' else 'instant')
        if not ok:
            why += ': when end\'s time of day is earlier than start\'s the cursor passes end before it reaches end\'s calendar day, so the last day folder ' \
                   'is not listed and recordings saved that day inside the window are missed' if lv[0] == 'dt' else ': end\'s calendar day is not reached for every alignment'
        ca.instance('day enumeration reaches end\'s calendar day', enum.qualname, ok, detail=why)
        ca.evaluations += 1
        if not ok:
            res.add(Finding('C16', 'C16.a', 'R-ABSINT', enum.file, enum.qualname, w.lineno, norm(w.test), why))
        found = (w, rhs_end)
    if found is None:
        raise AnalysisError('day-folder enumeration has a shape the day-count interpretation does not model '
                            '(expected `[start + timedelta(days=i) for i in range(N)]`)')
    if found and cursor_form is None:
        n, count = found
        v = da.ev(count)
        if v == TOP or not (isinstance(v, tuple) and v[0] == 'int'):
            ok = False
            why = 'the number of day folders `%s` is not a day count derived from the two dates (evaluates to %s): it cannot be shown to ' \
                  'reach end\'s calendar day (e.g. across a month boundary)' % (norm(count), v)
        else:
            # range(N) yields 0..N-1: last day index = DELTA + c - 1
            worst = min(v[1]) - 1
            ok = worst >= 0
            why = 'range(%s): last enumerated day = start.day + DELTA%+d for every alignment (possible offsets %s)' % (
                norm(count), worst, sorted(c - 1 for c in v[1]))
            if not ok:
                why = 'range(%s) may stop at start.day + DELTA%+d: with unknown times of day `(end - start).days` is DELTA-1 or DELTA, ' \
                      'so end\'s calendar day can be missed' % (norm(count), worst)
    if cursor_form is None:
        ca.instance('day enumeration reaches end\'s calendar day', enum.qualname, ok, detail=why)
        ca.evaluations += 1
    if not ok and cursor_form is None:
        res.add(Finding('C16', 'C16.a', 'R-ABSINT', enum.file, enum.qualname, found[0].lineno if found else enum.node.lineno,
                        norm(found[0]) if found else 'day enumeration', why))
    # end defaults to now before the enumeration
    def is_now_default(v, names):
        return isinstance(v, ast.BoolOp) and isinstance(v.op, ast.Or) and len(v.values) == 2 and isinstance(v.values[0], ast.Name) and \
            v.values[0].id in names and any(isinstance(c, ast.Call) and norm(c.func).split('.')[-1] in ('utcnow', 'now') for c in ast.walk(v.values[1]))
    # names that stand for the end bound: the parameter and locals only ever bound to it / to its defaulted form
    aliases = {end}
    grew = True
    while grew:
        grew = False
        for nm, ds in da.defs.items():
            if nm not in aliases and nm not in params and ds and all((isinstance(d, ast.Name) and d.id in aliases) or is_now_default(d, aliases | {nm}) for d in ds):
                aliases.add(nm)
                grew = True
    dflt = [n for n in walk_own(enum.node) if isinstance(n, ast.Assign) and isinstance(n.targets[0], ast.Name) and n.targets[0].id in aliases
            and is_now_default(n.value, aliases)]
    in_count = {x.id for x in ast.walk(found[1]) if isinstance(x, ast.Name) and x.id in aliases} if found is not None else set()
    okd = bool(dflt) and (found is None or (all(d.lineno < found[0].lineno for d in dflt) and in_count <= {d.targets[0].id for d in dflt}))
    if not okd and found is not None:
        # the same through an explaining variable: every use of the end parameter in the day count is `end or <now>`
        from ..loader import expand_locals
        cnt = expand_locals(enum.node, found[1])
        uses = [x for x in ast.walk(cnt) if isinstance(x, ast.Name) and x.id == end]
        guarded = [v.values[0] for v in ast.walk(cnt) if isinstance(v, ast.BoolOp) and isinstance(v.op, ast.Or) and len(v.values) == 2 and
                   isinstance(v.values[0], ast.Name) and v.values[0].id == end and
                   any(isinstance(c, ast.Call) and norm(c.func).split('.')[-1] in ('utcnow', 'now') for c in ast.walk(v.values[1]))]
        okd = bool(uses) and all(any(u is g for g in guarded) for u in uses)
    ca.instance('end defaults to now before the enumeration', enum.qualname, okd)
    if not okd:
        res.add(Finding('C16', 'C16.a', 'R-ABSINT', enum.file, enum.qualname, enum.node.lineno, 'end default',
                        'an absent end is not replaced by the current time before the day folders are enumerated'))

    # ---- C16.b
    create = cas.lookup('create_new_recording')
    rid = cas.lookup_const('RECORDING_ID')
    dayf = cas.lookup_const('DAY_FORMAT')
    if not (isinstance(rid, ast.Constant) and isinstance(dayf, ast.Constant)):
        raise AnalysisError('anchor-lost constants RECORDING_ID / DAY_FORMAT')
    # prefix template used by the enumeration
    ptmpl = None
    for n in ast.walk(enum.node):
        if isinstance(n, ast.Call) and isinstance(n.func, ast.Attribute) and n.func.attr == 'format' and isinstance(n.func.value, ast.Constant) \
                and any(isinstance(a, ast.Call) and isinstance(a.func, ast.Attribute) and a.func.attr == 'strftime' for a in n.args):
            ptmpl = n
    okb = False
    why = 'day prefix format not found'
    if ptmpl is not None:
        tmpl = ptmpl.func.value.value
        sample_id = rid.value.format(category='cat', day='20240131', id='abc')
        pref = tmpl.format('cat', '20240131')
        okb = sample_id.startswith(pref) and pref.endswith('/')
        st = [a for a in ptmpl.args if isinstance(a, ast.Call) and isinstance(a.func, ast.Attribute) and a.func.attr == 'strftime'][0]
        fmt_ok = bool(st.args) and self_attr(st.args[0]) == 'DAY_FORMAT'
        okb = okb and fmt_ok
        why = 'prefix %r vs id %r, strftime(%s)' % (pref, sample_id, norm(st.args[0]) if st.args else '')
    cb.instance('day prefix is a delimiter-terminated prefix of the recording id shape, formatted with DAY_FORMAT', enum.qualname, okb, detail=why)
    if not okb:
        res.add(Finding('C16', 'C16.b', 'R-AGREE', enum.file, enum.qualname, enum.node.lineno, 'day prefix shape', why))
    # create_new_recording: day = <clock read>.strftime(self.DAY_FORMAT), evaluated in the call
    okc = False
    why = 'create_new_recording does not format the id with a day read from the clock'
    for n in ast.walk(create.node):
        if isinstance(n, ast.Call) and isinstance(n.func, ast.Attribute) and n.func.attr == 'format' and self_attr(n.func.value) == 'RECORDING_ID':
            kws = {k.arg: k.value for k in n.keywords}
            d = kws.get('day')
            if isinstance(d, ast.Name):
                ds = [x.value for x in walk_own(create.node) if isinstance(x, ast.Assign) and isinstance(x.targets[0], ast.Name) and x.targets[0].id == d.id]
                d = ds[0] if len(ds) == 1 else d
            if isinstance(d, ast.Call) and isinstance(d.func, ast.Attribute) and d.func.attr == 'strftime' and d.args and \
                    self_attr(d.args[0]) == 'DAY_FORMAT':
                clk = d.func.value
                if isinstance(clk, ast.Call) and norm(clk.func) in ('datetime.today', 'datetime.utcnow', 'datetime.now', 'datetime.datetime.utcnow',
                                                                     'datetime.datetime.today', 'datetime.datetime.now'):
                    okc = True
                    why = 'day=%s' % norm(d)
                else:
                    why = 'the day folder of a new recording is `%s`, not a clock read made when the recording is created' % norm(d)
            elif d is not None:
                why = 'the day folder of a new recording is `%s`, not <clock>.strftime(self.DAY_FORMAT) evaluated at creation: a ' \
                      'long-lived cassette would file recordings under a stale day' % norm(d)
    cb.instance('create_new_recording reads the day from the clock at creation, formatted with DAY_FORMAT', create.qualname, okc, detail=why)
    cb.instance('DAY_FORMAT %r / RECORDING_ID %r' % (dayf.value, rid.value), cas.name, rid.value.startswith('{category}/{day}/'))
    cb.evaluations += 3
    if not okc:
        res.add(Finding('C16', 'C16.b', 'R-AGREE', create.file, create.qualname, create.node.lineno, 'day folder of a new recording', why))

    # ---- C16.c facade predicate
    ik = fac.lookup('iter_keys')
    if ik is None:
        raise AnalysisError('anchor-lost method=S3BasicFacade.iter_keys')
    # the listing visits every object of the prefix: only the limit may end it early (bucket listings are in key order, not in time order)
    from . import common as _common
    limit_names = {p for p in ik.params if 'limit' in p}
    counters = {n.target.id for n in ast.walk(ik.node) if isinstance(n, ast.AugAssign) and isinstance(n.target, ast.Name)}
    early = _common.guards_of(ik.node, lambda x: isinstance(x, (ast.Break, ast.Return)))
    # a `break` leaves its own (innermost) loop only: breaks of loops nested in the listing loop (a loop over the predicates) do not end the listing
    all_loops = [l for l in ast.walk(ik.node) if isinstance(l, (ast.For, ast.While))]
    def innermost_loop(x):
        best = None
        for l in all_loops:
            if any(y is x for b_ in l.body for y in ast.walk(b_)) and (best is None or any(y is l for y in ast.walk(best))):
                best = l
        return best
    listing = [l for l in all_loops if not any(l is not o and any(y is l for y in ast.walk(o)) for o in all_loops)]
    early = [(st_, cs) for st_, cs in early if not isinstance(st_, ast.Break) or innermost_loop(st_) in listing]
    bad_early = []
    for st, conds in early:
        lits = [l for t, pol in conds for l in _common.split_literals(t, pol)]
        for t, pol in lits:
            names = {x.id for x in ast.walk(t) if isinstance(x, ast.Name)}
            if not (names & (limit_names | counters)) or any(isinstance(x, ast.Attribute) and x.attr == 'last_modified' for x in ast.walk(t)):
                bad_early.append((st, t))
    cc.instance('the listing loop ends early only on the limit (%d early exits)' % len(early), ik.qualname, not bad_early)
    cc.evaluations += len(early)
    for st, t in bad_early[:1]:
        res.add(Finding('C16', 'C16.c', 'R-DECISION', ik.file, ik.qualname, st.lineno, norm(t),
                        'the listing stops early under `%s`: objects of a prefix are listed in key order, not in time order, so objects inside the '
                        'window that are listed later are missed' % norm(t)))
    lambdas = [n for n in ast.walk(ik.node) if isinstance(n, ast.Lambda)]
    date_l = [l for l in lambdas if any(isinstance(x, ast.Attribute) and x.attr == 'last_modified' for x in ast.walk(l))]
    okp = len(date_l) >= 1
    wrong = []
    undecidable = None
    if okp:
        try:
            for lam in date_l[:1] if len(date_l) == 1 else date_l:
                pass
            # conjunction of all date lambdas
            for s_ in (None, 5):
                for e_ in (None, 10):
                    if s_ is None and e_ is None:
                        continue
                    for lm in (4, 5, 7, 10, 11):
                        expect = (s_ is None or s_ <= lm) and (e_ is None or lm <= e_)
                        got = True
                        for lam in date_l:
                            arg = lam.args.args[0].arg
                            env = {'start_date': s_, 'end_date': e_, arg: Rec(last_modified=lm)}
                            # the predicate acts only where it is installed: the conditions around the statement that stores it
                            installed = True
                            for st_i, conds_i in _common.guards_of(ik.node, lambda x, lam=lam: x is lam):
                                for t_i, pol_i in conds_i:
                                    if not any(isinstance(x, ast.Name) and x.id in ('start_date', 'end_date') for x in ast.walk(t_i)):
                                        continue
                                    installed = installed and (bool(eval_pred(t_i, {'start_date': s_, 'end_date': e_}, ik.module)) == pol_i)
                            if installed:
                                got = got and bool(eval_pred(lam.body, env, ik.module))
                        cc.evaluations += 1
                        if got != expect:
                            wrong.append((s_, e_, lm, expect, got))
        except Undecidable as u:
            undecidable = str(u)
    cc.instance('instant predicate on 15 sample (start, end, last_modified) triples: start <= lm <= end, bounds optional', ik.qualname,
                okp and not wrong and not undecidable, detail=str(wrong[:3]) + (' undecidable: %s' % undecidable if undecidable else ''))
    if okp and (wrong or not undecidable) and (not okp or wrong):
        res.add(Finding('C16', 'C16.c', 'R-DECISION', ik.file, ik.qualname, date_l[0].lineno if date_l else ik.node.lineno,
                        norm(date_l[0]) if date_l else 'date predicate',
                        'the last-modified predicate is not "start <= last_modified <= end with optional inclusive bounds": %s' % (
                            '; '.join('start=%s end=%s lm=%s expected %s got %s' % w for w in wrong[:3]) or 'predicate not found')))
    # late binding: a stored lambda / nested def inside a loop that reads the loop's variables
    late = []
    for lp in [n for n in ast.walk(ik.node) if isinstance(n, ast.For)]:
        targets = {x.id for x in ast.walk(lp.target) if isinstance(x, ast.Name)}
        for st in ast.walk(lp):
            stored = None
            if isinstance(st, ast.Call) and isinstance(st.func, ast.Attribute) and st.func.attr in ('append', 'insert', 'add', 'extend'):
                stored = [a for a in st.args if isinstance(a, ast.Lambda)]
            elif isinstance(st, ast.Assign) and isinstance(st.value, ast.Lambda):
                stored = [st.value]
            for lam in stored or []:
                bound = {a.arg for a in lam.args.args} | {a.arg for a in lam.args.kwonlyargs}
                free = {x.id for x in ast.walk(lam.body) if isinstance(x, ast.Name)} - bound
                if free & targets:
                    late.append((lam, sorted(free & targets)))
    cc.instance('no stored closure reads a loop variable (late binding)', ik.qualname, not late)
    if (undecidable or not okp) and not late:
        raise AnalysisError('the last-modified predicate of the facade has a shape the evaluator does not model (%s)' % (undecidable or 'not found'))
    for lam, names in late:
        res.add(Finding('C16', 'C16.c', 'R-DECISION', ik.file, ik.qualname, lam.lineno, norm(lam),
                        'a predicate stored inside a loop reads the loop variable(s) %s when it is called later: every stored predicate '
                        'sees the last iteration\'s values (one of the bounds is lost)' % names))
    # both bounds localised the same way
    loc = {}
    for n in walk_own(ik.node):
        if isinstance(n, ast.Assign) and isinstance(n.targets[0], ast.Name) and n.targets[0].id in ('start_date', 'end_date'):
            v = n.value
            call = v.body if isinstance(v, ast.IfExp) else v
            loc[n.targets[0].id] = norm(call.func) if isinstance(call, ast.Call) else norm(call)
    okl = len(loc) < 2 or len(set(loc.values())) == 1
    cc.instance('both bounds localised the same way (%s)' % sorted(set(loc.values())), ik.qualname, okl, nontrivial=len(loc) == 2)
    if not okl:
        res.add(Finding('C16', 'C16.c', 'R-DECISION', ik.file, ik.qualname, ik.node.lineno, 'bound localisation %s' % loc,
                        'start and end are not converted to aware instants the same way'))
    # limit counter counts kept objects only
    okcnt, why = limit_counter(ik)
    cc.instance('limit counts only objects that passed the predicates', ik.qualname, okcnt, detail=why)
    if not okcnt:
        res.add(Finding('C16', 'C16.c', 'R-DECISION', ik.file, ik.qualname, ik.node.lineno, 'limit counter', why))

    # ---- C16.e merging the per-day listings: only the listing that is exhausted is dropped
    cee = res.clause('C16.e', 'R-PROV', 'the merge of per-day listings drops exactly the listing that returned no more keys', floor=1)
    it3 = cas.lookup('iter_recording_ids')
    nx = [n for n in ast.walk(it3.node) if isinstance(n, ast.Assign) and isinstance(n.value, ast.Call) and isinstance(n.value.func, ast.Name) and
          n.value.func.id == 'next' and n.value.args and isinstance(n.value.args[0], ast.Name)]
    if len(nx) != 1:
        raise AnalysisError('S3 listing merge has a shape the rule does not model (expected one `key = next(<listing>, None)`)')
    cur = nx[0].value.args[0].id
    drops = []
    for n in ast.walk(it3.node):
        if isinstance(n, ast.Call) and isinstance(n.func, ast.Attribute) and n.func.attr in ('remove', 'pop', 'discard') and isinstance(n.func.value, ast.Name):
            drops.append(n)
        if isinstance(n, ast.Delete):
            drops.append(n)
    okm = bool(drops) and all(isinstance(d, ast.Call) and d.func.attr == 'remove' and d.args and isinstance(d.args[0], ast.Name) and d.args[0].id == cur for d in drops)
    cee.instance('%d removal(s) from the list of per-day listings, each `remove(%s)`' % (len(drops), cur), it3.qualname, okm)
    cee.evaluations += len(drops)
    if not okm:
        bad = [d for d in drops if not (isinstance(d, ast.Call) and d.func.attr == 'remove' and d.args and isinstance(d.args[0], ast.Name) and d.args[0].id == cur)]
        res.add(Finding('C16', 'C16.e', 'R-PROV', it3.file, it3.qualname, bad[0].lineno if bad else it3.node.lineno, norm(bad[0]) if bad else 'listing removal',
                        'when a per-day listing is exhausted, a listing is dropped by position / other identity instead of the exhausted one (`%s`): an '
                        'unread day can be discarded and its recordings are missed' % cur))
    # a listing is taken for exhausted only when it *is* exhausted: a failure while listing must reach the caller, not end that day quietly
    swallow = []
    for t_ in [n for n in ast.walk(it3.node) if isinstance(n, ast.Try)]:
        if not any(isinstance(x, ast.Call) and isinstance(x.func, ast.Name) and x.func.id == 'next' for b in t_.body for x in ast.walk(b)):
            continue
        for h in t_.handlers:
            names = [norm(x).split('.')[-1] for x in (h.type.elts if isinstance(h.type, ast.Tuple) else [h.type])] if h.type is not None else ['<bare>']
            reraises = any(isinstance(x, ast.Raise) for x in ast.walk(h))
            if any(nm != 'StopIteration' for nm in names) and not reraises:
                swallow.append((h, names))
    cee.instance('a failing per-day listing is not mistaken for an exhausted one', it3.qualname, not swallow)
    for h, names in swallow[:1]:
        res.add(Finding('C16', 'C16.e', 'R-PROV', it3.file, it3.qualname, h.lineno, 'except %s around next(<listing>)' % ', '.join(names),
                        'an exception raised while a per-day listing is read (%s) is swallowed and the listing is treated as exhausted: the lookup '
                        'returns normally with that day\'s remaining recordings silently missing' % ', '.join(names)))
    # ---- C16.f every saved recording has the object the window lookup lists (shared with C15.e)
    from . import c15
    cff = res.clause('C16.f', 'R-ORDER', 'every returning save writes the listed object (a saved recording is discoverable)', floor=1)
    c15.save_completeness(ctx, res, cff, 'C16', 'C16.f')

    # ---- C16.d pass-through chain
    okd, why = passthrough(repo, cas, fac)
    cd.instance('start_date / end_date handed unchanged from iter_recording_ids to the facade listing', cas.name, okd, detail=why)
    cd.evaluations += 1
    if not okd:
        res.add(Finding('C16', 'C16.d', 'R-PROV', cas.module.relpath, cas.name, cas.node.lineno, 'start/end pass-through', why))
    return res


def limit_counter(ik):
    cmpv = None
    for n in ast.walk(ik.node):
        if isinstance(n, ast.Compare) and len(n.ops) == 1 and isinstance(n.ops[0], (ast.Eq, ast.GtE)):
            names = [x for x in [n.left] + n.comparators if isinstance(x, ast.Name)]
            if any(x.id == 'limit' for x in names):
                other = [x.id for x in names if x.id != 'limit']
                if other:
                    cmpv = other[0]
    if cmpv is None:
        return False, 'no comparison of a counter with limit'
    for n in ast.walk(ik.node):
        if isinstance(n, ast.For):
            if any(isinstance(x, ast.Name) and x.id == cmpv for x in ast.walk(n.target)):
                return False, 'the variable compared with limit (`%s`) is a loop index: it counts scanned objects, not objects that passed ' \
                              'the date / content predicates' % cmpv
    incs = [n for n in ast.walk(ik.node) if isinstance(n, ast.AugAssign) and isinstance(n.target, ast.Name) and n.target.id == cmpv]
    if len(incs) != 1:
        return False, 'counter `%s` incremented %d times' % (cmpv, len(incs))
    inc = incs[0]
    # the counter counts exactly the keys handed out: within one round of the loop the increment and the yield are reached under
    # the same conditions, and those conditions include the outcome of the predicates (not only the comparison with the limit)
    from .. import paths as _paths
    loops = [n for n in ast.walk(ik.node) if isinstance(n, (ast.For, ast.While)) and any(x is inc for x in ast.walk(n))]
    if not loops:
        return False, 'counter `%s` is not incremented in the listing loop' % cmpv
    loop = loops[0]          # the listing loop (outermost): a predicate loop nested in it is part of one round
    try:
        pi = _paths.paths_to(loop.body, lambda x: x is inc)
        py = _paths.paths_to(loop.body, lambda x: isinstance(x, ast.Yield))
    except _paths.Unsupported as ex:
        raise AnalysisError('listing loop has a shape the path table does not model: %s' % ex)
    key = lambda cs: tuple(sorted((norm(c), p) for c, p in cs))
    ci, cy = {key(cs) for _, cs in pi}, {key(cs) for _, cs in py}
    if not cy:
        return False, 'the loop that increments `%s` does not yield the key' % cmpv
    if ci != cy:
        return False, 'counter `%s` is incremented under %s but a key is yielded under %s' % (
            cmpv, sorted(' and '.join(('' if p else 'not ') + c for c, p in k) or 'always' for k in ci),
            sorted(' and '.join(('' if p else 'not ') + c for c, p in k) or 'always' for k in cy))
    free = [k for k in ci if not any('limit' not in c for c, p in k)]
    if free:
        return False, 'counter `%s` is incremented unconditionally' % cmpv
    return True, 'counter `%s` incremented exactly where a key is yielded (%s)' % (
        cmpv, '; '.join(' and '.join(('' if p else 'not ') + c for c, p in k) for k in sorted(ci)))


def passthrough(repo, cas, fac):
    it = cas.lookup('iter_recording_ids')
    notes = []

    def reach(fn, depth):
        if depth > 6:
            return False
        reassigned = any(isinstance(x, ast.Name) and x.id in ('start_date', 'end_date') and isinstance(x.ctx, (ast.Store, ast.Del))
                         for x in walk_own(fn.node))      # any rebinding: plain, tuple target, augmented, loop / with target
        for n in ast.walk(fn.node):
            if not (isinstance(n, ast.Call) and isinstance(n.func, ast.Attribute)):
                continue
            tgt = None
            if self_attr(n.func) is not None and cas.lookup(n.func.attr) is not None:
                tgt = cas.lookup(n.func.attr)
            elif n.func.attr == 'iter_keys':
                tgt = fac.lookup('iter_keys')
            if tgt is None or tgt is fn:
                continue
            params = tgt.params[1:]
            bound = {}
            for i, a in enumerate(n.args):
                if i < len(params):
                    bound[params[i]] = a
            for k in n.keywords:
                if k.arg:
                    bound[k.arg] = k.value
            sd, ed = bound.get('start_date'), bound.get('end_date')
            if sd is None and ed is None:
                continue
            final = n.func.attr == 'iter_keys'
            if final or reach(tgt, depth + 1):
                unchanged = isinstance(sd, ast.Name) and sd.id == 'start_date' and isinstance(ed, ast.Name) and ed.id == 'end_date'
                if not unchanged:
                    notes.append('%s passes start=%s end=%s to %s' % (fn.qualname, norm(sd) if sd is not None else None,
                                                                      norm(ed) if ed is not None else None, tgt.qualname))
                if reassigned:
                    notes.append('%s re-assigns a window bound before handing it on' % fn.qualname)
                return True
        return False
    ok = reach(it, 0)
    if not ok:
        return False, 'no call chain from iter_recording_ids to the facade listing carries start_date / end_date'
    if notes:
        return False, '; '.join(notes)
    return True, 'start_date / end_date passed as the same names along the chain to iter_keys'
