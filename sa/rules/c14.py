"""C14 - Metadata filter matching is total and means what is documented.

  C14.a  totality    no path of the matcher reaches an exceptional exit: every partial operation on an untyped value
                     (ordering comparison, fnmatch, subscript) is type-guarded or inside a handler that yields a boolean
  C14.b  R-DECISION  the value matcher, per cell of its guards, in the documented order: list -> any alternative;
                     operator object -> comparison by the named operator (unknown operator: no match); recorded None
                     matches only None; string filter -> shell pattern against string values; otherwise equality;
                     the top level is a conjunction over the filter keys
  C14.c  R-WHOCALLS  the S3 content filter and the in-memory / file listings call this matcher
"""
import ast

from ..report import Result, Finding
from ..loader import walk_own, norm, AnalysisError
from ..resolve import RepoPolicy
from .. import small

OPS = {'=': 'Eq', '<': 'Lt', '<=': 'LtE', '>': 'Gt', '>=': 'GtE'}
OPMOD = {'eq': 'Eq', 'lt': 'Lt', 'le': 'LtE', 'gt': 'Gt', 'ge': 'GtE'}


class MatcherPolicy(RepoPolicy):
    def call_target(self, call, frame, for_with=False):
        t = RepoPolicy.call_target(self, call, frame, for_with)
        if t.label.startswith('local-callable:') and isinstance(call.func, ast.Name):
            # a callable picked from a module-level table of library functions (e.g. operator.lt): union of their effects
            from ..resolve import LIB_FUNCS
            fn = frame.func
            assigns = [n for n in walk_own(fn.node) if isinstance(n, ast.Assign) and
                       any(isinstance(x, ast.Name) and x.id == call.func.id for x in n.targets)]
            if len(assigns) == 1:
                v = assigns[0].value
                tbl = None
                if isinstance(v, ast.Subscript) and isinstance(v.value, ast.Name):
                    tbl = v.value.id
                if isinstance(v, ast.Call) and isinstance(v.func, ast.Attribute) and v.func.attr == 'get' and isinstance(v.func.value, ast.Name):
                    tbl = v.func.value.id
                lit = fn.module.globals.get(tbl) if tbl else None
                if isinstance(lit, ast.Dict):
                    raises = set()
                    ok = True
                    for val in lit.values:
                        d = self.dotted(val, fn.module) if isinstance(val, ast.Attribute) else None
                        if d in LIB_FUNCS:
                            raises |= set(self._atoms(LIB_FUNCS[d]))
                        else:
                            ok = False
                    if ok:
                        from ..cfg import Target
                        return Target('opaque', 'lib-table:%s[...]' % tbl, raises=frozenset(raises), role='lib')
            if not assigns:
                # a loop variable ranging over a module-level table of (.., library function) pairs
                for lp in [n for n in walk_own(fn.node) if isinstance(n, ast.For) and isinstance(n.iter, ast.Name) and isinstance(n.target, ast.Tuple)]:
                    idx = [i for i, t_ in enumerate(lp.target.elts) if isinstance(t_, ast.Name) and t_.id == call.func.id]
                    lit = fn.module.globals.get(lp.iter.id)
                    if idx and isinstance(lit, (ast.Tuple, ast.List)) and lit.elts and all(isinstance(e, ast.Tuple) and len(e.elts) > idx[0] for e in lit.elts):
                        raises = set()
                        ok = True
                        for e in lit.elts:
                            val = e.elts[idx[0]]
                            d = self.dotted(val, fn.module) if isinstance(val, ast.Attribute) else None
                            if d in LIB_FUNCS:
                                raises |= set(self._atoms(LIB_FUNCS[d]))
                            else:
                                ok = False
                        if ok:
                            from ..cfg import Target
                            return Target('opaque', 'lib-table:%s[...]' % lp.iter.id, raises=frozenset(raises), role='lib')
        return t

    def subscript_raises(self, node, frame):
        return frozenset({self.excm.atom_of('KeyError'), self.excm.atom_of('TypeError')})

    def compare_raises(self, node, frame):
        if any(isinstance(o, (ast.Lt, ast.LtE, ast.Gt, ast.GtE)) for o in node.ops):
            return frozenset({self.excm.atom_of('TypeError')})
        return frozenset()


class MatcherDomain(small.SmallDomain):
    def on_stmt(self, node, state):
        if node.kind == 'enter':
            e = state.extra.get('entered', frozenset())
            return state.with_extra(entered=e | {node.info['callee'].func.name})
        return state

    def assume(self, v, state, truthy):
        # None is an instance of no class tested here: keep None-ness and isinstance facts consistent
        n = v.name
        if v.kind == 'sym' and isinstance(n, tuple) and n and n[0] == 'pure' and n[1] == 'builtin:isinstance' and truthy:
            f = state.facts.get(n[2][0])
            if f and f[0] is True:
                return None
        if v.kind == 'sym' and isinstance(n, tuple) and n and n[0] in ('isnone', 'notnone'):
            want_none = truthy if n[0] == 'isnone' else not truthy
            if want_none:
                for k, f in state.facts.items():
                    if isinstance(k, tuple) and k[0] == 'pure' and k[1] == 'builtin:isinstance' and k[2][0] == n[1] and f[1] is True:
                        return None
        return small.SmallDomain.assume(self, v, state, truthy)

    def _isinstance_true(self, v, tname, state):
        for k, f in state.facts.items():
            if isinstance(k, tuple) and k[0] == 'pure' and k[1] == 'builtin:isinstance' and len(k[2]) == 2 and \
                    k[2][0] == v.name and k[2][1] == tname and f[1] is True:
                return True
        return False

    def partial_op_raises(self, node, state):
        e = node.ast
        fr = node.frame
        if isinstance(e, ast.Subscript):
            base = self.eval(e.value, fr, state)
            idx = self.eval(e.slice, fr, state) if not isinstance(e.slice, ast.Slice) else None
            if idx is not None:
                f = state.facts.get(('cmp', 'In', idx.name, base.name))
                if f and f[1] is True:
                    return None
            if base.kind == 'global':
                # module-level table: safe only for a constant key that the literal contains
                mod = fr.func.module
                nm = base.name.split('.')[-1]
                lit = mod.globals.get(nm)
                if isinstance(lit, ast.Dict) and idx is not None and idx.kind == 'const' and \
                        any(isinstance(k, ast.Constant) and k.value == idx.name for k in lit.keys):
                    return None
            if base.kind == 'obj' and isinstance(base.name, tuple) and base.name[0] == 'unpack':
                return None
            return state
        if isinstance(e, ast.Compare):
            l = self.eval(e.left, fr, state)
            r = self.eval(e.comparators[0], fr, state)
            if l.kind == 'const' and r.kind == 'const':
                return None
            for t in ('int', 'float', 'str'):
                if self._isinstance_true(l, t, state) and self._isinstance_true(r, t, state):
                    return None
            return state
        return state

    def on_raise(self, node, target, state):
        if target.label.startswith('lib:fnmatch.'):
            args, kw = self.arg_values(node.ast, node.frame, state)
            if len(args) == 2 and self._isinstance_true(args[0], 'str', state) and self._isinstance_true(args[1], 'str', state):
                return None
        return state


def run(ctx):
    res = Result('C14')
    repo = ctx.repo
    res.explanation = (
        'Decides totality and the documented meaning of the metadata matcher on its own control-flow graph: every partial '
        'operation on a value that may come from recording metadata or from the filter is a raise site unless guarded by '
        'isinstance / membership facts on the path or caught by a TypeError handler; each return path of the value matcher '
        'is classified (any-of, operator, None rule, pattern, equality) and must have established the documented guard '
        'order. Not decided: fnmatch semantics for a given pattern, equality of JSON- vs jsonpickle-decoded values.')
    res.not_decided = ['fnmatch semantics per pattern', 'equality of JSON-decoded vs jsonpickle-decoded metadata values']
    res.assumptions = ['the filter is a dict; equality (==) and `in` on JSON values do not raise']
    ca = res.clause('C14.a', 'R-TOTAL', 'no exceptional exit of the matcher', floor=5)
    cb = res.clause('C14.b', 'R-DECISION', 'documented meaning per guard cell, in the documented order', floor=6)
    cc = res.clause('C14.c', 'R-WHOCALLS', 'every lookup routes the metadata filter through this matcher', floor=3)
    tc = repo.cls('TapeCassette')
    top = repo.method('TapeCassette', 'match_against_recorded_metadata')
    excm = ctx.excm(['playback.tape_cassette'])
    pol = MatcherPolicy(repo, excm)
    # value matcher: the static method the top matcher calls with (filter value, recorded value)
    callees = [n.func.attr for n in ast.walk(top.node) if isinstance(n, ast.Call) and isinstance(n.func, ast.Attribute) and
               isinstance(n.func.value, ast.Name) and n.func.value.id == tc.name]
    def _mentions_operator(f_, seen=()):
        if f_ is None or f_ in seen:
            return False
        if any(isinstance(k, ast.Constant) and k.value == 'operator' for k in ast.walk(f_.node)):
            return True
        return any(_mentions_operator(tc.lookup(x.func.attr), tuple(seen) + (f_,)) for x in ast.walk(f_.node)
                   if isinstance(x, ast.Call) and isinstance(x.func, ast.Attribute) and isinstance(x.func.value, ast.Name) and x.func.value.id == tc.name)
    # (the callee that decides one criterion is the one from which the operator form is reachable; other helpers of the top matcher are
    # looked at by the recorded-value rule below)
    vm_c = [c_ for c_ in callees if tc.lookup(c_) is not None and _mentions_operator(tc.lookup(c_))] or callees
    vm = tc.lookup(vm_c[0]) if vm_c else None
    if vm is None:
        raise AnalysisError('anchor-lost role=value matcher')
    # two forms of the same answers, written out (in place: the functions mean the same before and after)
    canon_flag_break(top.node)
    canon_return_is_none(vm.node)

    # ---------------- C14.a totality: the value matcher (with the operator filter inlined; its recursion is the same function,
    #                  so "no escape from one activation" gives totality by induction), then the top level over it
    dom = small.analyse(repo, excm, vm, policy=pol, domain=MatcherDomain)
    ca.evaluations += dom.visited_pairs
    partial = [n for n in dom.g.nodes if n.kind in ('subscript', 'compare') or
               (n.kind == 'call' and n.info['target'].raises)]
    by_site = {}
    for n in partial:
        by_site.setdefault((n.frame.func.qualname, n.line, n.info.get('what')), n)
    escaped = {}
    for n, s in dom.exits:
        if n.info['exit'] != 'return':
            src = s.extra.get('exc_src', '?')
            escaped.setdefault(src, (n, s))
    for key, n in sorted(by_site.items(), key=lambda kv: (kv[0][1] or 0, str(kv[0][2]))):
        what = key[2] if n.kind != 'call' else n.info['target'].label
        ok = what not in escaped
        ca.instance('%s in %s' % (what, key[0]), n.where(), ok)
        if not ok:
            en, es = escaped[what]
            res.add(Finding('C14', 'C14.a', 'R-TOTAL', n.file, n.frame.func.qualname, n.line, ast.unparse(n.ast),
                            'partial operation on an untyped metadata / filter value can raise (%s) and nothing on the path guards or '
                            'catches it: one odd recording or filter aborts the whole lookup' % en.info['exit'],
                            witness=dom.path_to(en, es), entry=vm.qualname, exit=en.info['exit']))
    known = {(k[2] if by_site[k].kind != 'call' else by_site[k].info['target'].label) for k in by_site}
    for src in [x for x in escaped if x not in known]:
        en, es = escaped[src]
        res.add(Finding('C14', 'C14.a', 'R-TOTAL', vm.file, vm.qualname, vm.node.lineno, 'exception from %s' % src,
                        'the value matcher can be left by an exception (%s)' % en.info['exit'], witness=dom.path_to(en, es)))
    ca.instance('value matcher exits: %d return states, %d escaping exception sources' % (
        sum(1 for n, s in dom.exits if n.info['exit'] == 'return'), len(escaped)), vm.qualname, not escaped)

    class TopPolicy(MatcherPolicy):
        def decide_inline(self, func, call, frame):
            return func is not vm

        def summary_target(self, fi, call, frame):
            from ..cfg import Target
            return Target('opaque', 'repo-summary:' + fi.qualname, raises=frozenset(), role='summary', func=fi)
    dtop = small.analyse(repo, excm, top, policy=TopPolicy(repo, excm), domain=MatcherDomain)
    ca.evaluations += dtop.visited_pairs
    esc_top = [(n, s) for n, s in dtop.exits if n.info['exit'] != 'return']
    ca.instance('top-level matcher adds no raise site of its own (%d partial operations)' % sum(
        1 for n in dtop.g.nodes if n.kind in ('subscript', 'compare')), top.qualname, not esc_top)
    for n, s in esc_top[:1]:
        res.add(Finding('C14', 'C14.a', 'R-TOTAL', top.file, top.qualname, top.node.lineno, 'exception from %s' % s.extra.get('exc_src'),
                        'the top-level matcher can be left by an exception (%s)' % n.info['exit'], witness=dtop.path_to(n, s)))
    dom = dtop

    # ---------------- top level conjunction
    okc, why = conjunction_shape(dom, top)
    cb.instance('top level: False on the first non-matching key, True after all keys', top.qualname, okc, detail=why)
    if not okc:
        res.add(Finding('C14', 'C14.b', 'R-DECISION', top.file, top.qualname, top.node.lineno, 'top-level conjunction', why))

    # the recorded value a criterion is judged against is the metadata entry under that criterion's key, as given (`metadata.get(k)` /
    # `metadata[k]` guarded by `k in metadata`): the documented filter has no key syntax of its own
    from ..loader import expand_locals as _xl14
    okk, whyk = False, 'no call of the value matcher inside the loop over the filter'
    for lp_ in [n for n in walk_own(top.node) if isinstance(n, (ast.For, ast.GeneratorExp, ast.ListComp))]:
        tv_ = [x.id for g_ in (lp_.generators if not isinstance(lp_, ast.For) else [lp_]) for x in ast.walk(g_.target) if isinstance(x, ast.Name)]
        for c_ in [x for x in ast.walk(lp_) if isinstance(x, ast.Call) and isinstance(x.func, ast.Attribute) and x.func.attr == vm.name]:
            if len(c_.args) < 2:
                continue
            rv_e = _xl14(top.node, c_.args[1])
            meta_p = top.params[-1]
            direct = (isinstance(rv_e, ast.Call) and isinstance(rv_e.func, ast.Attribute) and rv_e.func.attr == 'get' and isinstance(rv_e.func.value, ast.Name) and
                      rv_e.func.value.id == meta_p and len(rv_e.args) in (1, 2) and isinstance(rv_e.args[0], ast.Name) and rv_e.args[0].id in tv_ and
                      (len(rv_e.args) == 1 or (isinstance(rv_e.args[1], ast.Constant) and rv_e.args[1].value is None))) or \
                     (isinstance(rv_e, ast.Subscript) and isinstance(rv_e.value, ast.Name) and rv_e.value.id == meta_p and isinstance(rv_e.slice, ast.Name) and rv_e.slice.id in tv_)
            okk, whyk = direct, 'recorded value handed to the value matcher: `%s`' % norm(rv_e)[:80]
    cb.instance('each criterion is judged against the metadata entry under its own key', top.qualname, okk, detail=whyk)
    if not okk:
        res.add(Finding('C14', 'C14.b', 'R-DECISION', top.file, top.qualname, top.node.lineno, whyk[:100],
                        'the value a criterion is compared with is not `metadata.get(key)` for the criterion\'s own key (%s): keys are reinterpreted, so a '
                        'recording whose metadata has exactly that key is no longer selected (or another entry is compared instead)' % whyk))
    # ---------------- C14.b value matcher decision table
    dv = small.analyse(repo, excm, vm, policy=pol, domain=MatcherDomain)
    cb.evaluations += dv.visited_pairs
    p_match, p_rec = vm.params[0], vm.params[1]
    M = ('free', vm.qualname, p_match)
    R = ('free', vm.qualname, p_rec)
    site_label = {}
    for n, t in dv.builder.call_sites:
        site_label[dv.site(n.ast)] = t.label
    opf = None
    helpers_called = []
    for n in ast.walk(vm.node):
        if isinstance(n, ast.Call) and isinstance(n.func, ast.Attribute) and isinstance(n.func.value, ast.Name) and \
                n.func.value.id == tc.name and n.func.attr != vm.name and tc.lookup(n.func.attr) is not None:
            helpers_called.append(tc.lookup(n.func.attr))
    # the operator filter is the helper that reads the 'operator' entry (directly or through what it calls)
    for h_ in helpers_called:
        reach_ = [h_] + [tc.lookup(x.func.attr) for x in ast.walk(h_.node) if isinstance(x, ast.Call) and isinstance(x.func, ast.Attribute) and
                         isinstance(x.func.value, ast.Name) and x.func.value.id == tc.name and tc.lookup(x.func.attr) is not None]
        reach_ += [h_.module.functions[x.func.id] for x in ast.walk(h_.node) if isinstance(x, ast.Call) and isinstance(x.func, ast.Name) and
                   x.func.id in h_.module.functions]      # ... or a function of the module called by name
        if any(isinstance(k, ast.Constant) and k.value == 'operator' for f_ in reach_ for k in ast.walk(f_.node)):
            opf = h_
    # helpers of the matcher carry no memoisation: a cache hashes its arguments before the helper's own type guard runs
    memo = []
    for h_ in [vm, top] + helpers_called:
        for d_ in h_.decorators:
            if d_.split('.')[-1].split('(')[0] in ('lru_cache', 'cache', 'cached', 'memoize', 'memoized'):
                memo.append((h_, d_))
    ca.instance('matcher helpers are not memoised (%d helpers)' % (2 + len(helpers_called)), vm.qualname, not memo)
    for h_, d_ in memo[:1]:
        res.add(Finding('C14', 'C14.a', 'R-CONTAIN', h_.file, h_.qualname, h_.node.lineno, '@' + d_,
                        'the matcher helper %s is memoised (@%s): the cache hashes the recorded value before the helper looks at its type, so a '
                        'recorded list / dict raises TypeError (unhashable) instead of answering False, and the whole lookup aborts' % (h_.qualname, d_)))
    if opf is None:
        raise AnalysisError('anchor-lost role=operator filter')

    def isinst(s, v, t):
        f = s.facts.get(('pure', 'builtin:isinstance', (v, t)))
        return f[1] if f else None

    def infact(s, key):
        f = s.facts.get(('cmp', 'In', key, M))
        return f[1] if f else None
    viol = {}
    cells = {}
    for n, s in dv.exits:
        if n.info['exit'] != 'return':
            continue
        rv = dv.rv(s)
        L = isinst(s, M, 'list')
        Dparts = (isinst(s, M, 'dict'), infact(s, 'operator'), infact(s, 'value'))
        D = True if all(x is True for x in Dparts) else False if any(x is False for x in Dparts) else None
        if D is None:
            # the same test kept in a named boolean: the conjunction as a whole was decided
            want_parts = {('pure', 'builtin:isinstance', (M, 'dict')), ('cmp', 'In', 'operator', M), ('cmp', 'In', 'value', M)}
            for k_, f_ in s.facts.items():
                if isinstance(k_, tuple) and len(k_) == 3 and k_[0] == 'boolop' and k_[1] == 'and' and set(k_[2]) <= want_parts and f_[1] is False:
                    D = False       # a conjunction of (some of) the parts failed
                if isinstance(k_, tuple) and len(k_) == 3 and k_[0] == 'boolop' and k_[1] == 'and' and set(k_[2]) == want_parts and f_[1] is True:
                    D = True
        rn = s.facts.get(R)
        mn = s.facts.get(M)
        rec_none = rn[0] if rn else None
        match_none = mn[0] if mn else None
        N = True if (rec_none is True and match_none is False) else False if (rec_none is False or match_none is True) else None
        S = isinst(s, M, 'str')
        if match_none is True:
            # a filter value known to be None is no list, no operator object and no string
            L, D, S = (False if L is None else L), (False if D is None else D), (False if S is None else S)
        entered = s.extra.get('entered', frozenset())
        fn_called = any(k[1].startswith('lib:fnmatch.') for k in s.extra if isinstance(k, tuple) and k[0] == 'n')
        # classify
        if rv is None:
            outcome = 'nothing'
        elif rv.kind == 'sym' and isinstance(rv.name, tuple) and rv.name[0] == 'call' and site_label.get(rv.name[2]) == 'builtin:any':
            outcome = 'list-any'
        elif rv.kind == 'sym' and isinstance(rv.name, tuple) and rv.name[0] == 'call' and site_label.get(rv.name[2]) == 'builtin:all':
            outcome = 'list-all'
        elif opf.name in entered:
            outcome = 'operator'
        elif rv.kind == 'false' and rec_none is True:
            outcome = 'none-false'
        elif fn_called or (rv.kind == 'false' and S is True):
            outcome = 'pattern'
        elif rv.kind == 'sym' and isinstance(rv.name, tuple) and rv.name[0] == 'cmp' and rv.name[1] == 'Eq' and {rv.name[2], rv.name[3]} == {M, R}:
            outcome = 'equality'
        elif rv.kind == 'true' and rec_none is True and match_none is True:
            outcome = 'equality'        # None == None, answered in place
        elif rv.kind == 'sym' and isinstance(rv.name, tuple) and rv.name[0] == 'call' and site_label.get(rv.name[2], '').startswith('lib:fnmatch.'):
            outcome = 'pattern'
        else:
            outcome = 'other:%s' % (rv.name if rv.kind == 'sym' else rv.kind,)
        cell = (outcome, L, D, N, S)
        cells[cell] = cells.get(cell, 0) + 1
        want = {'list-any': (True, None, None, None), 'operator': (False, True, None, None),
                'none-false': (False, False, True, None), 'pattern': (False, False, False, True),
                'equality': (False, False, False, False)}.get(outcome)
        if want is None:
            viol.setdefault('outcome %s' % outcome, (n, s, 'a path of the value matcher returns %s, which is none of: any alternative, '
                                                           'operator comparison, None rule, pattern, equality' % outcome))
            continue
        got = (L, D, N, S)
        for nm, w, g in zip(('list filter', 'operator object', 'recorded None vs non-None filter', 'string filter'), want, got):
            if w is not None and g is not w:
                viol.setdefault('%s before %s decided' % (outcome, nm),
                                (n, s, 'outcome "%s" is reached on a path where the guard "%s" is %s (documented order requires %s): '
                                       'a %s would be answered by the wrong rule' % (outcome, nm, g, w, nm)))
    # the alternatives of a list filter are all of its elements: `any(match(v, recorded) for v in <the list>)` with no selection in between
    from ..loader import expand_locals as _xla
    for c_ in [x for x in ast.walk(vm.node) if isinstance(x, ast.Call) and isinstance(x.func, ast.Name) and x.func.id == 'any' and x.args and
               isinstance(x.args[0], (ast.GeneratorExp, ast.ListComp))]:
        g_ = c_.args[0]
        src_ = _xla(vm.node, g_.generators[0].iter)
        whole = len(g_.generators) == 1 and not g_.generators[0].ifs and isinstance(src_, ast.Name) and src_.id == p_match
        cb.instance('list filter: every element of the list is an alternative', vm.qualname, whole, detail=norm(src_)[:80])
        if not whole:
            res.add(Finding('C14', 'C14.b', 'R-DECISION', vm.file, vm.qualname, c_.lineno, norm(c_)[:100],
                            'the alternatives of a list filter are taken from `%s`%s, not from the whole list: an alternative that would match on its '
                            'own (an int against an equal float, a pattern against a string) is dropped before it is tried' % (
                                norm(src_)[:70], ' with a condition' if g_.generators[0].ifs else '')))
    present = {c[0] for c in cells}
    for oc in ('list-any', 'operator', 'none-false', 'pattern', 'equality'):
        bad = [k for k in viol if k.startswith(oc)]
        cb.instance('value matcher outcome "%s" present, guarded in documented order' % oc, vm.qualname, oc in present and not bad,
                    detail='cells: %s' % [c[1:] for c in cells if c[0] == oc][:4])
        if oc not in present:
            res.add(Finding('C14', 'C14.b', 'R-DECISION', vm.file, vm.qualname, vm.node.lineno, 'missing outcome %s' % oc,
                            'no path of the value matcher implements the documented rule "%s"' % oc))
    for k, (n, s, msg) in sorted(viol.items()):
        res.add(Finding('C14', 'C14.b', 'R-DECISION', vm.file, vm.qualname, vm.node.lineno, 'value matcher: ' + k, msg,
                        witness=dv.path_to(n, s)))
    cb.samples.append(dict(cells={str(k): v for k, v in sorted(cells.items(), key=str)}))
    # pattern applies to string values only
    # ---------------- operator semantics
    oko, why, cmpf = operator_table(repo, tc, opf)
    cb.instance('operator object: =, <, <=, >, >= compare recorded with filter value; unknown operator -> no match', cmpf.qualname, oko, detail=why)
    if not oko:
        res.add(Finding('C14', 'C14.b', 'R-DECISION', cmpf.file, cmpf.qualname, cmpf.node.lineno, 'operator table', why))

    # ---------------- C14.c who calls
    sites = []
    for f in repo.all_functions():
        for n in ast.walk(f.node):
            if isinstance(n, ast.Call) and isinstance(n.func, ast.Attribute) and n.func.attr == top.name and f is not top:
                sites.append((f, n))
    impls = [c for c in repo.subclasses('TapeCassette') if 'iter_recording_ids' in c.methods and
             not any(isinstance(x, ast.Raise) for x in c.methods['iter_recording_ids'].node.body)]
    for c in impls:
        users = [f for f, n in sites if f.cls is c]
        cc.instance('%s routes its metadata filter through %s' % (c.name, top.name), c.name, bool(users),
                    detail=', '.join(sorted({u.qualname for u in users})))
        cc.evaluations += 1
        if not users:
            it = c.methods['iter_recording_ids']
            res.add(Finding('C14', 'C14.c', 'R-WHOCALLS', it.file, it.qualname, it.node.lineno, 'metadata filter of %s' % c.name,
                            '%s does not use the shared matcher: its listing would disagree with the documented filter meaning' % c.name))
    # ... and the matcher alone decides about the metadata: a listing adds an id under no other condition on the recorded metadata
    from . import common
    for c in impls:
        it = c.methods['iter_recording_ids']
        mparams = [p for p in it.params if 'metadata' in p]
        from .. import paths as _paths
        appends = _paths.paths_to(it.node.body, lambda x: isinstance(x, ast.Call) and isinstance(x.func, ast.Attribute) and x.func.attr == 'append' and
                                  isinstance(x.func.value, ast.Name))
        if not appends or not mparams:
            continue          # listings that do not collect ids in a local list (S3: lazy iterators) are covered by the content-filter clause
        md_locals = set(mparams)
        for n in walk_own(it.node):
            if isinstance(n, ast.Assign) and isinstance(n.targets[0], ast.Name) and any(
                    isinstance(x, ast.Call) and isinstance(x.func, ast.Attribute) and x.func.attr in ('get_metadata', 'get_recording_metadata') for x in ast.walk(n.value)):
                md_locals.add(n.targets[0].id)
        extra = []
        for st_, conds in appends:
            for t_, p_ in conds:
                for lit, lp in common.split_literals(t_, p_):
                    uses_matcher = any(isinstance(x, ast.Call) and isinstance(x.func, ast.Attribute) and x.func.attr == top.name for x in ast.walk(lit))
                    names = {x.id for x in ast.walk(lit) if isinstance(x, ast.Name)}
                    reads_md = bool(names & md_locals) or any(isinstance(x, ast.Call) and isinstance(x.func, ast.Attribute) and
                                                              x.func.attr in ('get_metadata', 'get_recording_metadata') for x in ast.walk(lit))
                    plain_presence = isinstance(lit, ast.Name) and lit.id in mparams          # `if metadata:` - no filter given
                    if reads_md and not uses_matcher and not plain_presence:
                        extra.append((st_, lit, lp))
        cc.instance('%s: ids are added under no condition on the metadata other than the shared matcher' % it.qualname, it.qualname, not extra)
        cc.evaluations += len(appends)
        for st_, lit, lp in extra[:1]:
            res.add(Finding('C14', 'C14.c', 'R-WHOCALLS', it.file, it.qualname, lit.lineno, norm(lit)[:100],
                            '%s applies its own condition `%s%s` on the recorded metadata besides the shared matcher: recordings the documented '
                            'filter accepts (e.g. a missing value against a None alternative) are left out' % (it.qualname, '' if lp else 'not ', norm(lit))))
    # ---- the answer is a function of (filter, metadata): the matcher functions keep nothing between calls (class attributes, globals)
    cs14 = [c for c in res.clauses if c.id == 'C14.b'][0]
    mfuncs = [f for f in tc.methods.values() if 'match' in f.name or 'operator' in f.name or 'compare' in f.name or 'criteria' in f.name or 'filter' in f.name]
    kept = []
    for f in mfuncs:
        for n in ast.walk(f.node):
            if isinstance(n, (ast.Assign, ast.AugAssign)):
                for t_ in (n.targets if isinstance(n, ast.Assign) else [n.target]):
                    base = t_.value if isinstance(t_, (ast.Attribute, ast.Subscript)) else None
                    while isinstance(base, (ast.Attribute, ast.Subscript)):
                        base = base.value
                    if isinstance(base, ast.Name) and base.id in (tc.name, 'cls'):
                        kept.append((f, n))
            if isinstance(n, (ast.Global, ast.Nonlocal)):
                kept.append((f, n))
    cs14.instance('matcher functions write no class-level / global state (%d functions)' % len(mfuncs), tc.name, not kept)
    for f, n in kept[:1]:
        res.add(Finding('C14', 'C14.b', 'R-DECISION', f.file, f.qualname, n.lineno, norm(n)[:100],
                        'the matcher keeps state between calls (`%s`): its answer then depends on earlier calls (a filter dict edited in place is judged by '
                        'its old content) instead of on the filter and the metadata alone' % norm(n)[:80]))
    # ---- a string filter is a shell pattern for the recorded value: fnmatch(<recorded value>, <pattern>)
    vmf = [f for f in tc.methods.values() if any(isinstance(n, ast.Call) and isinstance(n.func, ast.Name) and n.func.id == 'fnmatch' for n in ast.walk(f.node))]
    for f in vmf:
        for n in ast.walk(f.node):
            if isinstance(n, ast.Call) and isinstance(n.func, ast.Name) and n.func.id == 'fnmatch' and len(n.args) == 2:
                names = [a.id if isinstance(a, ast.Name) else None for a in n.args]
                prm = [q for q in f.params if q not in ('self', 'cls')]
                # parameters: (match / filter value, recorded value) - the pattern is the filter's
                okf = len(prm) >= 2 and names == [prm[1], prm[0]]
                cs14.instance('fnmatch(recorded value, filter pattern) in %s' % f.name, f.qualname, okf)
                if not okf:
                    res.add(Finding('C14', 'C14.b', 'R-DECISION', f.file, f.qualname, n.lineno, norm(n),
                                    '`%s` uses the recorded value as the pattern and the filter as the text: a filter such as "al*" no longer matches '
                                    '"alice", and recorded values containing * ? [ match filters they should not' % norm(n)))
    return res


def canon_flag_break(fn_node):
    """`ok = True; for ..: if c: ok = False; break` ... `return ok`  ->  `for ..: if c: return False` ... `return True` (in place): the flag is
    written at exactly these places and read by the returns after the loop only, so the two forms answer alike on every path"""
    body = fn_node.body
    loops = [x for x in body if isinstance(x, ast.For)]
    if len(loops) != 1:
        return False
    lp = loops[0]
    inits = [x for x in body if isinstance(x, ast.Assign) and len(x.targets) == 1 and isinstance(x.targets[0], ast.Name) and
             isinstance(x.value, ast.Constant) and x.value.value is True and body.index(x) < body.index(lp)]
    for init in inits:
        flag = init.targets[0].id
        stores = [x for x in ast.walk(fn_node) if isinstance(x, ast.Name) and x.id == flag and isinstance(x.ctx, ast.Store)]
        loads = [x for x in ast.walk(fn_node) if isinstance(x, ast.Name) and x.id == flag and isinstance(x.ctx, ast.Load)]
        rets = [x for x in body[body.index(lp) + 1:] if isinstance(x, ast.Return) and isinstance(x.value, ast.Name) and x.value.id == flag]
        if len(rets) != 1 or len(loads) != 1 or lp.orelse:
            continue
        pairs = []

        def find(stmts):
            for i, st_ in enumerate(stmts):
                if isinstance(st_, ast.Assign) and len(st_.targets) == 1 and isinstance(st_.targets[0], ast.Name) and st_.targets[0].id == flag:
                    if isinstance(st_.value, ast.Constant) and st_.value.value is False and i + 1 < len(stmts) and isinstance(stmts[i + 1], ast.Break):
                        pairs.append((stmts, i))
                for fld in ('body', 'orelse'):
                    if isinstance(st_, ast.If):
                        find(getattr(st_, fld))
        find(lp.body)
        if len(pairs) + 1 != len(stores) or not pairs:
            continue
        if any(isinstance(x, ast.Break) for x in ast.walk(lp)) and sum(1 for x in ast.walk(lp) if isinstance(x, ast.Break)) != len(pairs):
            continue
        for stmts, i in pairs:
            stmts[i:i + 2] = [ast.copy_location(ast.Return(value=ast.copy_location(ast.Constant(value=False), stmts[i])), stmts[i])]
        rets[0].value = ast.copy_location(ast.Constant(value=True), rets[0].value)
        body.remove(init)
        return True
    return False


def canon_return_is_none(fn_node):
    """`return x is None` (x a parameter / local name)  ->  `if x is None: return True` / `return False` (in place; likewise `is not`)"""
    done = False

    def rewrite(stmts):
        nonlocal done
        out = []
        for st_ in stmts:
            for fld in ('body', 'orelse', 'finalbody'):
                b = getattr(st_, fld, None)
                if isinstance(b, list) and b and isinstance(b[0], ast.stmt):
                    setattr(st_, fld, rewrite(b))
            for h in getattr(st_, 'handlers', []) or []:
                h.body = rewrite(h.body)
            v = st_.value if isinstance(st_, ast.Return) else None
            if isinstance(v, ast.Compare) and len(v.ops) == 1 and isinstance(v.ops[0], (ast.Is, ast.IsNot)) and isinstance(v.left, ast.Name) and \
                    isinstance(v.comparators[0], ast.Constant) and v.comparators[0].value is None:
                pos = isinstance(v.ops[0], ast.Is)
                out.append(ast.copy_location(ast.If(test=v, body=[ast.copy_location(ast.Return(value=ast.copy_location(ast.Constant(value=pos), st_)), st_)], orelse=[]), st_))
                out.append(ast.copy_location(ast.Return(value=ast.copy_location(ast.Constant(value=not pos), st_)), st_))
                done = True
            else:
                out.append(st_)
        return out
    fn_node.body = rewrite(fn_node.body)
    return done


def conjunction_shape(dom, top):
    """return exits: FALSE (after a failed match) or TRUE (after the loop); nothing else"""
    kinds = {}
    for n, s in dom.exits:
        if n.info['exit'] != 'return':
            continue
        rv = dom.rv(s)
        kinds[rv.kind if rv is not None else 'nothing'] = kinds.get(rv.kind if rv is not None else 'nothing', 0) + 1
    extra = set(kinds) - {'true', 'false'}
    if extra or 'true' not in kinds or 'false' not in kinds:
        return False, 'the top-level matcher returns %s: it must return False on the first non-matching key and True otherwise' % kinds
    return conjunction_ast(top, kinds)


def conjunction_ast(top, kinds=None):
    canon_flag_break(top.node)       # (idempotent: the early-return form is left as it is)
    # the False return is inside the loop, guarded by the negated value match; the True return follows the loop
    loops = [n for n in walk_own(top.node) if isinstance(n, ast.For)]
    if len(loops) != 1:
        return False, 'expected one loop over the filter keys'
    lp = loops[0]
    skips = [x for x in ast.walk(lp) if isinstance(x, (ast.Continue, ast.Break))]
    if skips:
        return False, 'the loop over the filter keys skips / leaves (`%s` at line %d) before a key was matched: that criterion is ignored' % (
            type(skips[0]).__name__.lower(), skips[0].lineno)
    for r in [n for n in walk_own(top.node) if isinstance(n, ast.Return)]:
        inside = any(r is x for x in ast.walk(lp))
        val = r.value.value if isinstance(r.value, ast.Constant) else None
        if inside and val is not False:
            return False, 'a return inside the key loop does not return False'
        if not inside and val is not True:
            return False, 'a return outside the key loop returns %s (an early answer that skips the per-key conjunction)' % norm(r.value)
    return True, 'returns: %s' % kinds


def operator_table(repo, tc, opf):
    """find the function that maps operator text to a comparison and check the mapping"""
    cands = [opf]
    for n in ast.walk(opf.node):
        if isinstance(n, ast.Call) and isinstance(n.func, ast.Attribute) and isinstance(n.func.value, ast.Name) and \
                n.func.value.id == tc.name and tc.lookup(n.func.attr) is not None:
            cands.append(tc.lookup(n.func.attr))
        if isinstance(n, ast.Call) and isinstance(n.func, ast.Name) and n.func.id in opf.module.functions:
            cands.append(opf.module.functions[n.func.id])
    for f in cands:
        rec, flt = f.params[0], f.params[1]
        table = {}
        from ..loader import expand_locals as _xlo
        for n in walk_own(f.node):
            if isinstance(n, ast.If) and isinstance(n.test, ast.Compare) and len(n.test.ops) == 1 and isinstance(n.test.ops[0], ast.Eq):
                l, r = _xlo(f.node, n.test.left), n.test.comparators[0]       # (through explaining variables)
                if isinstance(r, ast.Constant) and isinstance(l, ast.Subscript) and isinstance(l.slice, ast.Constant) and l.slice.value == 'operator':
                    for b in n.body:
                        v = b.value if isinstance(b, (ast.Assign, ast.Return)) else None
                        v = _xlo(f.node, v) if v is not None else None
                        if isinstance(v, ast.Compare) and len(v.ops) == 1:
                            left_ok = isinstance(v.left, ast.Name) and v.left.id == rec
                            rc = v.comparators[0]
                            right_ok = isinstance(rc, ast.Subscript) and isinstance(rc.value, ast.Name) and rc.value.id == flt and \
                                isinstance(rc.slice, ast.Constant) and rc.slice.value == 'value'
                            table[r.value] = (type(v.ops[0]).__name__, left_ok and right_ok)
        if table:
            bad = [k for k in OPS if table.get(k) != (OPS[k], True)]
            extra = [k for k in table if k not in OPS]
            # default: result initialised False / final return False
            returns_in_chain = any(isinstance(b, ast.Return) for n in walk_own(f.node) if isinstance(n, ast.If) for b in n.body)
            last = f.node.body[-1] if f.node.body else None
            if returns_in_chain:
                # early-return form: what is left after the chain is the answer for every other operator
                dflt = isinstance(last, ast.Return) and isinstance(last.value, ast.Constant) and last.value.value is False
            else:
                dflt = any(isinstance(n, ast.Assign) and isinstance(n.value, ast.Constant) and n.value.value is False for n in walk_own(f.node))
            if bad or extra or not dflt:
                return False, 'operator table %s (wrong / missing: %s, unexpected: %s, default False: %s)' % (table, bad, extra, dflt), f
            return True, 'if-chain: %s, unknown operator keeps the False default' % {k: v[0] for k, v in table.items()}, f
        # table of operator-module functions
        mod = f.module
        for name, lit in mod.globals.items():
            if isinstance(lit, ast.Dict) and lit.keys and all(isinstance(k, ast.Constant) for k in lit.keys):
                m = {}
                for k, v in zip(lit.keys, lit.values):
                    if isinstance(v, ast.Attribute) and v.attr in OPMOD:
                        m[k.value] = OPMOD[v.attr]
                if m and any(isinstance(x, ast.Name) and x.id == name for x in ast.walk(f.node)):
                    bad = [k for k in OPS if m.get(k) != OPS[k]]
                    if bad:
                        return False, 'operator table %s wrong for %s' % (m, bad), f
                    return True, 'lookup table %s (unknown operators are a totality obligation of C14.a)' % m, f
            # table of (symbol, operator-module function) pairs walked by a loop that compares the symbol and applies the function
            if isinstance(lit, (ast.Tuple, ast.List)) and lit.elts and all(isinstance(e, ast.Tuple) and len(e.elts) == 2 for e in lit.elts) and \
                    any(isinstance(x, ast.Name) and x.id == name for x in ast.walk(f.node)):
                m = {}
                for e in lit.elts:
                    k, v = e.elts
                    if isinstance(k, ast.Constant) and isinstance(v, ast.Attribute) and v.attr in OPMOD:
                        m[k.value] = OPMOD[v.attr]
                loops = [l for l in walk_own(f.node) if isinstance(l, ast.For) and isinstance(l.iter, ast.Name) and l.iter.id == name and
                         isinstance(l.target, ast.Tuple) and len(l.target.elts) == 2 and all(isinstance(t, ast.Name) for t in l.target.elts)]
                if m and len(loops) == 1:
                    sym, fn_ = [t.id for t in loops[0].target.elts]
                    applied = [c for c in ast.walk(loops[0]) if isinstance(c, ast.Call) and isinstance(c.func, ast.Name) and c.func.id == fn_]
                    arg_ok = len(applied) == 1 and len(applied[0].args) == 2 and isinstance(applied[0].args[0], ast.Name) and applied[0].args[0].id == rec and \
                        isinstance(applied[0].args[1], ast.Subscript) and isinstance(applied[0].args[1].value, ast.Name) and applied[0].args[1].value.id == flt and \
                        isinstance(applied[0].args[1].slice, ast.Constant) and applied[0].args[1].slice.value == 'value'
                    guards = [g for g in ast.walk(loops[0]) if isinstance(g, ast.If) and isinstance(g.test, ast.Compare) and len(g.test.ops) == 1 and
                              isinstance(g.test.ops[0], ast.Eq) and any(isinstance(x, ast.Name) and x.id == sym for x in ast.walk(g.test)) and
                              any(x is applied[0] for x in ast.walk(g))] if applied else []
                    dflt = any(isinstance(n, ast.Assign) and isinstance(n.value, ast.Constant) and n.value.value is False for n in walk_own(f.node))
                    bad = [k for k in OPS if m.get(k) != OPS[k]]
                    extra = [k for k in m if k not in OPS]
                    if bad or extra or not arg_ok or len(guards) != 1 or not dflt:
                        return False, 'operator table %s (wrong / missing: %s, unexpected: %s, applied to (recorded, filter value): %s, under `operator == symbol`: %s, ' \
                                      'default False: %s)' % (m, bad, extra, arg_ok, len(guards) == 1, dflt), f
                    return True, 'pair table %s walked by one loop, unknown operator keeps the False default' % m, f
    raise AnalysisError('anchor-lost role=operator comparison table')
