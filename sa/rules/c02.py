"""C02 - Replay answers every interception from the recording or an explicit policy.

Decorator closures and play() propagated from the replay valuation (playback recording set, no active recording,
recording enabled or not), options as free atoms:

  C02.a  R-TYPESTATE  wrapped bodies of inputs/outputs are not executed in replay (except run-original, exactly once);
                      the operation decorator runs the operation once and opens no recording scope
  C02.b  R-WHOCALLS   no cassette mutator, no store into a recording is reachable while replaying
  C02.c  R-DECISION   input missing-key policy: recorded entry, else run original (if opted in), else substitute
                      (called when callable), else the missing-key error re-raised; main key first
  C02.d  R-SENTINEL   'substitute configured' / 'default result' are not decided by truthiness
  C02.e  R-DECISION   output policy: recorded result; missing: re-raise if fail flag else the default result
  C02.f  R-PROV       every value returned in replay is the recorded entry, the opted-in original, the substitute or the default
"""
import ast

from ..report import Result, Finding
from ..loader import walk_own, norm, AnalysisError
from . import recmodel as rm

OPTS = ('run_intercepted_when_missing', 'value_when_missing', 'fail_on_no_recorded_result',
        'default_result_when_not_recorded')


def fact(s, owner, name):
    f = s.facts.get(('free', owner.qualname, name))
    return f if f else (None, None)


def body_calls(s):
    return sum(v for k, v in s.extra.items() if isinstance(k, tuple) and k[0] == 'n' and k[1].startswith('user-body:'))


def handler_roles(cl, roles):
    """line of handler -> role, for the handlers of the closure's own body"""
    out = {}
    for n in walk_own(cl.node):
        if isinstance(n, ast.Try):
            calls = {c.func.attr for b in n.body for c in ast.walk(b) if isinstance(c, ast.Call) and isinstance(c.func, ast.Attribute)}
            for h in n.handlers:
                tn = norm(h.type) if h.type is not None else ''
                if 'RecordingKeyError' in tn:
                    out[h.lineno] = 'missing'
                elif roles.key_builders['input'].name in calls:
                    out[h.lineno] = 'keyfail'
    return out


def run(ctx):
    res = Result('C02')
    roles = ctx.roles
    res.explanation = (
        'Decides the replay side of the three decorators and play() on the path-sensitive graph started from the replay '
        'valuation: number of executions of wrapped bodies, reachability of cassette mutators / recording stores, and '
        'the outcome class of every exit (recorded entry returned or raised, original run, substitute, default, '
        'missing-key error) per cell of the option atoms (run-original flag, substitute None / falsy / truthy / callable, '
        'fail flag), compared with the documented policy table. Not decided: which keys a concrete recording contains.')
    res.not_decided = ['which keys a concrete recording contains (runtime)', 'copy discipline across replays (C11)']
    res.assumptions = ['replay starts with no active recording (C09)', 'raise policy of DESIGN 3.3']
    ca = res.clause('C02.a', 'R-TYPESTATE', 'bodies not executed in replay (run-original: exactly once); operation runs once, no scope', floor=3)
    cb = res.clause('C02.b', 'R-WHOCALLS', 'no cassette mutator / recording store reachable while replaying', floor=4)
    cc = res.clause('C02.c', 'R-DECISION', 'input missing-key policy table and key order', floor=5)
    cd = res.clause('C02.d', 'R-SENTINEL', 'presence of substitute / default not decided by truthiness', floor=2)
    ce = res.clause('C02.e', 'R-DECISION', 'output missing-result policy table', floor=3)
    cf = res.clause('C02.f', 'R-PROV', 'values returned in replay come from the recording or the explicit policy', floor=2)

    doms = {}
    for kind in ('operation', 'input', 'output'):
        doms[kind] = rm.run_closure(ctx, kind, 'playback', track_free=OPTS)
    dplay = rm.run_method(ctx, roles.play, 'idle')

    # ---------------- C02.b
    for name, d, owner in [(k, doms[k], roles.closures[k][2]) for k in doms] + [('play', dplay, roles.play)]:
        bad = None
        for n, s in d.exits:
            touched = [k[1] for k, v in s.extra.items() if isinstance(k, tuple) and k[0] == 'n' and (
                k[1] in ('iface:TapeCassette.create_new_recording', 'iface:TapeCassette.save_recording',
                         'iface:TapeCassette.abort_recording', 'store:active-recording', 'iface:Recording.add_metadata'))]
            if touched and bad is None:
                bad = (n, s, touched)
        cb.evaluations += d.visited_pairs
        cb.instance('%s in replay: cassette mutators / recording stores unreachable' % name, owner.qualname, bad is None)
        if bad:
            n, s, touched = bad
            res.add(Finding('C02', 'C02.b', 'R-WHOCALLS', owner.file, owner.qualname, owner.node.lineno,
                            '%s in replay reaches %s' % (name, ','.join(sorted(touched))),
                            'the cassette / a recording is written while replaying', witness=d.path_to(n, s),
                            entry=owner.qualname, exit=rm.exit_kind(n)))

    rm.replay_idle_clause(ctx, res, 'C02', 'C02.g', 'every exit of play() resets counter / outputs / playback recording (ordinals restart at 1)')
    rm.interception_flag_clause(ctx, res, 'C02', 'C02.h')
    rm.replay_body_context_clause(ctx, res, 'C02', 'C02.i')
    rm.api_leaves_replay_state_clause(ctx, res, 'C02', 'C02.j')
    rm.options_forwarded_clause(ctx, res, 'C02', 'C02.k')
    from . import c06 as _c06
    ckc = res.clause('C02.l', 'R-TAINT', 'keys keep type information: a value recorded for a different call is never returned', floor=1)
    _c06.key_codec_clause(ctx, res, ckc, 'C02', 'C02.l')
    # ---------------- C02.a operation
    d = doms['operation']
    fac, deco, cl = roles.closures['operation']
    bad = None
    for n, s in d.exits:
        if body_calls(s) != 1 or d.n(s, 'enter:start_recording'):
            bad = bad or (n, s)
    ca.evaluations += d.visited_pairs
    ca.instance('operation decorator in replay: operation run once, no recording scope', cl.qualname, bad is None)
    if bad:
        n, s = bad
        res.add(Finding('C02', 'C02.a', 'R-TYPESTATE', cl.file, cl.qualname, cl.node.lineno,
                        'operation decorator in replay: body calls=%d scope entered=%d' % (body_calls(s), d.n(s, 'enter:start_recording')),
                        'while replaying the operation must run exactly once and no recording scope may be opened '
                        '(whether or not recording is enabled)', witness=d.path_to(n, s), entry=cl.qualname, exit=rm.exit_kind(n)))

    # ---------------- input closure
    d = doms['input']
    fac, deco, cl = roles.closures['input']
    hroles = handler_roles(cl, roles)
    if 'missing' not in hroles.values():
        raise AnalysisError('anchor-lost role=input-missing-key-handler')
    cells = {}
    viol = {}

    def note(key, n, s, msg, clause):
        viol.setdefault((clause, key), (n, s, msg))
    for n, s in d.exits:
        e, i = rm.initial_flags(d, s)
        if i is True:
            continue        # nested interception: pass-through, not an interception
        ek = rm.exit_kind(n)
        hs = {hroles.get(h) for h in s.extra.get('root_handlers', frozenset())}
        missing = 'missing' in hs
        keyfail = 'keyfail' in hs
        rimw = fact(s, fac, 'run_intercepted_when_missing')[1]
        vnone, vtruthy = fact(s, fac, 'value_when_missing')
        bc = body_calls(s)
        rv = s.env.get(('RV', d.g.root.id))
        src = s.extra.get('exc_src', '')
        cell = ('missing' if missing else 'keyfail' if keyfail else 'found', rimw, vnone, vtruthy)
        cells[cell] = cells.get(cell, 0) + 1
        if keyfail:
            if not (ek != 'return' and 'InputInterceptionKeyCreationError' in str(src)):
                note('keyfail', n, s, 'key-building failure in replay must raise InputInterceptionKeyCreationError (exit %s, source %s)' % (ek, src), 'C02.c')
            if bc:
                note('keyfail-body', n, s, 'wrapped input executed after a key-building failure in replay', 'C02.a')
            continue
        if not missing:
            if bc:
                note('found-body', n, s, 'wrapped input executed in replay although the recording was not reported missing', 'C02.a')
            if ek == 'return' and (rv is None or rv.name != s.extra.get('reader_result')):
                note('found-rv', n, s, 'value returned in replay is not the replay reader\'s result', 'C02.f')
            continue
        # missing-key handler entered
        if rimw is True:
            if bc != 1:
                note('rimw-body', n, s, 'run-original opted in but the original ran %d times' % bc, 'C02.c')
            if ek == 'return' and (rv is None or rv.name != s.extra.get('body_result')):
                note('rimw-rv', n, s, 'run-original opted in but the returned value is not the original\'s result '
                                      '(policy order: original before substitute)', 'C02.c')
            continue
        if bc:
            note('noopt-body', n, s, 'original executed in replay without run_intercepted_when_missing', 'C02.a')
        if rimw is not False:
            note('order', n, s, 'the missing-key outcome is decided before run_intercepted_when_missing was consulted: '
                                'documented order is fallback aliases, run original (if opted in), substitute, error', 'C02.c')
        if ek == 'return':
            vw = ('free', fac.qualname, 'value_when_missing')
            is_call = rv is not None and rv.kind == 'sym' and isinstance(rv.name, tuple) and rv.name[0] == 'call' and \
                d.n(s, 'user-plugin:value_when_missing') >= 1
            if rv is None or not (rv.name == vw or is_call):
                note('sub-rv', n, s, 'value returned for a missing input is neither the substitute nor its call result', 'C02.f')
            if vnone is not False:
                note('sub-none', n, s, 'substitute returned although it may be None (not configured)', 'C02.c')
        elif str(src).startswith('user-plugin:value_when_missing'):
            # the callable substitute was invoked and raised: its own exception propagates
            if vnone is not False:
                note('sub-none', n, s, 'substitute invoked although it may be None (not configured)', 'C02.c')
        else:
            reraised = hroles.get(s.extra.get('reraised_by')) == 'missing'
            if not reraised:
                note('miss-exc', n, s, 'missing input without policy must re-raise the missing-key error (source %s)' % src, 'C02.c')
            if vnone is not True:
                note('sentinel', n, s, 'missing-key error raised although a substitute may be configured: presence of '
                                       'value_when_missing is decided by truthiness, so 0 / "" / [] / {} are ignored', 'C02.d')
    cc.evaluations += d.visited_pairs
    for key in ('keyfail', 'rimw-body', 'rimw-rv', 'order', 'sub-none', 'miss-exc'):
        cc.instance('input replay: %s' % key, cl.qualname, ('C02.c', key) not in viol, detail='%d cells' % len(cells))
    cd.instance('input replay: substitute presence by identity with None', cl.qualname, ('C02.d', 'sentinel') not in viol)
    cd.evaluations += len(cells)
    ca.instance('input decorator in replay: body executed only under run-original', cl.qualname,
                not any(k[0] == 'C02.a' for k in viol))
    ca.evaluations += d.visited_pairs
    cf.instance('input replay: returned values from reader / original / substitute', cl.qualname,
                not any(k[0] == 'C02.f' for k in viol))
    cf.evaluations += d.visited_pairs
    kinds = {'C02.a': 'R-TYPESTATE', 'C02.c': 'R-DECISION', 'C02.d': 'R-SENTINEL', 'C02.f': 'R-PROV', 'C02.e': 'R-DECISION'}
    for (clause, key), (n, s, msg) in sorted(viol.items()):
        res.add(Finding('C02', clause, kinds[clause], cl.file, cl.qualname, cl.node.lineno, 'input replay: ' + key, msg,
                        witness=d.path_to(n, s), entry=cl.qualname, exit=rm.exit_kind(n)))
    cc.samples.append(dict(cells={str(k): v for k, v in sorted(cells.items(), key=str)}))

    # ---------------- key order: main key first, fallbacks after, reader scans in order
    reader = roles.reader
    order_ok, why = key_order(cl, roles)
    cc.instance('main key is element 0 of the keys handed to the reader', cl.qualname, order_ok, detail=why)
    if not order_ok:
        res.add(Finding('C02', 'C02.c', 'R-DECISION', cl.file, cl.qualname, cl.node.lineno, 'possible keys order', why))
    scan_ok, why = reader_scan(reader)
    cc.instance('reader scans candidate keys in list order, first present wins', reader.qualname, scan_ok, detail=why)
    if not scan_ok:
        res.add(Finding('C02', 'C02.c', 'R-DECISION', reader.file, reader.qualname, reader.node.lineno, 'reader key scan', why))

    # ---------------- output closure
    d = doms['output']
    fac, deco, cl = roles.closures['output']
    hroles = handler_roles(cl, roles)
    viol = {}
    ncell = 0
    for n, s in d.exits:
        e, i = rm.initial_flags(d, s)
        if i is True:
            continue
        ek = rm.exit_kind(n)
        hs = {hroles.get(h) for h in s.extra.get('root_handlers', frozenset())}
        missing = 'missing' in hs
        fail = fact(s, fac, 'fail_on_no_recorded_result')[1]
        bc = body_calls(s)
        rv = s.env.get(('RV', d.g.root.id))
        src = s.extra.get('exc_src', '')
        ncell += 1
        pb = d.field(s, roles.playback)
        if bc:
            note('out-body', n, s, 'wrapped output executed in replay', 'C02.a')
        if d.n(s, 'outputs-append') != 1 and ek == 'return':
            pass    # C03.a
        if not missing:
            if ek == 'return' and (rv is None or rv.name != s.extra.get('reader_result')):
                note('out-found-rv', n, s, 'value returned for an output in replay is not the reader\'s result', 'C02.f')
            continue
        if fail is True:
            if ek == 'return':
                note('out-fail', n, s, 'fail_on_no_recorded_result is on but a value is returned for a missing result', 'C02.e')
        elif fail is False:
            dflt = ('free', fac.qualname, 'default_result_when_not_recorded')
            if ek != 'return':
                note('out-default-raise', n, s, 'failing switched off but the missing result raises (default must be returned '
                                               'unconditionally, also when falsy)', 'C02.e')
            elif rv is None or rv.name != dflt:
                note('out-default-rv', n, s, 'failing switched off but the returned value is not the configured default', 'C02.e')
    ce.evaluations += d.visited_pairs
    for key in ('out-fail', 'out-default-raise', 'out-default-rv'):
        ce.instance('output replay: %s' % key, cl.qualname, ('C02.e', key) not in viol)
    cd.instance('output replay: default result returned unconditionally (also when falsy) once failing is off', cl.qualname,
                ('C02.e', 'out-default-raise') not in viol and ('C02.e', 'out-default-rv') not in viol)
    ca.instance('output decorator in replay: body never executed', cl.qualname, ('C02.a', 'out-body') not in viol)
    cf.instance('output replay: returned values from reader / default', cl.qualname, ('C02.f', 'out-found-rv') not in viol)
    for (clause, key), (n, s, msg) in sorted(viol.items()):
        res.add(Finding('C02', clause, kinds[clause], cl.file, cl.qualname, cl.node.lineno, 'output replay: ' + key, msg,
                        witness=d.path_to(n, s), entry=cl.qualname, exit=rm.exit_kind(n)))
    # ---- C02.m fallback aliases are honoured in whatever iterable form they were given: the package's own "is iterable" test is the
    # definition (iter() succeeds), not a list of accepted types
    cm2 = res.clause('C02.m', 'R-DECISION', 'fallback aliases: every iterable counts (the iterable test is `iter(x)` succeeding)', floor=1)
    isit = None
    for m_ in ctx.repo.modules.values():
        if 'is_iterable' in m_.functions:
            isit = m_.functions['is_iterable']
    if isit is None:
        raise AnalysisError('anchor-lost function=is_iterable')
    prm = isit.params[0] if isit.params else None
    calls_iter = any(isinstance(n, ast.Call) and isinstance(n.func, ast.Name) and n.func.id == 'iter' and n.args and isinstance(n.args[0], ast.Name) and
                     n.args[0].id == prm for n in ast.walk(isit.node))
    narrowing = [n for n in ast.walk(isit.node) if isinstance(n, ast.Call) and isinstance(n.func, ast.Name) and n.func.id in ('isinstance', 'issubclass', 'type', 'hasattr')]
    okm = calls_iter and not narrowing
    cm2.instance('is_iterable(x) is "iter(x) does not raise TypeError", with no restriction to particular types', isit.qualname, okm)
    cm2.evaluations += 1
    if not okm:
        res.add(Finding('C02', 'C02.m', 'R-DECISION', isit.file, isit.qualname, (narrowing[0].lineno if narrowing else isit.node.lineno),
                        norm(narrowing[0])[:100] if narrowing else 'is_iterable',
                        'is_iterable no longer means "can be iterated": fallback aliases given as a set, frozenset, dict view or generator are treated '
                        'as "no fallback aliases", so an entry recorded under a fallback alias is answered by the missing-key policy instead'))
    # ---- C02.n every captured argument is part of the key (shared with C06.d): a call is never answered with a value recorded for another call
    from . import common as _cm2
    _cm2.import_clauses(ctx, res, 'C06', ['C06.d'], 'C02', 'C02.n', 'R-DECISION', 'capture selection table of the key builder', floor=4)
    # ---- C02.o one output call has one ordinal: the per-alias counter is read once per call and that value is used for the entry and for the
    # result lookup (a second read can see another thread's increment: the call is answered with another invocation's result)
    co2 = res.clause('C02.o', 'R-PROV', 'output ordinal read once per call; missing-key errors raised only for absent keys', floor=2)
    _f, _d, ocl = roles.closures['output']
    reads2 = [n for n in ast.walk(ocl.node) if isinstance(n, ast.Subscript) and isinstance(n.ctx, ast.Load) and
              isinstance(n.value, ast.Attribute) and isinstance(n.value.value, ast.Name) and n.value.value.id == 'self' and n.value.attr == roles.counter]
    co2.instance('output decorator reads self.%s[alias] once (%d read(s))' % (roles.counter, len(reads2)), ocl.qualname, len(reads2) == 1)
    if len(reads2) != 1:
        res.add(Finding('C02', 'C02.o', 'R-PROV', ocl.file, ocl.qualname, reads2[1].lineno if len(reads2) > 1 else ocl.node.lineno,
                        '%d reads of the invocation counter' % len(reads2),
                        'the per-alias invocation counter is read %d times in one output call: between two reads another thread can increment it, so the '
                        'entry is captured under one ordinal and the result looked up under another (a call is answered with another call\'s result)' % len(reads2)))
    # the reader says "no such key" only when no candidate key is in the recording: never as a translation of some other failure
    rd2 = roles.reader
    translated = [r_ for h_ in ast.walk(rd2.node) if isinstance(h_, ast.ExceptHandler) for r_ in ast.walk(h_)
                  if isinstance(r_, ast.Raise) and r_.exc is not None and 'KeyError' in norm(r_.exc)]
    co2.instance('replay reader raises the missing-key error for absent keys only', rd2.qualname, not translated)
    for r_ in translated[:1]:
        res.add(Finding('C02', 'C02.o', 'R-PROV', rd2.file, rd2.qualname, r_.lineno, norm(r_)[:100],
                        'the replay reader turns another failure (a data handler that cannot restore the entry) into the missing-key error: the missing-key '
                        'policy (substitute value / run the original) is then applied to a call that does have an entry in the recording'))
    # the reader answers from the recording being replayed alone: it keeps nothing on the recorder between calls (what it kept for one replay
    # would answer the calls of the next)
    rd_w = [(n, w) for n, w in _cm2.instance_writes(rd2.node)]
    co2.instance('the replay reader writes no recorder state', rd2.qualname, not rd_w)
    for n, w in rd_w[:1]:
        res.add(Finding('C02', 'C02.o', 'R-PROV', rd2.file, rd2.qualname, n.lineno, norm(n)[:100],
                        'the replay reader keeps state on the recorder (%s): what it remembered while one recording was replayed (its keys, an entry) '
                        'is still there when another recording is replayed, so calls present in that recording are taken for missing - or answered '
                        'from the earlier one' % w))
    # ---- C02.p replay wins over recording: play() called from inside a recorded operation (both a played and an active recording exist)
    cp2 = res.clause('C02.p', 'R-TYPESTATE', 'with a recording in progress AND a recording being replayed, the decorators replay: no body runs, nothing is '
                     'written to the recording in progress', floor=3)
    for kind in ('operation', 'input', 'output'):
        db = rm.run_closure(ctx, kind, 'both', track_free=OPTS)
        fac_b, _deco_b, cl_b = roles.closures[kind]
        hr_b = handler_roles(cl_b, roles) if kind != 'operation' else {}
        bad = None
        for n, s in db.exits:
            e_, i_ = rm.initial_flags(db, s)
            if i_ is True:
                continue
            stores = s.extra.get(('n', 'store:active-recording'), 0) + s.extra.get(('n', 'iface:Recording.add_metadata'), 0)
            hs = {hr_b.get(h) for h in s.extra.get('root_handlers', frozenset())}
            bc = body_calls(s)
            if kind == 'operation':
                wrong = bc != 1 or db.n(s, 'enter:start_recording') or stores
            else:
                wrong = stores or (bc and 'missing' not in hs)
            if wrong and bad is None:
                bad = (n, s, bc, stores)
        cp2.evaluations += db.visited_pairs
        cp2.instance('%s decorator with both recordings present: replays' % kind, cl_b.qualname, bad is None)
        if bad:
            n, s, bc, stores = bad
            res.add(Finding('C02', 'C02.p', 'R-TYPESTATE', cl_b.file, cl_b.qualname, cl_b.node.lineno,
                            '%s decorator, played + active recording: body calls=%d stores=%d' % (kind, bc, stores),
                            'when play() is called from inside a recorded operation both a played and an active recording exist: the %s decorator then '
                            'records instead of replaying (the wrapped function runs / the recording in progress is written), so the replayed operation '
                            'touches the outside world and the recording being made is polluted' % kind,
                            witness=db.path_to(n, s), entry=cl_b.qualname, exit=rm.exit_kind(n)))
    return res


def _resolve_local(fn, e, depth=0):
    if isinstance(e, ast.Name) and depth < 3:
        assigns = [n for n in walk_own(fn) if isinstance(n, ast.Assign) and
                   any(isinstance(t, ast.Name) and t.id == e.id for t in n.targets)]
        if len(assigns) == 1:
            return _resolve_local(fn, assigns[0].value, depth + 1)
    return e


def key_order(cl, roles):
    """the first element of the key list handed to the reader is the variable that is also the executor's key"""
    reader_calls = [n for n in ast.walk(cl.node) if isinstance(n, ast.Call) and isinstance(n.func, ast.Attribute) and
                    n.func.attr == roles.reader.name]
    exec_calls = [n for n in ast.walk(cl.node) if isinstance(n, ast.Call) and isinstance(n.func, ast.Attribute) and
                  n.func.attr == roles.executor.name]
    if not reader_calls or not exec_calls:
        raise AnalysisError('anchor-lost role=reader/executor call in input closure')
    pkeys = roles.reader.params[1]
    ekey = roles.executor.params[2]

    def arg(call, func, pname):
        idx = func.params.index(pname) - 1
        for k in call.keywords:
            if k.arg == pname:
                return k.value
        return call.args[idx] if idx < len(call.args) else None
    main = arg(exec_calls[0], roles.executor, ekey)
    lst = _resolve_local(cl.node, arg(reader_calls[0], roles.reader, pkeys))
    first = lst
    while True:
        if isinstance(first, ast.BinOp) and isinstance(first.op, ast.Add):
            first = _resolve_local(cl.node, first.left)
            continue
        if isinstance(first, (ast.List, ast.Tuple)) and first.elts:
            first = first.elts[0]
            continue
        break
    if isinstance(first, ast.Name) and isinstance(main, ast.Name) and first.id == main.id:
        return True, 'first candidate key is `%s`, the key the recording side stores under' % main.id
    return False, 'first candidate key handed to the reader is `%s`, the recording side stores under `%s`: fallback keys ' \
                  'would be consulted before the main key' % (norm(first), norm(main))


def reader_scan(reader):
    p = reader.params[1]
    for n in ast.walk(reader.node):
        if isinstance(n, ast.Call) and isinstance(n.func, ast.Name) and n.func.id in ('reversed', 'sorted', 'set', 'frozenset') \
                and any(isinstance(a, ast.Name) and a.id == p for a in n.args):
            return False, 'candidate keys are re-ordered by %s()' % n.func.id
        if isinstance(n, ast.Subscript) and isinstance(n.value, ast.Name) and n.value.id == p and isinstance(n.slice, ast.Slice) \
                and n.slice.step is not None:
            return False, 'candidate keys are re-ordered by an extended slice'
    iters = [n for n in ast.walk(reader.node) if isinstance(n, (ast.comprehension, ast.For)) and
             isinstance(n.iter, ast.Name) and n.iter.id == p]
    if not iters:
        return False, 'reader does not iterate the candidate keys in order'
    uses_next = any(isinstance(n, ast.Call) and isinstance(n.func, ast.Name) and n.func.id == 'next' for n in ast.walk(reader.node))
    loop_first = any(isinstance(n, ast.For) and isinstance(n.iter, ast.Name) and n.iter.id == p and
                     any(isinstance(x, (ast.Break, ast.Return)) for x in ast.walk(n)) for n in ast.walk(reader.node))
    if not (uses_next or loop_first):
        return False, 'reader does not stop at the first present key'
    return True, 'plain iteration over `%s`, first hit selected' % p
